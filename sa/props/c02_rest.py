"""C02 rules D1 (sibling chains, one unknown-parameter classifier), D3 (type flow carried across
untyped nodes - decided on the CFG of the normal form of validate_pipeline, helper inlined; the compatibility
test accepts only what the run-time gate accepts), D4 (created keys are written whatever the context holds),
D5 (abstract context state updated completely, after the node's own parameters were classified; the
deleted-key availability test reads the state at node entry), D3 converse (the run-time gate rejects only
what the compatibility test rejects), D6 (run time and inspection enumerate the same kinds of `_process_logic`
parameters - the two base classes and every class-generating function that builds both), D9 (generated processor classes
act on every key they declare as created / suppressed), D7/D8 (module boundary inspection | run: one forward value flow of node configurations - see the block
comment above `_CfgFlow`)."""
from __future__ import annotations

import ast
import itertools
from typing import Dict, List, Optional, Set, Tuple

from ..cfg import CFG
from ..engine import (
    AnalysisError,
    FuncNode,
    Repo,
    ancestors,
    assigned_value,
    call_attr,
    call_name,
    calls_in,
    dotted_name,
    kwarg,
    norm,
    stmt_of,
    walk_no_nested,
)
from ..report import Report
from ._chains import PARAMRES, extract_chain

BUILDER = "semantiva/inspection/builder.py"
VALIDATOR = "semantiva/inspection/validator.py"
NODES = "semantiva/pipeline/nodes/nodes.py"
BPI = "build_pipeline_inspection"


def run(repo: Repo, R: Report) -> None:
    # ------------------------------------------------------------------ D1
    r_sib = R.rule("C02-D1-one-classification", "inspect_origin and resolve_runtime_value consult the channels in the same order (config, context [not deleted], default, then required/KeyError); node constructors and the inspection builder use the same unknown-parameter classifier on the same inputs", 6)
    io = repo.func(PARAMRES, "inspect_origin")
    rt = repo.func(PARAMRES, "resolve_runtime_value")
    ci, cr = extract_chain(io), extract_chain(rt)
    want_i = [("config", "config"), ("context", "context"), ("default", "default"), ("always", "required")]
    R.check(ci == want_i, r_sib, PARAMRES, "inspect_origin", f"first-match chain {ci}", f"inspection classifies parameter origins as {ci}, not [config, context(not deleted), default, required]", io.lineno)
    same = len(ci) == len(cr) and all(a[0] == b[0] for a, b in zip(ci, cr))
    R.check(same, r_sib, PARAMRES, "inspect_origin ~ resolve_runtime_value", f"guards agree position by position: {[a[0] for a in ci]} vs {[b[0] for b in cr]}", "inspection and run time consult the parameter channels in different orders: the reported origin is not where the run-time value comes from", io.lineno)
    # origin index reported for context = key_origin[name]
    rets = [n for n in walk_no_nested(io) if isinstance(n, ast.Return) and isinstance(n.value, ast.Tuple) and isinstance(n.value.elts[0], ast.Constant) and n.value.elts[0].value == "context"]
    ok = len(rets) == 1 and "key_origin" in ast.unparse(rets[0].value.elts[1]) and "name" in ast.unparse(rets[0].value.elts[1])
    R.check(ok, r_sib, PARAMRES, "inspect_origin", "context origin index = key_origin[name]", "the producing node reported for a context parameter is not looked up under the parameter's name", io.lineno)
    CLS = "classify_unknown_config_params"
    sites = []
    units: Dict[Tuple[str, str], ast.AST] = {}
    for rel in (NODES, BUILDER):
        mod = repo.module(rel)
        for qn, f in _classifier_units(repo, rel, CLS):
            units[(rel, qn)] = f
            _defs, resolved = _local_defs(f)
            for c in calls_in(f):
                if call_attr(c) == CLS:
                    t = repo.resolve_call(mod, c)
                    ok = len(t) == 1 and t[0][0].rel == PARAMRES
                    pc, cfg = _bound_arg(c, t[0][1] if ok else None, "processor_cls", 0), _bound_arg(c, t[0][1] if ok else None, "processor_config", 1)
                    # the arguments as expressions over the unit's inputs (a named class / configuration reads like the expression)
                    pc, cfg = (resolved(pc) if pc is not None else None), (resolved(cfg) if cfg is not None else None)
                    ok = ok and pc is not None and _class_of_processor(pc) and cfg is not None and ast.unparse(cfg).endswith("processor_config")
                    sites.append((rel, qn, c, ok))
    for rel, qn, c, ok in sites:
        R.check(ok, r_sib, rel, qn, norm(c)[:90], "unknown parameters are classified by something other than the shared classifier on (processor class, node configuration)", c.lineno)
    if len(sites) < 3:
        raise AnalysisError(f"{len(sites)} call sites of classify_unknown_config_params found (3 confirmed by reading)")
    # node constructors raise when issues exist
    # the node constructors by role: the functions of nodes.py whose normal form (private helpers inlined) calls the shared classifier
    ctor_qns = sorted({qn for rel, qn, _c, _ok in sites if rel == NODES})
    if len(ctor_qns) < 2:
        raise AnalysisError(f"{len(ctor_qns)} function(s) of nodes.py call classify_unknown_config_params (the constructors of the data-node and context-node base classes: 2 confirmed by reading)")
    for ctor_qn in ctor_qns:
        init = units[(NODES, ctor_qn)]
        ok = all(_unknown_rejected(init, c) for c in calls_in(init) if call_attr(c) == CLS)
        R.check(ok, r_sib, NODES, ctor_qn, "if issues: raise InvalidNodeParameterError(invalid={names})", "unknown parameters found by the classifier are not rejected at node construction with the same names", init.lineno)

    # ------------------------------------------------------------------ D3
    _type_flow_rules(repo, R)
    # ------------------------------------------------------------------ D4
    _created_keys_written(repo, R)
    # ------------------------------------------------------------------ D6
    _parameter_universe(repo, R)
    # ------------------------------------------------------------------ D9
    _declared_keys_acted_on(repo, R)
    # ------------------------------------------------------------------ D7 / D8
    _same_node_config(repo, R)
    # ------------------------------------------------------------------ D10
    _elementwise_wrappers(repo, R)
    # ------------------------------------------------------------------ D11
    _wrappers_forward_resolved(repo, R)
    # ------------------------------------------------------------------ D12 (interface inspection | run: the mirrored resolver is the one used)
    _run_side_uses_shared_resolver(repo, R)
    # ------------------------------------------------------------------ D3 (declaration side of the type flow)
    _typed_input_typed_output(repo, R)

    # ------------------------------------------------------------------ D5
    r_state = R.rule("C02-D5-context-state", "per node, after its own parameters were classified: every created key (incl. a probe's context_key) is recorded as produced by *this* node (under the number the node is reported with) and un-deleted; suppressed keys of context processors become deleted; classification reads the live key_origin/deleted_keys", 7)
    bf = repo.func(BUILDER, BPI)
    from .c02 import _main_loop, state_roles

    loop = _main_loop(bf)
    KO, DK = state_roles(bf)
    _bdefs, b_resolved = _local_defs(bf)

    def same_value(a: Optional[ast.AST], b: Optional[ast.AST]) -> bool:
        return a is not None and b is not None and ast.dump(b_resolved(a)) == ast.dump(b_resolved(b))

    # the number this node is reported under: <node record>(index=..., created_keys=...) - else the enumerate(.., start=1) counter
    reported_idx = [kwarg(c, "index") for c in calls_in(loop) if kwarg(c, "index") is not None and kwarg(c, "created_keys") is not None]
    if not reported_idx and isinstance(loop.target, ast.Tuple) and isinstance(loop.target.elts[0], ast.Name):
        reported_idx = [loop.target.elts[0]]
    stores = [n for n in ast.walk(loop) if isinstance(n, ast.Assign) and any(isinstance(t, ast.Subscript) and dotted_name(t.value) == KO for t in n.targets)]
    sd = [c for c in calls_in(loop) if call_attr(c) in ("setdefault",) and dotted_name(c.func.value) == KO]
    R.check(not sd, r_state, BUILDER, BPI, "no key_origin.setdefault(...)", "the first writer of a key is kept as its origin: after a key is re-created the reported origin of a later reader points at the wrong node", sd[0].lineno if sd else loop.lineno)
    created_loop = [n for n in ast.walk(loop) if isinstance(n, ast.For) and n is not loop and _collection_name(n.iter) is not None and any(any(a is n for a in ancestors(s)) for s in stores)]
    ok = False
    CK = _collection_name(created_loop[0].iter) if created_loop else "__missing__"
    dk_muts = _set_mutations(loop, DK)
    undel: List[ast.AST] = []
    if created_loop:
        body = created_loop[0]
        k = body.target.id if isinstance(body.target, ast.Name) else None
        st = [s for s in stores if any(a is body for a in ancestors(s))]
        ok = bool(st) and all(any(same_value(s.value, i) for i in reported_idx) and ast.unparse(s.targets[0]) == f"{KO}[{k}]" and not [a for a in ancestors(s) if isinstance(a, ast.If) and any(a2 is body for a2 in ancestors(a))] for s in st)
        # un-delete: an element of the created keys (or all of them at once) is taken out of the deleted set
        undel = [s for s, kind, arg in dk_muts if kind == "remove" and ((_inside(s, body) and arg is not None and k in _names_of(arg)) or (arg is not None and CK in _names_of(arg)))]
        ok = ok and bool(undel)
    R.check(ok, r_state, BUILDER, BPI, "for key in created_keys: key_origin[key] = index (unconditionally) and un-delete", "created keys are not all recorded as produced by the current node / re-created keys stay marked deleted", loop.lineno)
    ck_defs = [n for n in ast.walk(loop) if isinstance(n, (ast.Assign, ast.AnnAssign)) and n.value is not None and any(dotted_name(t) == CK for t in _targets(n))]
    ok = any("get_created_keys" in ast.unparse(n.value) or any("get_created_keys" in ast.unparse(v) for x in ast.walk(n.value) if isinstance(x, ast.Name) for v in assigned_value(bf, x.id)) for n in ck_defs)
    R.check(ok, r_state, BUILDER, BPI, "created_keys = set(processor.get_created_keys())", "created keys are not taken from the processor's declaration", loop.lineno)
    probe_add = [c for c in calls_in(loop) if call_attr(c) == "add" and dotted_name(c.func.value) == CK and "context_key" in ast.unparse(c)]
    R.check(bool(probe_add) and any(isinstance(a, ast.If) and "_ProbeContextInjectorNode" in ast.unparse(a.test) for a in ancestors(probe_add[0])) if probe_add else False, r_state, BUILDER, BPI, "probe nodes: created_keys.add(node.context_key)", "a probe's context key is not recorded as created by the probe node", loop.lineno)
    # suppressed keys: a collection taken from get_suppressed_keys() is added to the deleted set
    sup_names = {t.id for a in ast.walk(loop) if isinstance(a, (ast.Assign, ast.AnnAssign)) and a.value is not None and any(isinstance(c, ast.Call) and call_attr(c) == "get_suppressed_keys" for c in ast.walk(a.value)) for t in _targets(a) if isinstance(t, ast.Name)}
    sup = [s for s, kind, arg in dk_muts if kind == "add" and arg is not None and ((_names_of(arg) & sup_names) or any(isinstance(c, ast.Call) and call_attr(c) == "get_suppressed_keys" for c in ast.walk(arg)))]
    SUP = next((nm for s, kind, arg in dk_muts if kind == "add" and arg is not None for nm in sorted(_names_of(arg) & sup_names)), "__missing__")
    R.check(bool(sup), r_state, BUILDER, BPI, "deleted_keys.update(node.get_suppressed_keys())", "keys a context processor removes are not marked deleted: a later reader is reported as satisfied by context", loop.lineno)
    ioc = [c for c in calls_in(loop) if call_attr(c) == "inspect_origin"]
    ok = len(ioc) == 1 and dotted_name(kwarg(ioc[0], "key_origin")) == KO and dotted_name(kwarg(ioc[0], "deleted_keys")) == DK and _defined_before_loop(bf, loop, KO) and _defined_before_loop(bf, loop, DK) and "processor_config" in ast.unparse(kwarg(ioc[0], "processor_config") or ast.Constant(value=""))
    R.check(ok, r_state, BUILDER, BPI, "inspect_origin(..., key_origin=key_origin, deleted_keys=deleted_keys)", "parameter origins are not classified against the live per-node context state", loop.lineno)
    # ordering: classification before this node's own stores
    g = CFG(bf, may_raise=lambda p: set())
    heads = set(g.nodes_for(loop))

    def within(starts: List[int]) -> Dict[int, object]:
        """reachability inside one iteration of the node loop (the loop head is reported, not expanded)"""
        saved = {h: g.succ[h] for h in heads}
        for h in heads:
            g.succ[h] = []
        try:
            return g.reach(starts)
        finally:
            for h, v in saved.items():
                g.succ[h] = v

    store_ids = [nid for s in stores for nid in g.nodes_for(s)] + [nid for s in sup for nid in g.nodes_for(s)]
    after = within(store_ids)
    late = [c for c in ioc if any(nid in after for nid in g.nodes_for(stmt_of(c)))]
    # the for-header that contains the call
    for c in ioc:
        for a in ancestors(c):
            if isinstance(a, ast.For) and a is not loop and any(nid in after for nid in g.nodes_for(a)):
                late.append(c)
    R.check(not late, r_state, BUILDER, BPI, "parameters are classified before the node's created/suppressed keys are registered", "a node's own created keys are visible while its parameters are classified: a node that requires and creates the same key satisfies itself", loop.lineno)
    _deleted_availability(bf, loop, g, DK, SUP, CK, R, r_state)
    _effects_order(repo, R, g, within, sup, undel)


def _collection_name(it: ast.AST) -> Optional[str]:
    """the local collection a loop runs over: `X`, `sorted(X)`, `list(X)`, `tuple(X)`, `set(X)`, `X.copy()`"""
    while True:
        if isinstance(it, ast.Call) and isinstance(it.func, ast.Name) and it.func.id in ("sorted", "list", "tuple", "set", "frozenset", "iter") and it.args:
            it = it.args[0]
        elif isinstance(it, ast.Call) and isinstance(it.func, ast.Attribute) and it.func.attr == "copy" and not it.args:
            it = it.func.value
        else:
            break
    return it.id if isinstance(it, ast.Name) else None


def _set_mutations(root: ast.AST, name: str) -> List[Tuple[ast.AST, str, Optional[ast.AST]]]:
    """(statement, "add" | "remove" | "reset", operand) for every statement under *root* that changes the set *name*"""
    out: List[Tuple[ast.AST, str, Optional[ast.AST]]] = []
    for n in ast.walk(root):
        if isinstance(n, ast.Call) and isinstance(n.func, ast.Attribute) and dotted_name(n.func.value) == name:
            arg = n.args[0] if n.args else None
            if n.func.attr in ("update", "add"):
                out.append((stmt_of(n), "add", arg))
            elif n.func.attr in ("remove", "discard", "difference_update", "pop"):
                out.append((stmt_of(n), "remove", arg))
            elif n.func.attr in ("clear", "intersection_update", "symmetric_difference_update"):
                out.append((stmt_of(n), "reset", arg))
        elif isinstance(n, ast.AugAssign) and dotted_name(n.target) == name:
            out.append((n, "add" if isinstance(n.op, ast.BitOr) else ("remove" if isinstance(n.op, ast.Sub) else "reset"), n.value))
        elif isinstance(n, (ast.Assign, ast.AnnAssign)) and n.value is not None and any(dotted_name(t) == name for t in _targets(n)):
            v = n.value
            if isinstance(v, ast.BinOp) and dotted_name(v.left) == name and isinstance(v.op, (ast.BitOr, ast.Sub)):
                out.append((n, "add" if isinstance(v.op, ast.BitOr) else "remove", v.right))
            elif isinstance(v, ast.Call) and isinstance(v.func, ast.Attribute) and dotted_name(v.func.value) == name and v.func.attr in ("union", "difference") and v.args:
                out.append((n, "add" if v.func.attr == "union" else "remove", v.args[0]))
            else:
                out.append((n, "reset", v))
    return out


def _effects_order(repo: Repo, R: Report, g: CFG, within, sup: List[ast.AST], undel: List[ast.AST]) -> None:
    """A node that declares one key as created *and* suppressed (rename:k:k): whether the key is in the context after
    the node ran depends on the order in which the processor writes and deletes; whether inspection holds it live
    depends on the order in which the builder applies the node's created and suppressed keys to the deleted set.  The
    two orders are written in two modules and have to agree."""
    from ..engine import qualname_of
    from ..normal import nfunc

    r = R.rule("C02-D5-effects-order-agrees-with-run", "the inspection builder applies a node's declared effects to the deleted-key state in the order in which generated context processors (rename:) perform them at run time: processors notify the write of the created key before the deletion of the suppressed key, so the builder un-deletes the created keys before it adds the suppressed keys - a key a node both creates and suppresses (rename:k:k) is gone after the node on both sides", 2)
    if not sup or not undel:
        return  # reported by C02-D5-context-state
    sup_ids = [nid for s in sup for nid in g.nodes_for(s)]
    und_ids = [nid for s in undel for nid in g.nodes_for(s)]
    after_sup = within([t for s in sup_ids for t, _l in g.succ[s]])
    after_und = within([t for s in und_ids for t, _l in g.succ[s]])
    create_first = not any(u in after_sup for u in und_ids)
    suppress_first = not any(s in after_und for s in sup_ids)
    if not create_first and not suppress_first:
        raise AnalysisError("build_pipeline_inspection: the node's created keys are un-deleted both before and after its suppressed keys are added to the deleted set; order not recognised")
    b_order = "created keys first, then suppressed keys" if create_first else "suppressed keys first, then created keys"
    runs: List[Tuple[str, str, ast.AST, bool]] = []  # (file, function, first offending call, write_first)
    for mod, qn, F in _outer_functions(repo):
        logic = _registered(F, _hook_name(repo, CTXPROC, "ContextProcessor"))
        if len(logic) != 1 or not (_registered(F, "get_created_keys") and _registered(F, "get_suppressed_keys")):
            continue
        writers, deleters = _base_notifiers(repo, mod, F)
        if not writers or not deleters:
            continue
        L0 = logic[0]
        lqn = qualname_of(L0)
        L = nfunc(repo, mod.rel, lqn, copyprop="all") if mod.defs.get(lqn) is L0 else L0
        if not L.args.args:
            continue
        me = L.args.args[0].arg
        lg = CFG(L, may_raise=lambda part: set())

        def sites(meths: Set[str]) -> List[int]:
            return [n.id for n in lg.nodes if n.ast is not None and n.kind == "stmt" and any(isinstance(c.func, ast.Attribute) and c.func.attr in meths and _is_name(c.func.value, me) for c in calls_in(n.ast))]

        w, d = sites(writers), sites(deleters)
        if not w or not d:
            continue
        repo.consulted.add(mod.rel)
        w_after_d = [x for x in w if x in lg.reach([t for s in d for t, _l in lg.succ[s]])]
        d_after_w = [x for x in d if x in lg.reach([t for s in w for t, _l in lg.succ[s]])]
        if w_after_d and d_after_w:
            continue  # both orders occur: not decided
        runs.append((mod.rel, f"{qn}.{L0.name}", lg.nodes[(w_after_d or d)[0]].ast, not w_after_d))
    if not runs:
        raise AnalysisError("no generated context processor that both writes a created key and deletes a suppressed key was found (rename: factory vanished?)")
    bad_builder = [x for x in runs if x[3] != create_first]
    if bad_builder and len(bad_builder) == len(runs) and not create_first:
        rel, fqn, _st, _wf = bad_builder[0]
        s0 = sup[0]
        R.violation(r, BUILDER, BPI, norm(s0), f"`{norm(s0)}` is applied before the node's created keys are taken out of the deleted set ({b_order}), while the generated processor ({rel}: {fqn}) writes the created key first and deletes the suppressed key last: after a node that creates and suppresses the same key (rename:k:k) the run-time context no longer holds the key but inspection keeps it live, attributed to that node - a later reader is accepted ('context produced by node i') and fails with 'Unable to resolve parameter', a later defaulted parameter of that name is reported as coming from context", s0.lineno)
        for rel, fqn, st, _wf in runs:
            R.ok(r, rel, fqn, "writes before it deletes", "", getattr(st, "lineno", 0))
        return
    R.ok(r, BUILDER, BPI, b_order, "", sup[0].lineno)
    for rel, fqn, st, wf in runs:
        R.check(wf == create_first, r, rel, fqn, norm(st)[:90], f"the generated processor {'deletes the suppressed key before it writes the created key' if not wf else 'writes the created key before it deletes the suppressed key'}, the inspection builder applies {b_order}: for a node that creates and suppresses the same key (rename:k:k) inspection and run disagree on whether the key is in the context afterwards - the reported created / suppressed keys and the origin of later readers are false of the run", getattr(st, "lineno", 0))


def _deleted_availability(bf: ast.AST, loop: ast.For, g: CFG, DK: str, SUP: str, CK: str, R: Report, r_state: str) -> None:
    """A parameter read from a key that an earlier node deleted is an error of the node; the test reads the
    deleted-set as it is when the node is entered (before the node's own creations / deletions are applied)
    and does not exempt the keys the node itself suppresses or creates."""
    heads = set(g.nodes_for(loop))

    def mutates(n: ast.AST) -> bool:
        if isinstance(n, ast.Call) and isinstance(n.func, ast.Attribute) and dotted_name(n.func.value) == DK and n.func.attr in ("update", "add", "remove", "discard", "difference_update", "intersection_update", "symmetric_difference_update", "clear", "pop"):
            return True
        if isinstance(n, ast.AugAssign) and dotted_name(n.target) == DK:
            return True
        if isinstance(n, (ast.Assign, ast.AnnAssign)):
            ts = n.targets if isinstance(n, ast.Assign) else [n.target]
            return any(dotted_name(t) == DK for t in ts)
        return False

    mut_stmts = [stmt_of(n) for n in ast.walk(loop) if mutates(n)]
    mut_nodes = {nid for st in mut_stmts for nid in g.nodes_for(st)}

    def local_defs(name: str) -> List[ast.AST]:
        return [n for n in ast.walk(loop) if isinstance(n, (ast.Assign, ast.AnnAssign)) and n.value is not None and any(isinstance(t, ast.Name) and t.id == name for t in (n.targets if isinstance(n, ast.Assign) else [n.target]))]

    def chain(e: ast.AST, depth: int = 3) -> List[ast.AST]:
        """statements (local definitions inside the loop body) the value of *e* is computed by"""
        out: List[ast.AST] = []
        if depth == 0:
            return out
        for nm in sorted({x.id for x in ast.walk(e) if isinstance(x, ast.Name) and x.id != DK}):
            for d in local_defs(nm):
                if not any(d is o for o in out):
                    out.append(d)
                    for d2 in chain(d.value, depth - 1):
                        if not any(d2 is o for o in out):
                            out.append(d2)
        return out

    guards = []
    for n in ast.walk(loop):
        if not isinstance(n, ast.If) or any(mutates(x) for b in n.body for x in ast.walk(b)):
            continue
        if not any(isinstance(c, ast.Call) and call_attr(c) == "append" for b in n.body for c in ast.walk(b)):
            continue
        defs = chain(n.test)
        readers = [d for d in defs if DK in {x.id for x in ast.walk(d.value) if isinstance(x, ast.Name)}]
        direct = DK in {x.id for x in ast.walk(n.test) if isinstance(x, ast.Name)}
        if readers or direct:
            guards.append((n, defs, readers + ([n] if direct else [])))
    R.check(bool(guards), r_state, BUILDER, BPI, "required ∩ deleted keys -> node error", "requiring a key that an earlier node deleted is not reported", loop.lineno)
    if not guards:
        return
    saved = {h: g.succ[h] for h in heads}
    for h in heads:
        g.succ[h] = []
    try:
        after = g.reach(list(mut_nodes))
    finally:
        for h, v in saved.items():
            g.succ[h] = v
    # names that hold this node's own suppressed / created keys
    own: Set[str] = {SUP, CK}
    own |= {t.id for a in ast.walk(loop) if isinstance(a, (ast.Assign, ast.AnnAssign)) and a.value is not None and any(isinstance(c, ast.Call) and call_attr(c) == "get_suppressed_keys" for c in ast.walk(a.value)) for t in (a.targets if isinstance(a, ast.Assign) else [a.target]) if isinstance(t, ast.Name)}
    own.discard("__missing__")
    for gd, defs, readers in guards:
        late = [rd for rd in readers if any(nid in after and nid not in mut_nodes for nid in g.nodes_for(rd))]
        R.check(not late, r_state, BUILDER, BPI, "the deleted-key availability test reads the deleted set as it is when the node is entered", f"`{norm(late[0]) if late else ''}` reads `{DK}` after this node's own created keys were removed from it / its suppressed keys added to it: a key that an earlier node deleted and that this node re-creates or deletes again is not seen as missing, the configuration is accepted and the run fails with 'Unable to resolve parameter'", getattr(late[0], "lineno", loop.lineno) if late else gd.lineno)
        exempt = []
        for e in [d.value for d in defs] + [gd.test]:
            for b in ast.walk(e):
                right = None
                if isinstance(b, ast.BinOp) and isinstance(b.op, ast.Sub):
                    right = b.right
                elif isinstance(b, ast.Call) and call_attr(b) in ("difference", "difference_update") and b.args:
                    right = b.args[0]
                elif isinstance(b, ast.Compare) and len(b.ops) == 1 and isinstance(b.ops[0], ast.NotIn):
                    right = b.comparators[0]
                if right is not None and ({x.id for x in ast.walk(right) if isinstance(x, ast.Name)} & own):
                    exempt.append(b)
        R.check(not exempt, r_state, BUILDER, BPI, "keys the node itself suppresses or creates are not exempted from the deleted-key availability test", f"`{ast.unparse(exempt[0]) if exempt else ''}` exempts the keys this node suppresses/creates: a key deleted by an earlier node *and* by this node (delete:k, delete:k / delete:k, rename:k:j) is never reported although the node cannot read it at run time", getattr(exempt[0], "lineno", gd.lineno) if exempt else gd.lineno)


def _defined_before_loop(fn: ast.AST, loop: ast.For, name: str) -> bool:
    return any(isinstance(n, (ast.Assign, ast.AnnAssign)) and any(dotted_name(t) == name for t in (n.targets if isinstance(n, ast.Assign) else [n.target])) and n.lineno < loop.lineno for n in walk_no_nested(fn))


# =====================================================================================================
# D1: call sites of the shared unknown-parameter classifier
# =====================================================================================================
def _classifier_units(repo: Repo, rel: str, cls_name: str) -> List[Tuple[str, ast.AST]]:
    """(qualname, normal form) of the functions of *rel* that classify unknown parameters: their normal form (private
    same-module helpers inlined, pure single-assignment locals substituted) calls the shared classifier.  A private helper
    that only exists inlined in its callers is not a unit of its own - the callers are (extract-helper refactor)."""
    from ..normal import nfunc

    mod = repo.module(rel)
    funcs = {q: n for q, n in mod.defs.items() if isinstance(n, FuncNode)}
    cand = {q for q, n in funcs.items() if any(call_attr(c) == cls_name for c in calls_in(n))}
    changed = True
    while changed:
        changed = False
        short = {q.rsplit(".", 1)[-1] for q in cand}
        short = {x for x in short if x.startswith("_") and not x.startswith("__")}
        for q, n in funcs.items():
            if q not in cand and any(call_attr(c) in short for c in calls_in(n)):
                cand.add(q)
                changed = True
    forms = {q: nfunc(repo, rel, q, copyprop="all") for q in sorted(cand)}
    inlined = {name.rsplit(".", 1)[-1] for f in forms.values() for name in getattr(f, "_inlined", [])}
    out = []
    for q, f in forms.items():
        if not any(call_attr(c) == cls_name for c in calls_in(f)):
            continue
        if q.rsplit(".", 1)[-1] in inlined and any(q2 != q and q.rsplit(".", 1)[-1] in {x.rsplit(".", 1)[-1] for x in getattr(f2, "_inlined", [])} for q2, f2 in forms.items()):
            continue
        out.append((q, f))
    return out


def _bound_arg(c: ast.Call, target: Optional[ast.AST], name: str, pos: int) -> Optional[ast.AST]:
    """The argument bound to parameter *name* (keyword, or positional by the callee's signature)."""
    v = kwarg(c, name)
    if v is not None:
        return v
    if target is not None and isinstance(target, FuncNode):
        ps = [a.arg for a in target.args.posonlyargs + target.args.args]
        if name in ps:
            pos = ps.index(name)
    if pos < len(c.args) and not any(isinstance(a, ast.Starred) for a in c.args[: pos + 1]):
        return c.args[pos]
    return None


def _class_of_processor(e: ast.AST) -> bool:
    """`<..>processor.__class__` / `type(<..>processor)`: the class of the processor instance the node holds."""
    if isinstance(e, ast.Attribute) and e.attr == "__class__":
        inner = e.value
    elif isinstance(e, ast.Call) and call_name(e) == "type" and len(e.args) == 1 and not e.keywords:
        inner = e.args[0]
    else:
        return False
    d = dotted_name(inner)
    return bool(d) and d.rsplit(".", 1)[-1] == "processor"


def _unknown_rejected(fn: ast.AST, c: ast.Call) -> bool:
    """Every path of *fn* from the classifier call *c* on which its result is not known to be empty ends in
    `raise InvalidNodeParameterError(..)` built from the names of the result (decided on the CFG: the result may be bound by
    an assignment or an assignment expression, tested directly / negated / by len(), the raise may be the guard's body or
    follow an early return)."""
    st = stmt_of(c)
    iv: Optional[str] = None
    for a in ast.walk(st):
        if isinstance(a, ast.NamedExpr) and a.value is c and isinstance(a.target, ast.Name):
            iv = a.target.id
    if iv is None and isinstance(st, (ast.Assign, ast.AnnAssign)) and st.value is c and len(_targets(st)) == 1 and isinstance(_targets(st)[0], ast.Name):
        iv = _targets(st)[0].id
    if iv is None:
        return False
    # the result is bound once (no later rebinding hides the issues from the test)
    binds = [x for x in ast.walk(fn) if isinstance(x, ast.Name) and x.id == iv and isinstance(x.ctx, (ast.Store, ast.Del))]
    if len(binds) != 1:
        return False

    def is_target(e: ast.AST) -> bool:
        return _is_name(e, iv) or (isinstance(e, ast.NamedExpr) and _is_name(e.target, iv))

    g = CFG(fn)
    good: Set[int] = set()
    for n in g.nodes:
        if n.kind == "stmt" and isinstance(n.ast, ast.Raise) and n.ast.exc is not None:
            txt = ast.unparse(n.ast.exc).replace('"', "'")
            if "InvalidNodeParameterError" in txt and "['name']" in txt and iv in _names_of(n.ast.exc):
                good.add(n.id)
    if not good:
        return False
    starts = g.nodes_for(st)
    if not starts:
        return False
    seen = g.reach(starts, blocked=good, blocked_edges=_edges_implying(g, _empty_atom(is_target)))
    return g.ret_exit not in seen


# =====================================================================================================
# generic helpers: guard implication, None-atoms
# =====================================================================================================
SWEEP = "semantiva/data_processors/parametric_sweep_factory.py"


def _implies(e: ast.AST, atom, val: bool) -> bool:
    """Does "*e* evaluates to a value whose truth is *val*" imply that (at least one of) the atom(s) holds?
    ``atom(x)`` is True when x *is* an atom, False when x is the negation of one, None otherwise."""
    p = atom(e)
    if p is True and val:
        return True
    if p is False and not val:
        return True
    if isinstance(e, ast.UnaryOp) and isinstance(e.op, ast.Not):
        return _implies(e.operand, atom, not val)
    if isinstance(e, ast.BoolOp):
        subs = [_implies(v, atom, val) for v in e.values]
        if isinstance(e.op, ast.And):
            return any(subs) if val else all(subs)
        return all(subs) if val else any(subs)
    return False


def _edges_implying(g: CFG, atom, usable=lambda node: True) -> Set[Tuple[int, str]]:
    """(branch node, label) pairs on which an atom is guaranteed."""
    out: Set[Tuple[int, str]] = set()
    for n in g.nodes:
        if n.kind in ("if", "while") and n.part is not None and usable(n):
            if _implies(n.part, atom, True):
                out.add((n.id, "T"))
            if _implies(n.part, atom, False):
                out.add((n.id, "F"))
    return out


def _none_atom(is_target):
    """atom "<target> is None" (truthiness of the target counts as "is not None": node records and
    type objects are never falsy)."""

    def atom(e: ast.AST) -> Optional[bool]:
        if isinstance(e, ast.Compare) and len(e.ops) == 1 and isinstance(e.comparators[0], ast.Constant) and e.comparators[0].value is None and is_target(e.left):
            if isinstance(e.ops[0], (ast.Is, ast.Eq)):
                return True
            if isinstance(e.ops[0], (ast.IsNot, ast.NotEq)):
                return False
        if is_target(e):
            return False
        return None

    return atom


def _neg(atom):
    def a(e):
        p = atom(e)
        return None if p is None else (not p)

    return a


def _either(*atoms):
    def a(e):
        res = [x(e) for x in atoms]
        if any(r is True for r in res):
            return True
        if any(r is False for r in res):
            return False
        return None

    return a


def _is_name(e: ast.AST, name: Optional[str]) -> bool:
    return isinstance(e, ast.Name) and e.id == name


def _is_attr_of(e: ast.AST, name: Optional[str], attr: str) -> bool:
    return isinstance(e, ast.Attribute) and e.attr == attr and _is_name(e.value, name)


def _inside(node: Optional[ast.AST], root: ast.AST) -> bool:
    return node is not None and (node is root or any(a is root for a in ancestors(node)))


# =====================================================================================================
# D3: type flow
# =====================================================================================================
def _compat_name(repo: Repo) -> str:
    """Name of the compatibility predicate of the validator module, found by its role: the one module-level function with two
    leading parameters that tests issubclass(<one of them>, <the other>).  (Falls back to the name it has in the unchanged
    tree when no / more than one function has that shape.)"""
    cache = repo.__dict__.setdefault("_c02_compat_name", {})
    if "name" not in cache:
        mod = repo.module(VALIDATOR)
        cands = []
        for q, n in mod.defs.items():
            if isinstance(n, FuncNode) and "." not in q and len(n.args.args) >= 2:
                ps = {a.arg for a in n.args.args[:2]}
                if any(isinstance(c, ast.Call) and call_attr(c) == "issubclass" and len(c.args) == 2 and {dotted_name(a) for a in c.args} == ps for c in ast.walk(n)):
                    cands.append(q)
        cache["name"] = cands[0] if len(cands) == 1 else "_is_compatible"
    return cache["name"]


def _nf_opts(repo: Repo) -> dict:
    return dict(keep=(_compat_name(repo),), copyprop="all")


def _flow_site(repo: Repo, skip: Tuple[str, ...] = ()) -> Optional[Tuple[str, ast.AST, ast.AST, ast.Call]]:
    """(qualname, normal form, loop, compatibility call) of the function that holds the type-flow loop.
    Functions are tried before validate_pipeline (whose normal form has the helper inlined)."""
    from ..normal import nfunc

    mod = repo.module(VALIDATOR)
    names = [q for q, n in mod.defs.items() if isinstance(n, FuncNode) and "." not in q and q not in (_compat_name(repo), "validate_pipeline") + tuple(skip)]
    for qn in names + ["validate_pipeline"]:
        if qn in skip or repo.maybe_func(VALIDATOR, qn) is None:
            continue
        f = nfunc(repo, VALIDATOR, qn, **_nf_opts(repo))
        for lp in walk_no_nested(f):
            if isinstance(lp, ast.For):
                comp = [c for c in calls_in(lp) if call_attr(c) == _compat_name(repo)]
                if comp:
                    return qn, f, lp, comp[0]
    return None


def _type_flow_rules(repo: Repo, R: Report) -> None:
    from ..cfg import reaching_defs

    r_flow = R.rule("C02-D3-type-flow-carried", "the data-type check compares each node's input type with the output type of the last node that declared one (a predecessor carried from earlier iterations, updated for every typed node and for typed nodes only), for every node that has a typed predecessor and an input type, as (predecessor output, this input); an incompatibility is recorded as an error of the node and validate_pipeline cannot return normally while a node carries an error", 8)
    site = _flow_site(repo)
    if site is None:
        raise AnalysisError("validator: loop calling _is_compatible not found")
    FN, f, lp, comp = site
    if len(comp.args) != 2 or comp.keywords:
        raise AnalysisError("_is_compatible is not called with two positional arguments")
    A, B = comp.args
    g = CFG(f, may_raise=lambda part: set())
    heads = set(g.nodes_for(lp))
    inloop = {n.id for n in g.nodes if n.ast is not None and _inside(n.ast, lp)} - heads
    entries = [t for h in heads for t, lab in g.succ[h] if lab == "T"]
    cstmt = stmt_of(comp)
    comp_nodes = set(g.nodes_for(cstmt))
    if not comp_nodes:
        raise AnalysisError("type-flow loop: the statement of the _is_compatible call is not in the CFG")

    def leaves(seen) -> List[int]:
        """nodes that end the iteration (next iteration or out of the loop)"""
        return [n for n in seen if n in heads or n not in inloop]

    def within(starts, **kw):
        """reachability inside one iteration: loop heads are reported but not expanded"""
        starts = [s for s in starts]
        saved = {h: g.succ[h] for h in heads}
        for h in heads:
            g.succ[h] = []
        try:
            return g.reach(starts, **kw)
        finally:
            for h, v in saved.items():
                g.succ[h] = v

    # -- who is compared: (predecessor output, this node's input)
    X = B.value.id if isinstance(B, ast.Attribute) and B.attr == "input_type" and isinstance(B.value, ast.Name) else None
    if isinstance(A, ast.Attribute) and A.attr == "output_type" and isinstance(A.value, ast.Name):
        P, carried_is = A.value.id, "node"
    elif isinstance(A, ast.Name):
        P, carried_is = A.id, "type"
    else:
        P, carried_is = None, "?"
    ok_args = X is not None and P is not None and P != X
    R.check(ok_args, r_flow, VALIDATOR, FN, norm(comp), "compatibility is not tested as (carried predecessor's output type, this node's input type)", comp.lineno)
    if not ok_args:
        return
    over_all = X in _names_of(lp.target) and any(isinstance(a, ast.Attribute) and a.attr == "nodes" for a in ast.walk(lp.iter)) and not any(isinstance(a, (ast.Subscript, ast.Slice)) for a in ast.walk(lp.iter))

    # -- the predecessor is carried from earlier iterations
    cnode = sorted(comp_nodes)[0]
    rd = reaching_defs(g, P, cnode)
    in_defs = [d for d in rd if d.id in inloop]
    copies = [d for d in in_defs if isinstance(d.ast, (ast.Assign, ast.AnnAssign)) and isinstance(d.ast.value, ast.Name) and d.ast.value.id != P]
    if in_defs and len(copies) == len(in_defs) == len(rd) and len({d.ast.value.id for d in copies}) == 1:
        C = copies[0].ast.value.id
        uses = [d.id for d in copies]
    else:
        C, uses = P, [cnode]
    c_defs = [d for u in uses for d in reaching_defs(g, C, u)]
    ups = {d.id: d for d in c_defs if d.id in inloop and d.kind == "stmt"}
    pre = [d for d in c_defs if d.id not in inloop and d.id not in heads]
    carried = bool(ups) and bool(pre)
    R.check(carried, r_flow, VALIDATOR, FN, f"predecessor `{P}` at the comparison comes from a loop-carried variable", "the predecessor compared with a node is not carried over from earlier iterations (adjacent nodes only): a type change separated by a context-only node is accepted and fails with TypeError at run time", lp.lineno)
    if not carried:
        return
    if not over_all:
        raise AnalysisError(f"type-flow loop: `{X}` is not the element of a loop over all inspection nodes; shape not recognised")
    want = X if carried_is == "node" else f"{X}.output_type"
    val_ok = all(isinstance(d.ast, (ast.Assign, ast.AnnAssign)) and d.ast.value is not None and ast.unparse(d.ast.value) == want for d in ups.values())
    init_ok = all(isinstance(d.ast, (ast.Assign, ast.AnnAssign)) and isinstance(d.ast.value, ast.Constant) and d.ast.value.value is None for d in pre)
    R.check(val_ok and init_ok, r_flow, VALIDATOR, FN, f"carried predecessor starts as None and is only ever set to `{want}`", "the carried predecessor is not the node (or output type) of the iteration that sets it", lp.lineno)
    # the value compared is the one from *before* this iteration's update
    after_up = within(list(ups))
    stale = [u for u in uses if u in after_up and u not in ups]
    R.check(not stale, r_flow, VALIDATOR, FN, "the predecessor is read before this iteration updates it", "the carried predecessor is updated before it is read: a node is compared with itself, not with its predecessor", lp.lineno)

    out_none = _none_atom(lambda e: _is_attr_of(e, X, "output_type"))
    # updated for EVERY typed node: an iteration that ends without the update went through "output_type is None"
    seen = within(entries, blocked=set(ups) - set(entries), blocked_edges=_edges_implying(g, out_none))
    bad = [n for n in leaves(seen)] if not (set(entries) & set(ups)) else []
    R.check(not bad, r_flow, VALIDATOR, FN, "carried predecessor := node whenever node.output_type is not None", "the carried predecessor is not updated for every typed node (e.g. skipped for type-preserving nodes, or after the skip of unchecked nodes): leading nodes are never checked and an incompatible pipeline is accepted", lp.lineno, path=g.path_to(seen, bad[0]) if bad else None)
    # ... and for typed nodes ONLY
    seen = within(entries, blocked_edges=_edges_implying(g, _neg(out_none)))
    bad = [u for u in ups if u in seen]
    R.check(not bad, r_flow, VALIDATOR, FN, "carried predecessor is updated only under node.output_type is not None", "a node without an output type becomes the predecessor: the type produced before a context-only node is forgotten", lp.lineno, path=g.path_to(seen, bad[0]) if bad else None)

    # -- skip conditions: an iteration that ends without the comparison had no typed predecessor or no input type
    def pred_name(e: ast.AST) -> bool:
        return _is_name(e, P) or (C != P and _is_name(e, C))

    def usable(node) -> bool:
        # a test that mentions the carried variable itself is only meaningful before this iteration's update
        if C != P and C in _names_of(node.part) and node.id in after_up:
            return False
        return True

    skip_ok = _either(_none_atom(pred_name), _none_atom(lambda e: _is_attr_of(e, X, "input_type")))
    seen = within(entries, blocked=comp_nodes - set(entries), blocked_edges=_edges_implying(g, skip_ok, usable))
    bad = leaves(seen) if not (set(entries) & comp_nodes) else []
    R.check(not bad, r_flow, VALIDATOR, FN, "the comparison is skipped only when there is no typed predecessor or no input type", "typed nodes are skipped by an additional condition: a node with a typed predecessor and an input type is not checked", lp.lineno, path=g.path_to(seen, bad[0]) if bad else None)

    # -- an incompatibility is recorded on the node
    # the verdict is either branched on directly or named once (`ok = _is_compatible(...)`) and branched on later
    verdict: Optional[str] = None
    if isinstance(cstmt, (ast.If, ast.While)) and any(x is comp for x in ast.walk(cstmt.test)):
        pass
    elif isinstance(cstmt, (ast.Assign, ast.AnnAssign)) and cstmt.value is comp and len(_targets(cstmt)) == 1 and isinstance(_targets(cstmt)[0], ast.Name) and len(assigned_value(f, _targets(cstmt)[0].id)) == 1:
        verdict = _targets(cstmt)[0].id
    else:
        raise AnalysisError("type-flow loop: the _is_compatible verdict is neither a branch condition nor a once-assigned local; shape not recognised")
    compat = lambda e: True if (e is comp or (verdict is not None and _is_name(e, verdict))) else None  # noqa: E731
    rec = [c for c in calls_in(lp) if call_attr(c) in ("append", "extend") and isinstance(c.func, ast.Attribute) and _is_attr_of(c.func.value, X, "errors")]
    rec_nodes = {nid for c in rec for nid in g.nodes_for(stmt_of(c))}
    seen = within(list(comp_nodes), blocked=rec_nodes, blocked_edges=_edges_implying(g, compat, lambda n: n.id in inloop))
    bad = leaves(seen)
    R.check(bool(rec) and not bad, r_flow, VALIDATOR, FN, f"not compatible -> {X}.errors.append(...)", "a detected incompatibility is not recorded as an error of the node on every path", cstmt.lineno, path=g.path_to(seen, bad[0]) if bad else None)

    _validate_raises(repo, R, r_flow)
    _compat_rule(repo, R)
    _gate_accepts_compatible(repo, R)


def _targets(st: ast.AST) -> List[ast.AST]:
    return list(st.targets) if isinstance(st, ast.Assign) else [st.target]


def _names_of(e: Optional[ast.AST]) -> Set[str]:
    return {x.id for x in ast.walk(e) if isinstance(x, ast.Name)} if e is not None else set()


def _validate_raises(repo: Repo, R: Report, r_flow: str) -> None:
    """validate_pipeline: the type-flow check runs first; no normal return while a node has errors."""
    from ..normal import nfunc

    FN = "validate_pipeline"
    vp = nfunc(repo, VALIDATOR, FN, **_nf_opts(repo))
    I = vp.args.args[0].arg if vp.args.args else None
    flow = [lp for lp in walk_no_nested(vp) if isinstance(lp, ast.For) and any(call_attr(c) == _compat_name(repo) for c in calls_in(lp))]
    if not flow:
        # the flow function may be too large to inline: accept a call that resolves to it
        site = _flow_site(repo, skip=(FN,))
        flow = [stmt_of(c) for c in calls_in(vp) if site is not None and call_attr(c) == site[0] and any(_is_name(a, I) for a in c.args)]
    R.check(bool(flow), r_flow, VALIDATOR, FN, "validate_pipeline runs the type-flow check", "validate_pipeline does not run the data-type flow check: incompatible pipelines are accepted", vp.lineno)
    if not flow:
        return
    flow = [lp for lp in flow if not any(_inside(lp, o) for o in flow if o is not lp)]
    g = CFG(vp, may_raise=lambda part: set())
    flow_nodes = {nid for lp in flow for nid in g.nodes_for(lp)}

    def node_var_iter(it: ast.AST) -> bool:
        return isinstance(it, ast.Attribute) and it.attr == "nodes" and _is_name(it.value, I)

    def full_comp(e: ast.AST) -> bool:
        """[... for n in I.nodes for err in n.errors] without filters, element built from err"""
        if not isinstance(e, (ast.ListComp, ast.GeneratorExp, ast.SetComp)) or len(e.generators) != 2:
            return False
        g1, g2 = e.generators
        if g1.ifs or g2.ifs or not node_var_iter(g1.iter) or not isinstance(g1.target, ast.Name) or not isinstance(g2.target, ast.Name):
            return False
        return _is_attr_of(g2.iter, g1.target.id, "errors") and g2.target.id in _names_of(e.elt)

    def per_node(e: ast.AST, n: str) -> bool:
        """all errors of node n: n.errors, or an unfiltered comprehension over it"""
        if _is_attr_of(e, n, "errors"):
            return True
        if isinstance(e, (ast.ListComp, ast.GeneratorExp)) and len(e.generators) == 1:
            g1 = e.generators[0]
            return not g1.ifs and _is_attr_of(g1.iter, n, "errors") and isinstance(g1.target, ast.Name) and g1.target.id in _names_of(e.elt)
        return False

    carriers: Dict[str, List[ast.AST]] = {}

    def carries(e: Optional[ast.AST]) -> bool:
        if e is None:
            return False
        if isinstance(e, ast.Name):
            return e.id in carriers
        if isinstance(e, ast.BinOp) and isinstance(e.op, ast.Add):
            return carries(e.left) or carries(e.right)
        if isinstance(e, ast.Call) and call_name(e) in ("list", "tuple", "sorted") and len(e.args) == 1:
            return carries(e.args[0])
        if isinstance(e, (ast.List, ast.Tuple)):
            return any(isinstance(x, ast.Starred) and carries(x.value) for x in e.elts)
        return full_comp(e)

    def plain_loops_only(st: ast.AST) -> Optional[List[ast.For]]:
        """enclosing compound statements of *st* up to the function: only for-loops without break/continue"""
        loops: List[ast.For] = []
        for a in ancestors(st):
            if a is vp:
                break
            if isinstance(a, ast.For) and not a.orelse and not any(isinstance(x, (ast.Break, ast.Continue, ast.Return)) for x in ast.walk(a)):
                loops.append(a)
            else:
                return None
        return loops

    changed = True
    while changed:
        changed = False
        for st in walk_no_nested(vp):
            if any(_inside(st, lp) for lp in flow):
                continue
            tgt: Optional[str] = None
            if isinstance(st, (ast.Assign, ast.AnnAssign)):
                ts = st.targets if isinstance(st, ast.Assign) else [st.target]
                if len(ts) == 1 and isinstance(ts[0], ast.Name) and carries(st.value) and plain_loops_only(st) == []:
                    tgt = ts[0].id
            elif isinstance(st, ast.AugAssign) and isinstance(st.op, ast.Add) and isinstance(st.target, ast.Name):
                lps = plain_loops_only(st)
                if lps == [] and carries(st.value):
                    tgt = st.target.id
                elif lps is not None and len(lps) == 1 and node_var_iter(lps[0].iter) and isinstance(lps[0].target, ast.Name) and per_node(st.value, lps[0].target.id):
                    tgt = st.target.id
            elif isinstance(st, ast.Expr) and isinstance(st.value, ast.Call) and isinstance(st.value.func, ast.Attribute) and isinstance(st.value.func.value, ast.Name) and len(st.value.args) == 1:
                c, recv, arg = st.value, st.value.func.value.id, st.value.args[0]
                lps = plain_loops_only(st)
                if lps is None:
                    continue
                if c.func.attr == "extend":
                    if lps == [] and carries(arg):
                        tgt = recv
                    elif len(lps) == 1 and node_var_iter(lps[0].iter) and isinstance(lps[0].target, ast.Name) and per_node(arg, lps[0].target.id):
                        tgt = recv
                elif c.func.attr == "append" and len(lps) == 2:
                    inner, outer = lps[0], lps[1]
                    if node_var_iter(outer.iter) and isinstance(outer.target, ast.Name) and _is_attr_of(inner.iter, outer.target.id, "errors") and isinstance(inner.target, ast.Name) and inner.target.id in _names_of(arg):
                        tgt = recv
            if tgt is not None and not any(s is st for s in carriers.get(tgt, [])):
                carriers.setdefault(tgt, []).append(st)
                changed = True
    def any_node_errors(e: ast.AST) -> bool:
        """any(n.errors for n in I.nodes): true iff some node carries an error"""
        if not (isinstance(e, ast.Call) and call_name(e) == "any" and len(e.args) == 1 and isinstance(e.args[0], (ast.GeneratorExp, ast.ListComp)) and len(e.args[0].generators) == 1):
            return False
        g1 = e.args[0].generators[0]
        return not g1.ifs and node_var_iter(g1.iter) and isinstance(g1.target, ast.Name) and _is_attr_of(e.args[0].elt, g1.target.id, "errors")

    direct_tests = [n for n in walk_no_nested(vp) if any_node_errors(n) and not any(_inside(n, lp) for lp in flow)]
    reads = [n for n in walk_no_nested(vp) if isinstance(n, ast.Attribute) and n.attr == "errors" and not _is_name(n.value, I) and not any(_inside(n, lp) for lp in flow)]
    if not carriers and not direct_tests:
        if reads:
            raise AnalysisError("validate_pipeline: node errors are read, but the way they are collected is not recognised")
        R.violation(r_flow, VALIDATOR, FN, "node errors decide the outcome of validate_pipeline", "validate_pipeline never reads the errors recorded on the nodes: a detected incompatibility does not make validation fail", vp.lineno)
        return
    # the collection is complete only after the flow check ran
    # (the check may be bypassed when there are no nodes at all)
    no_nodes = _empty_atom(lambda e: isinstance(e, ast.Attribute) and e.attr == "nodes" and _is_name(e.value, I))
    first = g.reach([g.entry], blocked=flow_nodes, blocked_edges=_edges_implying(g, no_nodes))
    early = [s for lst in carriers.values() for s in lst if any(top in first for top in _top_nodes(g, s, vp))]
    early += [stmt_of(t) for t in direct_tests if any(top in first for top in _top_nodes(g, stmt_of(t), vp))]
    R.check(not early and g.ret_exit not in first, r_flow, VALIDATOR, FN, "node errors are collected after the type-flow check", "node errors are collected (or the function returns) before the type-flow check has run: a detected incompatibility does not make validation fail", vp.lineno)

    def is_carrier(e: ast.AST) -> bool:
        return isinstance(e, ast.Name) and e.id in carriers

    _emp = _empty_atom(is_carrier)

    def empty(e: ast.AST) -> Optional[bool]:
        if any_node_errors(e):
            return False  # truthy => some node has errors
        return _emp(e)

    def final(node) -> bool:
        """the test reads a carrier after everything was added to it"""
        used = {x for x in _names_of(node.part) if x in carriers}
        later = g.reach([t for t, _l in g.succ[node.id]])
        return not any(top in later for u in used for s in carriers[u] for top in _top_nodes(g, s, vp))

    seen = g.reach([g.entry], blocked_edges=_edges_implying(g, empty, final))
    R.check(g.ret_exit not in seen, r_flow, VALIDATOR, FN, f"validate_pipeline returns normally only when the collected node errors ({', '.join(sorted(carriers)) or 'any(node.errors)'}) are empty", "validate_pipeline can return normally although a node carries an error: a detected incompatibility does not make validation fail", vp.lineno, path=g.path_to(seen, g.ret_exit) if g.ret_exit in seen else None)


def _empty_atom(is_target):
    """atom "<target collection> is empty" (truthiness, len() comparisons, comparison with an empty display)"""

    def is_len(e: ast.AST) -> bool:
        return isinstance(e, ast.Call) and call_name(e) == "len" and len(e.args) == 1 and is_target(e.args[0])

    def atom(e: ast.AST) -> Optional[bool]:
        if is_target(e) or is_len(e):
            return False  # truthy => not empty
        if isinstance(e, ast.Compare) and len(e.ops) == 1:
            l, op, rgt = e.left, e.ops[0], e.comparators[0]
            if is_len(l) and isinstance(rgt, ast.Constant):
                if (isinstance(op, ast.Eq) and rgt.value == 0) or (isinstance(op, ast.Lt) and rgt.value == 1) or (isinstance(op, ast.LtE) and rgt.value == 0):
                    return True
                if (isinstance(op, (ast.NotEq, ast.Gt)) and rgt.value == 0) or (isinstance(op, ast.GtE) and rgt.value == 1):
                    return False
            if is_target(l) and isinstance(rgt, (ast.List, ast.Tuple)) and not rgt.elts:
                if isinstance(op, ast.Eq):
                    return True
                if isinstance(op, ast.NotEq):
                    return False
        return None

    return atom


def _top_nodes(g: CFG, st: ast.AST, fn: ast.AST) -> List[int]:
    """CFG nodes of *st* (or, for a statement nested in loops, of its outermost enclosing loop)."""
    top = st
    for a in ancestors(st):
        if a is fn:
            break
        if isinstance(a, ast.stmt):
            top = a
    return g.nodes_for(top) or g.nodes_for(st)


def _compat_rule(repo: Repo, R: Report) -> None:
    """_is_compatible(out, in) may answer yes only where the run-time gate lets the data through."""
    from ..cfg import reaching_defs
    from ..normal import nfunc

    r = R.rule("C02-D3-compatible-implies-gate", "inspection's compatibility test answers yes only when the predecessor's declared output type equals or is a subclass of the node's input type - the condition under which the run-time gate issubclass(type(data), input_type) accepts the data; it has no other accepting branch", 2)
    IC = _compat_name(repo)
    ic = nfunc(repo, VALIDATOR, IC, copyprop="all")
    if len(ic.args.args) < 2:
        raise AnalysisError("_is_compatible: two parameters expected")
    p0, p1 = ic.args.args[0].arg, ic.args.args[1].arg
    iss = [c for c in ast.walk(ic) if isinstance(c, ast.Call) and call_attr(c) == "issubclass"]
    ok = len(iss) >= 1 and all([dotted_name(a) for a in c.args] == [p0, p1] for c in iss)
    R.check(ok, r, VALIDATOR, IC, f"issubclass({p0}, {p1})", "inspection's compatibility rule is not the run-time gate's direction issubclass(output, input)", ic.lineno)

    def gate(e: ast.AST) -> Optional[bool]:
        if isinstance(e, ast.Call) and call_attr(e) == "issubclass" and [dotted_name(a) for a in e.args] == [p0, p1] and not e.keywords:
            return True
        if isinstance(e, ast.Compare) and len(e.ops) == 1 and {dotted_name(e.left), dotted_name(e.comparators[0])} == {p0, p1}:
            if isinstance(e.ops[0], (ast.Eq, ast.Is)):
                return True
            if isinstance(e.ops[0], (ast.NotEq, ast.IsNot)):
                return False
        return None

    g = CFG(ic)
    seen = g.reach([g.entry], blocked_edges=_edges_implying(g, gate))
    stored = {x.id for x in ast.walk(ic) if isinstance(x, ast.Name) and isinstance(x.ctx, (ast.Store, ast.Del))}
    params_fixed = p0 not in stored and p1 not in stored

    def answers(v: Optional[ast.AST], at: int, depth: int = 0) -> List[ast.AST]:
        """The expressions whose value `v` (read at CFG node *at*) can be: a local that holds the answer is followed to the
        assignments that reach the read (try: answer = <test> / except: .. / else: return answer; answer computed first and
        returned after a guard).  A test established when the local was assigned still holds at the return because the two
        parameters are never rebound; a definition that is not a plain `name = <expr>` is kept as the opaque name."""
        if v is None or depth > 4:
            return [v] if v is not None else []
        if isinstance(v, ast.Name) and params_fixed:
            defs = reaching_defs(g, v.id, at)
            if defs and all(d.kind == "stmt" and isinstance(d.ast, (ast.Assign, ast.AnnAssign)) and d.ast.value is not None and all(isinstance(t, ast.Name) for t in _targets(d.ast)) for d in defs):
                out: List[ast.AST] = []
                for d in defs:
                    out.extend(answers(d.ast.value, d.id, depth + 1))
                return out
            return [v]
        if isinstance(v, ast.IfExp):
            return answers(v.body, at, depth + 1) + answers(v.orelse, at, depth + 1)
        if isinstance(v, ast.BoolOp) and params_fixed:
            # operands that are locals with exactly one reaching plain definition are read through
            vals = []
            for o in v.values:
                alt = answers(o, at, depth + 1) if isinstance(o, ast.Name) else [o]
                vals.append(alt[0] if len(alt) == 1 else o)
            return [ast.BoolOp(op=v.op, values=vals)]
        return [v]

    bad = []
    for nid in seen:
        n = g.nodes[nid]
        if n.kind == "stmt" and isinstance(n.ast, ast.Return):
            for v in answers(n.ast.value, nid) or [None]:
                falsy = v is None or (isinstance(v, ast.Constant) and not v.value)
                if not falsy and not _implies(v, gate, True):
                    bad.append(n)
                    break
    bad.sort(key=lambda n: n.line)
    for n in bad:
        R.violation(r, VALIDATOR, IC, norm(n.ast), f"`{norm(n.ast)}` can answer 'compatible' without {p0} == {p1} or issubclass({p0}, {p1}) having been established: a pipeline whose data the run-time gate rejects (TypeError) is accepted by validation", n.line, path=g.path_to(seen, n.id))
    if not bad:
        R.ok(r, VALIDATOR, IC, "every accepting return is guarded by equality or issubclass(output, input)", "", ic.lineno)


# =====================================================================================================
# D4: keys a node is said to create are written when it runs, whatever the context holds
# =====================================================================================================
def _created_keys_written(repo: Repo, R: Report) -> None:
    from ..cfg import EXC, BASE

    r = R.rule("C02-D4-created-keys-written", "where a run-time component publishes a mapping of created keys into the run context (for key, value in <created>.items(): <write>), whether a pair is written never depends on what the context currently holds (no membership test on the context, no setdefault): inspection records the publishing node as the producer of every declared key unconditionally", 3)
    for rel in (SWEEP, NODES):
        repo.module(rel)  # recorded as consulted (evidence, benign-corpus selection)
    for mod, qn, f in repo.all_functions():
        if mod.rel not in (SWEEP, NODES):
            continue
        # names that denote a run context in this function: receivers of set_value / first argument of update_context
        fn_ctx = {dotted_name(c.func.value) for c in calls_in(f) if isinstance(c.func, ast.Attribute) and c.func.attr == "set_value"} | {dotted_name(c.args[0]) for c in calls_in(f) if call_attr(c) == "update_context" and c.args}
        fn_ctx.discard(None)
        for lp in walk_no_nested(f):
            if not (isinstance(lp, ast.For) and isinstance(lp.target, ast.Tuple) and len(lp.target.elts) == 2 and all(isinstance(t, ast.Name) for t in lp.target.elts)):
                continue
            if not (isinstance(lp.iter, ast.Call) and call_attr(lp.iter) == "items" and not lp.iter.args):
                continue
            k, v = lp.target.elts[0].id, lp.target.elts[1].id
            writes: List[Tuple[ast.AST, ast.AST]] = []  # (statement, context expression)
            soft: List[Tuple[ast.AST, ast.AST]] = []
            for n in walk_no_nested(lp):
                if isinstance(n, ast.Call) and isinstance(n.func, ast.Attribute):
                    a = n.args
                    if n.func.attr == "set_value" and len(a) >= 2 and _is_name(a[0], k) and _is_name(a[1], v):
                        writes.append((stmt_of(n), n.func.value))
                    elif n.func.attr == "update_context" and len(a) >= 3 and _is_name(a[1], k) and _is_name(a[2], v):
                        writes.append((stmt_of(n), a[0]))
                    elif n.func.attr == "setdefault" and len(a) == 2 and _is_name(a[0], k) and _is_name(a[1], v):
                        soft.append((stmt_of(n), n.func.value))
            soft = [(st, c) for st, c in soft if dotted_name(c) in fn_ctx]
            if not writes and not soft:
                continue
            problems: List[Tuple[ast.AST, str]] = []
            for st, ctx in soft:
                problems.append((st, f"`{norm(st)}` keeps the value an earlier producer left in `{ast.unparse(ctx)}`"))
            ctx_names = {dotted_name(c) for _s, c in writes + soft if dotted_name(c)}
            tainted = set(ctx_names)
            changed = True
            while changed:
                changed = False
                for n in walk_no_nested(f):
                    if isinstance(n, (ast.Assign, ast.AnnAssign)) and n.value is not None and not _inside(n, lp):
                        ts = n.targets if isinstance(n, ast.Assign) else [n.target]
                        if _reads_content(n.value, tainted, ctx_names):
                            for t in ts:
                                for x in (t.elts if isinstance(t, (ast.Tuple, ast.List)) else [t]):
                                    if isinstance(x, ast.Name) and x.id not in tainted:
                                        tainted.add(x.id)
                                        changed = True
                    if isinstance(n, (ast.Assign, ast.AnnAssign)) and n.value is not None and _inside(n, lp) and _reads_content(n.value, tainted, ctx_names):
                        ts = n.targets if isinstance(n, ast.Assign) else [n.target]
                        for t in ts:
                            if isinstance(t, ast.Name) and t.id not in tainted:
                                tainted.add(t.id)
                                changed = True
            if writes:
                g = CFG(f, may_raise=lambda part: set())
                heads = set(g.nodes_for(lp))
                wn = {nid for st, _c in writes for nid in g.nodes_for(st)}
                inloop = {n.id for n in g.nodes if n.ast is not None and _inside(n.ast, lp)} - heads

                def reach_in(starts):
                    saved = {h: g.succ[h] for h in heads}
                    for h in heads:
                        g.succ[h] = []
                    try:
                        return g.reach(starts, skip_labels={EXC, BASE})
                    finally:
                        for h, s in saved.items():
                            g.succ[h] = s

                def can_write(nid: int) -> bool:
                    return nid in wn or bool(wn & set(reach_in([nid])))

                def silent(nid: int) -> bool:
                    s = reach_in([nid])
                    return any(x in heads or (x not in inloop and g.nodes[x].kind not in ("exc_exit", "base_exit")) for x in s)

                for nid in sorted(inloop):
                    n = g.nodes[nid]
                    if n.kind != "if" or not can_write(nid):
                        continue
                    for t, lab in g.succ[nid]:
                        if lab in ("T", "F") and not can_write(t) and silent(t) and _reads_content(n.part, tainted, ctx_names):
                            problems.append((n.ast, f"`{norm(n.ast)}` decides from the present content of `{'/'.join(sorted(ctx_names))}` whether a created key is written: the node inspection names as producer leaves the key untouched and a later reader gets an earlier producer's value"))
                            break
            if problems:
                for st, what in problems:
                    R.violation(r, mod.rel, qn, norm(st), what, getattr(st, "lineno", lp.lineno))
            else:
                R.ok(r, mod.rel, qn, norm(lp), "every (key, value) pair is written regardless of the context's content", lp.lineno)


def _reads_content(e: ast.AST, tainted: Set[str], base: Optional[Set[str]] = None) -> bool:
    """Does *e* read a tainted name other than in a capability / presence-of-context test
    (isinstance(ctx, T), hasattr(ctx, 'x'), ctx is [not] None)?"""
    skip: Set[int] = set()
    base = tainted if base is None else base
    for n in ast.walk(e):
        if isinstance(n, ast.Call) and call_name(n) in ("isinstance", "hasattr") and n.args and dotted_name(n.args[0]) in base:
            skip |= {id(x) for x in ast.walk(n)}
        if isinstance(n, ast.Compare) and len(n.ops) == 1 and isinstance(n.ops[0], (ast.Is, ast.IsNot)) and isinstance(n.comparators[0], ast.Constant) and n.comparators[0].value is None and dotted_name(n.left) in base:
            skip |= {id(x) for x in ast.walk(n)}
    for n in ast.walk(e):
        if id(n) in skip:
            continue
        if isinstance(n, (ast.Name, ast.Attribute)) and dotted_name(n) in tainted:
            return True
    return False


# =====================================================================================================
# D3 (converse): the run-time gate lets through everything the compatibility test accepts
# =====================================================================================================
def _local_defs(fn: ast.AST):
    """(single-assignment locals of *fn*, resolver) - a named sub-expression reads like the expression itself."""
    from ._chains import _resolved, _single_defs

    defs = _single_defs(fn)
    return defs, (lambda e: _resolved(e, defs))


def _gate_accepts_compatible(repo: Repo, R: Report) -> None:
    """validation accepts `issubclass(out, in)`; under the stated assumption that a node's data is an instance
    of the declared output type, `issubclass(type(data), in)` then holds at the next typed node.  So no
    rejection (`raise TypeError`) of a node's run path may be reachable while that test holds: a second,
    stricter condition on the data type is a failure validation cannot predict."""
    from ..normal import nfunc

    r = R.rule("C02-D3-gate-rejects-only-incompatible", "in the run path of a node (_process / _process_single_item_with_context in pipeline/nodes/nodes.py) a `raise TypeError` (in the function that tests the data type: any `raise`) is reachable only over a branch on which issubclass(type(payload.data), processor.input_data_type()) is false: data whose type validation accepted (equal to or a subclass of the declared input type) is never rejected at run time by an additional type condition", 1)
    mod = repo.module(NODES)
    gate_fns = 0  # functions found to implement the gate (the anchor of the rule: found by the test, not by the class name)
    analysed = 0
    for qn, f0 in list(mod.defs.items()):
        if not isinstance(f0, FuncNode) or qn.rsplit(".", 1)[-1] not in ("_process", "_process_single_item_with_context"):
            continue
        f = nfunc(repo, NODES, qn, copyprop="all")
        g = CFG(f, may_raise=lambda part: set())

        def is_type_error(st: ast.AST) -> bool:
            if not isinstance(st, ast.Raise) or st.exc is None:
                return False
            t = st.exc.func if isinstance(st.exc, ast.Call) else st.exc
            return (dotted_name(t) or "").split(".")[-1] == "TypeError"

        rejects = [n for n in g.nodes if n.kind == "stmt" and is_type_error(n.ast)]
        gate_like = any(isinstance(x, ast.Call) and isinstance(x.func, ast.Name) and x.func.id in ("issubclass", "isinstance") and any(isinstance(y, ast.Attribute) and y.attr == "input_data_type" for y in ast.walk(f)) for x in ast.walk(f))
        if not rejects and not gate_like:
            continue
        analysed += 1
        payload = f.args.args[1].arg if len(f.args.args) > 1 else "payload"
        _defs, resolved = _local_defs(f)

        def gate(e: ast.AST) -> Optional[bool]:
            """issubclass(type(<payload>.data), <...>.input_data_type()) / isinstance(<payload>.data, ...)"""
            if not (isinstance(e, ast.Call) and isinstance(e.func, ast.Name) and e.func.id in ("issubclass", "isinstance") and len(e.args) == 2 and not e.keywords):
                return None
            a, b = e.args
            if e.func.id == "issubclass":
                if isinstance(a, ast.Call) and isinstance(a.func, ast.Name) and a.func.id == "type" and len(a.args) == 1 and not a.keywords:
                    a = a.args[0]
                elif isinstance(a, ast.Attribute) and a.attr == "__class__":
                    a = a.value
                else:
                    return None
            declared = isinstance(b, ast.Call) and isinstance(b.func, ast.Attribute) and b.func.attr == "input_data_type" and not b.args and not b.keywords
            return True if declared and dotted_name(a) == f"{payload}.data" else None

        not_gate = _neg(gate)
        blocked: Set[Tuple[int, str]] = set()
        gates = 0
        for n in g.nodes:
            if n.kind in ("if", "while") and n.part is not None:
                e = resolved(n.part)
                gates += any(gate(x) for x in ast.walk(e))
                if _implies(e, not_gate, True):
                    blocked.add((n.id, "T"))
                if _implies(e, not_gate, False):
                    blocked.add((n.id, "F"))
        gate_fns += bool(gates)
        if gates:
            # the function that implements the gate rejects for no other reason (whatever the exception class)
            rejects = [n for n in g.nodes if n.kind == "stmt" and isinstance(n.ast, ast.Raise) and n.ast.exc is not None]
        seen = g.reach([g.entry], blocked_edges=blocked)
        bad = sorted((n for n in rejects if n.id in seen), key=lambda n: n.line)
        for n in bad:
            R.violation(r, NODES, qn, norm(n.ast)[:90], f"this rejection can be reached although issubclass(type({payload}.data), processor.input_data_type()) holds ({gates} test(s) of that condition found): data of a type validation accepts (declared output equal to or a subclass of the declared input type, e.g. NoDataType into a BaseDataType consumer) raises TypeError at run time", n.line, path=g.path_to(seen, n.id))
        if not bad:
            R.ok(r, NODES, qn, f"{len(rejects)} rejecting `raise` statement(s), each only behind a failed issubclass(type(data), input_type)", "", f0.lineno)
    # no candidate at all leaves the rule without an instance: report.enforce_minimums turns that into an ANALYSIS-ERROR at the
    # end of the run (unless a violation was located), so a vanished anchor here never hides what later rules find
    if not gate_fns:
        R.note(f"C02-D3-gate-rejects-only-incompatible: none of the {analysed} analysed run-path function(s) tests issubclass(type(<payload>.data), <processor>.input_data_type())")


# =====================================================================================================
# D6: run time and inspection enumerate the same processing parameters
# =====================================================================================================
DATAPROC = "semantiva/data_processors/data_processors.py"
CTXPROC = "semantiva/context_processors/context_processors.py"
_KINDS = ("POSITIONAL_ONLY", "POSITIONAL_OR_KEYWORD", "VAR_POSITIONAL", "KEYWORD_ONLY", "VAR_KEYWORD")
_UNK = ("?",)


class _KindEval:
    """Three-valued evaluation of a filter over one element of `inspect.signature(f).parameters` whose kind is
    *kind* and whose name is a generic one (a name no exclusion list mentions).  Values: ("kind", K),
    ("name",), ("str", s), ("bool", b), ("coll", [values], complete), ("given",) for a collection handed in
    by the caller (an exclusion list), _UNK."""

    def __init__(self, pvar: Optional[str], nvar: Optional[str], kind: str, params: Set[str], consts: Dict[str, ast.AST]):
        self.pvar, self.nvar, self.kind, self.params, self.consts = pvar, nvar, kind, params, consts
        self.not_understood: List[ast.AST] = []

    def _kindish(self, e: ast.AST) -> bool:
        return any(isinstance(x, ast.Attribute) and (x.attr in _KINDS or (x.attr == "kind" and _is_name(x.value, self.pvar))) for x in ast.walk(e))

    def unknown(self, e: ast.AST):
        """an undecided sub-expression: a property of the parameter itself (default / annotation: the filter then
        *depends* on it) or something not understood (kind test in an unknown form, foreign collection)"""
        own = any(isinstance(x, ast.Attribute) and _is_name(x.value, self.pvar) and x.attr in ("default", "annotation") for x in ast.walk(e))
        if self._kindish(e) or not own:
            self.not_understood.append(e)
        return _UNK

    def val(self, e: ast.AST, depth: int = 0):
        if isinstance(e, ast.Attribute):
            if _is_name(e.value, self.pvar) and e.attr == "kind":
                return ("kind", self.kind)
            if _is_name(e.value, self.pvar) and e.attr == "name":
                return ("name",)
            if e.attr in _KINDS:
                return ("kind", e.attr)
            return _UNK
        if isinstance(e, ast.Name):
            if e.id == self.nvar:
                return ("name",)
            if e.id in self.params:
                return ("given",)
            if e.id in self.consts and depth < 4:
                return self.val(self.consts[e.id], depth + 1)
            return _UNK
        if isinstance(e, ast.Constant):
            if isinstance(e.value, bool):
                return ("bool", e.value)
            if isinstance(e.value, str):
                return ("str", e.value)
            return _UNK
        if isinstance(e, (ast.Set, ast.Tuple, ast.List)):
            vs = [self.val(x, depth) for x in e.elts]
            return ("coll", [v for v in vs if v is not _UNK], all(v is not _UNK for v in vs))
        if isinstance(e, ast.Call) and call_name(e) in ("set", "frozenset", "tuple", "list") and len(e.args) == 1 and not e.keywords:
            v = self.val(e.args[0], depth)
            return v if v[0] in ("coll", "given") else _UNK
        if isinstance(e, ast.Call) and call_name(e) in ("set", "frozenset", "tuple", "list") and not e.args and not e.keywords:
            return ("coll", [], True)
        if isinstance(e, (ast.Compare, ast.BoolOp, ast.UnaryOp, ast.IfExp)):
            t = self.truth(e, depth)
            return _UNK if t is None else ("bool", t)
        return _UNK

    def truth(self, e: ast.AST, depth: int = 0) -> Optional[bool]:
        if isinstance(e, ast.Constant) and isinstance(e.value, bool):
            return e.value
        if isinstance(e, ast.UnaryOp) and isinstance(e.op, ast.Not):
            t = self.truth(e.operand, depth)
            return None if t is None else (not t)
        if isinstance(e, ast.BoolOp):
            ts = [self.truth(v, depth) for v in e.values]
            if isinstance(e.op, ast.And):
                return False if any(t is False for t in ts) else (True if all(t is True for t in ts) else None)
            return True if any(t is True for t in ts) else (False if all(t is False for t in ts) else None)
        if isinstance(e, ast.IfExp):
            t = self.truth(e.test, depth)
            if t is None:
                a, b = self.truth(e.body, depth), self.truth(e.orelse, depth)
                return a if a == b else None
            return self.truth(e.body if t else e.orelse, depth)
        if isinstance(e, ast.Compare) and len(e.ops) == 1:
            op = e.ops[0]
            l, c = self.val(e.left, depth), self.val(e.comparators[0], depth)
            if isinstance(op, (ast.In, ast.NotIn)):
                res: Optional[bool] = None
                if l is not _UNK and c[0] == "coll":
                    res = True if l in c[1] else (False if c[2] else None)
                elif l == ("name",) and c[0] == "given":
                    res = False  # a generic parameter name is in no exclusion list
                if res is None:
                    self.unknown(e)
                    return None
                return res if isinstance(op, ast.In) else (not res)
            if isinstance(op, (ast.Is, ast.IsNot, ast.Eq, ast.NotEq)):
                if l is _UNK or c is _UNK or l[0] in ("coll", "given") or c[0] in ("coll", "given"):
                    self.unknown(e)
                    return None
                res = l == c
                return res if isinstance(op, (ast.Is, ast.Eq)) else (not res)
        if isinstance(e, ast.Name) and e.id in self.consts and depth < 4:
            return self.truth(self.consts[e.id], depth + 1)
        self.unknown(e)
        return None


def _module_consts(repo: Repo, rel: str) -> Dict[str, ast.AST]:
    """module-level names bound exactly once by a plain assignment"""
    out: Dict[str, List[ast.AST]] = {}
    for st in repo.module(rel).tree.body:
        if isinstance(st, ast.Assign) and len(st.targets) == 1 and isinstance(st.targets[0], ast.Name):
            out.setdefault(st.targets[0].id, []).append(st.value)
        elif isinstance(st, ast.AnnAssign) and isinstance(st.target, ast.Name) and st.value is not None:
            out.setdefault(st.target.id, []).append(st.value)
    return {k: v[0] for k, v in out.items() if len(v) == 1}


def _signature_elements(it: ast.AST, target: ast.AST) -> Optional[Tuple[Optional[str], Optional[str]]]:
    """(element variable, name variable) when *it* iterates the parameters of a signature:
    `<sig>.parameters.values()` -> (p, None); `<sig>.parameters.items()` -> (p, n)."""
    if not (isinstance(it, ast.Call) and isinstance(it.func, ast.Attribute) and not it.args and isinstance(it.func.value, ast.Attribute) and it.func.value.attr == "parameters"):
        return None
    if it.func.attr == "values" and isinstance(target, ast.Name):
        return target.id, None
    if it.func.attr == "items" and isinstance(target, ast.Tuple) and len(target.elts) == 2 and all(isinstance(x, ast.Name) for x in target.elts):
        return target.elts[1].id, target.elts[0].id
    return None


def _kind_filter(repo: Repo, rel: str, qn: str) -> Tuple[Dict[str, str], ast.AST]:
    """For the function's enumeration of signature parameters whose result it returns: per parameter kind
    "keep" / "drop" / "depends" (on something other than the kind and a generic name), and the construct."""
    from ..normal import nfunc

    f = nfunc(repo, rel, qn, copyprop="all")
    found = _kind_tables(f, _module_consts(repo, rel), qn)
    if len(found) != 1:
        raise AnalysisError(f"{qn}: {len(found)} enumerations of signature parameters feed the returned value (1 expected); shape not recognised")
    return found[0]


def _kind_tables(f: ast.AST, consts: Dict[str, ast.AST], qn: str, sinks: Optional[Set[str]] = None) -> List[Tuple[Dict[str, str], ast.AST]]:
    """Every enumeration of signature parameters in *f* (nested functions not entered) that feeds the value *f* returns
    - or, when *sinks* is given, one of the containers so named: (per parameter kind "keep" / "drop" / "depends", construct)."""
    defs, resolved = _local_defs(f)
    a = f.args
    params = {x.arg for x in list(a.posonlyargs) + list(a.args) + list(a.kwonlyargs)}
    returned: Set[str] = set(sinks or ())
    ret_nodes: List[ast.AST] = []
    for n in walk_no_nested(f):
        if sinks is None and isinstance(n, ast.Return) and n.value is not None:
            ret_nodes.append(n.value)
            returned |= _names_of(n.value) | _names_of(resolved(n.value))

    def is_name(e: ast.AST, pvar: Optional[str], nvar: Optional[str]) -> bool:
        return (nvar is not None and _is_name(e, nvar)) or _is_attr_of(e, pvar, "name")

    def mentions_name(e: ast.AST, pvar, nvar) -> bool:
        return any(is_name(x, pvar, nvar) for x in ast.walk(e))

    found: List[Tuple[Dict[str, str], ast.AST]] = []
    # -- loop form
    for lp in walk_no_nested(f):
        if not isinstance(lp, ast.For):
            continue
        el = _signature_elements(resolved(lp.iter), lp.target)
        if el is None:
            continue
        pvar, nvar = el
        collects: List[ast.AST] = []
        for n in walk_no_nested(lp):
            if isinstance(n, ast.Call) and isinstance(n.func, ast.Attribute) and n.func.attr in ("append", "add") and isinstance(n.func.value, ast.Name) and n.func.value.id in returned and n.args and mentions_name(n.args[0], pvar, nvar):
                collects.append(stmt_of(n))
            elif isinstance(n, (ast.Assign, ast.AnnAssign)):
                for t in _targets(n):
                    if isinstance(t, ast.Subscript) and isinstance(t.value, ast.Name) and t.value.id in returned and is_name(t.slice, pvar, nvar):
                        collects.append(n)
            elif isinstance(n, (ast.Yield,)) and n.value is not None and mentions_name(n.value, pvar, nvar):
                collects.append(stmt_of(n))
        if not collects:
            continue
        g = CFG(f, may_raise=lambda part: set())
        heads = set(g.nodes_for(lp))
        inloop = {n.id for n in g.nodes if n.ast is not None and _inside(n.ast, lp)} - heads
        entries = [t for h in heads for t, lab in g.succ[h] if lab == "T"]
        cn = {nid for st in collects for nid in g.nodes_for(st)}
        table: Dict[str, str] = {}
        for k in _KINDS:
            ev = _KindEval(pvar, nvar, k, params, consts)
            blocked: Set[Tuple[int, str]] = set()
            for n in g.nodes:
                if n.id in inloop and n.kind in ("if", "while") and n.part is not None:
                    t = ev.truth(resolved(n.part))
                    if t is True:
                        blocked.add((n.id, "F"))
                    elif t is False:
                        blocked.add((n.id, "T"))
            saved = {h: g.succ[h] for h in heads}
            for h in heads:
                g.succ[h] = []
            try:
                seen = g.reach(entries, blocked_edges=blocked)
                may_keep = bool(cn & set(seen))
                # an iteration that ends (next element / out of the loop) without passing a collecting statement
                starts = [e for e in entries if e not in cn]
                skipping = g.reach(starts, blocked=cn, blocked_edges=blocked)
                may_skip = any(x in heads or x not in inloop for x in skipping)
            finally:
                for h, v in saved.items():
                    g.succ[h] = v
            table[k] = "drop" if not may_keep else ("depends" if may_skip else "keep")
            if table[k] == "depends" and ev.not_understood:
                raise AnalysisError(f"{qn}: whether a {k} parameter is kept depends on a test that is not understood: `{ast.unparse(ev.not_understood[0])[:80]}`")
        found.append((table, lp))
    # -- comprehension form
    for n in walk_no_nested(f):
        if not isinstance(n, (ast.ListComp, ast.SetComp, ast.DictComp, ast.GeneratorExp)) or len(n.generators) != 1:
            continue
        gen = n.generators[0]
        el = _signature_elements(resolved(gen.iter), gen.target)
        if el is None:
            continue
        pvar, nvar = el
        key = n.key if isinstance(n, ast.DictComp) else n.elt
        if not mentions_name(key, pvar, nvar):
            continue
        st = stmt_of(n)
        is_returned = (sinks is None and isinstance(st, ast.Return)) or (isinstance(st, (ast.Assign, ast.AnnAssign)) and any(isinstance(t, ast.Name) and t.id in returned for t in _targets(st)))
        if not is_returned:
            continue
        table = {}
        for k in _KINDS:
            ev = _KindEval(pvar, nvar, k, params, consts)
            ts = [ev.truth(resolved(c)) for c in gen.ifs]
            table[k] = "drop" if any(t is False for t in ts) else ("keep" if all(t is True for t in ts) else "depends")
            if table[k] == "depends" and ev.not_understood:
                raise AnalysisError(f"{qn}: whether a {k} parameter is kept depends on a test that is not understood: `{ast.unparse(ev.not_understood[0])[:80]}`")
        found.append((table, n))
    return found


def _hook_name(repo: Repo, rel: str, cls0: str) -> str:
    """Name of the processing hook of the processor family of module *rel*, by role: the attribute X of the one
    `inspect.signature(<cls>.X)` the family's run-time enumeration get_processing_parameter_names reads (the method whose
    parameters the node resolves).  Falls back to the name of the unchanged tree."""
    cache = repo.__dict__.setdefault("_c02_hook_name", {})
    if rel not in cache:
        mod = repo.module(rel)
        owners = [c for q, c in mod.defs.items() if isinstance(c, ast.ClassDef) and "." not in q and any(isinstance(st, FuncNode) and st.name == "get_processing_parameter_names" for st in c.body)]
        tops = [c for c in owners if not any(b[1] is o for b in repo.mro(mod, c)[1:] for o in owners)]
        cnode = tops[0] if len(tops) == 1 else next((c for c in owners if c.name == cls0), None)
        names: Set[str] = set()
        if cnode is not None:
            f = next(st for st in cnode.body if isinstance(st, FuncNode) and st.name == "get_processing_parameter_names")
            names = {c.args[0].attr for c in calls_in(f) if call_attr(c) == "signature" and len(c.args) == 1 and isinstance(c.args[0], ast.Attribute)}
        cache[rel] = next(iter(names)) if len(names) == 1 else "_process_logic"
    return cache[rel]


def _family_anchor(repo: Repo, rel: str, cls0: str) -> Tuple[str, str, str]:
    """(base class, metadata builder, signature reader) of the processor family of module *rel*, found by role: the top-most
    class of the module that defines the public enumeration `get_processing_parameter_names`, and its pair of methods
    (builder, reader) where the builder calls the reader on `<cls>._process_logic`.  Whatever is not found that way keeps
    the name it has in the unchanged tree (the rule then reports what is missing under that name)."""
    mod = repo.module(rel)
    owners = [c for q, c in mod.defs.items() if isinstance(c, ast.ClassDef) and "." not in q and any(isinstance(st, FuncNode) and st.name == "get_processing_parameter_names" for st in c.body)]
    tops = [c for c in owners if not any(b[1] is o for b in repo.mro(mod, c)[1:] for o in owners)]
    cnode = tops[0] if len(tops) == 1 else next((c for c in owners if c.name == cls0), None)
    if cnode is None:
        return cls0, "_define_metadata", "_retrieve_parameter_details"
    methods = {st.name: st for st in cnode.body if isinstance(st, FuncNode)}
    pairs = sorted({(m.name, call_attr(c)) for m in methods.values() for c in calls_in(m) if c.args and isinstance(c.args[0], ast.Attribute) and c.args[0].attr == _hook_name(repo, rel, cls0) and call_attr(c) in methods and call_attr(c) != m.name})
    md_name, in_name = pairs[0] if len(pairs) == 1 else ("_define_metadata", "_retrieve_parameter_details")
    return cnode.name, md_name, in_name


def _parameter_universe(repo: Repo, R: Report) -> None:
    r = R.rule("C02-D6-same-parameter-universe", "per processor family (the two base classes and every function that generates a processor class with both enumerations), the enumeration of `_process_logic` parameters that run time resolves (get_processing_parameter_names) and the one inspection classifies (the `parameters` metadata built by _retrieve_parameter_details, or by the function that generates the class; also where defaults are looked up) keep the same kinds of inspect.Parameter: a parameter the node resolves at run time is one inspection classified (else its context requirement is never reported and its default never found), and vice versa (else a key is reported as required that the node never reads)", 7)
    for rel, cls0 in ((DATAPROC, "_BaseDataProcessor"), (CTXPROC, "ContextProcessor")):
        cls, md_name, in_name = _family_anchor(repo, rel, cls0)
        rt_q, in_q = f"{cls}.get_processing_parameter_names", f"{cls}.{in_name}"
        rt_f, in_f = repo.func(rel, rt_q), repo.func(rel, in_q)
        rt, rt_at = _kind_filter(repo, rel, rt_q)
        ins, in_at = _kind_filter(repo, rel, in_q)
        # the metadata is built from the processing method itself
        md_q = f"{cls}.{md_name}"
        md = repo.func(rel, md_q)
        feeds = [c for c in calls_in(md) if call_attr(c) == in_name and c.args and isinstance(c.args[0], ast.Attribute) and c.args[0].attr == _hook_name(repo, rel, cls0)]
        R.check(bool(feeds), r, rel, md_q, "parameters metadata = _retrieve_parameter_details(cls._process_logic, ...)", "the `parameters` metadata inspection classifies is not built from the signature of _process_logic, the method whose parameters run time resolves", md.lineno)
        lost = [k for k in _KINDS if rt[k] != "drop" and ins[k] != "keep"]
        extra = [k for k in _KINDS if ins[k] != "drop" and rt[k] != "keep" and k not in lost]
        shown = lambda t: ", ".join(f"{k}:{t[k]}" for k in _KINDS)  # noqa: E731
        R.check(not lost, r, rel, in_q, "keeps every parameter kind run time resolves", f"parameters of kind {', '.join(lost)} are resolved at run time ({rt_q}: {shown(rt)}) but `{norm(in_at)[:70]}` does not (always) enter them into the `parameters` metadata ({shown(ins)}): inspection neither classifies them nor reports the context key they need, their declared default is not found - an accepted configuration whose initial context holds every reported key fails with 'Unable to resolve parameter'", getattr(in_at, "lineno", in_f.lineno))
        R.check(not extra, r, rel, rt_q, "resolves every parameter kind inspection classifies", f"parameters of kind {', '.join(extra)} are classified by inspection ({in_q}: {shown(ins)}) but `{norm(rt_at)[:70]}` does not (always) resolve them at run time ({shown(rt)}): inspection reports an origin / a required context key for a parameter the node never reads", getattr(rt_at, "lineno", rt_f.lineno))
    _generated_parameter_universe(repo, R, r)


# =====================================================================================================
# D7 / D8: the node configuration that runs is the node configuration that was inspected
# =====================================================================================================
# Inspection builds its node objects by handing the caller's node dicts to the node factory; a run goes
# <run entry>(configuration) -> ... -> node factory.  Both sides meet in shared functions (the factory and what it
# calls).  Two necessary conditions of C02 live on that module boundary:
#   D7  whatever the run side hands to a shared function as a node configuration carries, under "parameters", a
#       key-preserving image of the declared parameters (no entry dropped, no name rewritten) - otherwise origins,
#       required keys and unknown-parameter names reported by inspection describe another pipeline than the one run;
#   D8  building a node for inspection does not add/remove entries of the caller-owned parameters mapping - the CLI
#       (and any caller) inspects and then runs the *same* configuration object.
# Both are decided by one forward value-flow analysis of "node configuration" values (flow- and context-insensitive,
# interprocedural over resolved calls, `self.<attr>` fields joined by attribute name).
CLI = "semantiva/cli/__init__.py"
PIPELINE = "semantiva/pipeline/pipeline.py"
_E: frozenset = frozenset()
_COPY_FUNCS = ("dict", "copy", "OrderedDict", "MappingProxyType")
_SEQ_FUNCS = ("list", "tuple", "sorted", "reversed", "iter")
_BUILTIN_METHODS = {"get", "pop", "setdefault", "copy", "items", "keys", "values", "append", "extend", "insert", "add", "update", "clear", "popitem", "remove", "discard", "index", "count", "sort", "reverse", "join", "format", "startswith", "endswith", "strip", "split", "lower", "upper"}
_KEY_REMOVERS = {"pop", "popitem", "clear", "__delitem__"}
_KEY_ADDERS = {"update", "setdefault", "__setitem__"}


def _const_str(e: Optional[ast.AST]) -> Optional[str]:
    return e.value if isinstance(e, ast.Constant) and isinstance(e.value, str) else None


class _CfgFlow:
    """Abstract values (hashable tuples):
      ("spec", own, pmsh, bad)  a sequence of node configurations (flags describe its elements)
      ("nd",   own, pmsh, bad)  a node configuration: *own* - may be the caller's dict object itself; *pmsh* - its
                                "parameters" entry may be the caller's mapping object; *bad* - indices (into
                                self.bads) of constructs that made its "parameters" entry differ in key set from the
                                declared one
      ("pm",   shared, bad)     a parameters mapping
      ("tup",  (kinds, ...))    a tuple display (multiple return values)
    """

    def __init__(self, repo: Repo) -> None:
        self.repo = repo
        self.env: Dict[int, Dict[str, Set[tuple]]] = {}
        self.ret: Dict[int, Set[tuple]] = {}
        self.attr: Dict[str, Set[tuple]] = {}
        self.funcs: Dict[int, Tuple[object, ast.AST]] = {}
        self.bads: List[Tuple[str, str, ast.AST, str]] = []
        self._bad_ix: Dict[Tuple[int, str], int] = {}
        self.mutations: Dict[int, Tuple[str, str, ast.AST, str]] = {}
        self.calls: Dict[int, Tuple[str, str, ast.Call, List[int], Set[tuple]]] = {}
        self.changed = False
        self.final = False  # second phase: a "parameters" value of still unknown origin counts as not derived
        self._attr_readers: Optional[Dict[str, List[Tuple[object, ast.AST]]]] = None
        self._cur: Tuple[object, ast.AST] = (None, None)  # type: ignore[assignment]

    # ---------------------------------------------------------------- bookkeeping
    def _qn(self, fn: ast.AST) -> str:
        from ..engine import qualname_of

        return qualname_of(fn)

    def _bad(self, node: ast.AST, why: str) -> int:
        key = (id(node), why)
        if key not in self._bad_ix:
            mod, fn = self._cur
            self._bad_ix[key] = len(self.bads)
            self.bads.append((mod.rel, self._qn(fn), node, why))
        return self._bad_ix[key]

    def _mutation(self, node: ast.AST, what: str) -> None:
        if id(node) not in self.mutations:
            mod, fn = self._cur
            self.mutations[id(node)] = (mod.rel, self._qn(fn), node, what)

    def _activate(self, mod, fn: ast.AST) -> None:
        if id(fn) not in self.funcs:
            self.funcs[id(fn)] = (mod, fn)
            self.env.setdefault(id(fn), {})
            self.ret.setdefault(id(fn), set())
            self.repo.consulted.add(mod.rel)
            self.changed = True

    def _join(self, table: Dict[str, Set[tuple]], name: str, kinds) -> None:
        if not kinds:
            return
        cur = table.setdefault(name, set())
        if self._merge(cur, kinds):
            self.changed = True

    @staticmethod
    def _merge(cur: Set[tuple], kinds) -> bool:
        """join: one value per (kind, flags) - the sets of offending constructs are united (keeps the lattice small)"""
        changed = False
        for k in kinds:
            if k in cur:
                continue
            if k[0] == "tup":
                cur.add(k)
                changed = True
                continue
            same = next((c for c in cur if c[:-1] == k[:-1]), None)
            if same is None:
                cur.add(k)
                changed = True
            elif not (k[-1] <= same[-1]):
                cur.discard(same)
                cur.add(same[:-1] + (same[-1] | k[-1],))
                changed = True
        return changed

    def bind_param(self, mod, fn: ast.AST, name: str, kinds) -> None:
        if kinds:
            self._activate(mod, fn)
            self._join(self.env[id(fn)], name, kinds)

    def _set_attr(self, name: str, kinds) -> None:
        if not kinds:
            return
        before = bool(self.attr.get(name))
        self._join(self.attr, name, kinds)
        if not before:
            if self._attr_readers is None:
                self._attr_readers = {}
                for m, _qn, f in self.repo.all_functions():
                    for n in walk_no_nested(f):
                        if isinstance(n, ast.Attribute) and isinstance(n.ctx, ast.Load) and _is_name(n.value, "self"):
                            self._attr_readers.setdefault(n.attr, []).append((m, f))
            for m, f in self._attr_readers.get(name, []):
                self._activate(m, f)

    # ---------------------------------------------------------------- driver
    def solve(self) -> None:
        for phase in (False, True):
            self.final = phase
            for _round in range(60):
                self.changed = False
                for fid in list(self.funcs):
                    self._analyse(fid)
                if not self.changed:
                    break
            else:
                raise AnalysisError("node-configuration value flow did not stabilise")

    def _analyse(self, fid: int) -> None:
        mod, fn = self.funcs[fid]
        self._cur = (mod, fn)
        self._env = self.env[fid]
        for n in walk_no_nested(fn, include_root=False):
            if isinstance(n, (ast.Assign, ast.AnnAssign)):
                if n.value is None:
                    continue
                v = self.eval(n.value)
                for t in _targets(n):
                    self._bind_target(t, v, n.value, n)
            elif isinstance(n, (ast.For, ast.AsyncFor)):
                self._bind_iter(n.target, n.iter)
            elif isinstance(n, ast.Return) and n.value is not None:
                if self._merge(self.ret[fid], self.eval(n.value)):
                    self.changed = True
            elif isinstance(n, ast.Call):
                self.eval(n)
            elif isinstance(n, ast.Delete):
                for t in n.targets:
                    if isinstance(t, ast.Subscript):
                        self._mutate(t.value, "__delitem__", n, _const_str(t.slice))

    # ---------------------------------------------------------------- bindings
    def _bind_name(self, name: str, kinds) -> None:
        self._join(self._env, name, kinds)

    def _bind_target(self, t: ast.AST, v, value: ast.AST, st: ast.AST) -> None:
        if isinstance(t, ast.Name):
            self._bind_name(t.id, v)
        elif isinstance(t, (ast.Tuple, ast.List)):
            for k in v:
                if k[0] == "tup" and len(k[1]) == len(t.elts):
                    for sub, kinds in zip(t.elts, k[1]):
                        self._bind_target(sub, kinds, value, st)
        elif isinstance(t, ast.Attribute) and _is_name(t.value, "self"):
            self._set_attr(t.attr, v)
        elif isinstance(t, ast.Subscript):
            self._store(t.value, t.slice, value, v, st)

    def _store(self, recv: ast.AST, key_e: ast.AST, value: Optional[ast.AST], v, st: ast.AST) -> None:
        """recv[key] = value"""
        base = self.eval(recv)
        key = _const_str(key_e)
        nds = [k for k in base if k[0] == "nd"]
        pms = [k for k in base if k[0] == "pm"]
        if nds and key == "parameters":
            vp = [k for k in v if k[0] == "pm"]
            new = set()
            for nd in nds:
                if vp:
                    for p in vp:
                        new.add(("nd", nd[1], p[1], p[2]))
                elif self.final:
                    ix = self._bad(st, ("" if _is_literal(value) else "?") + "the \"parameters\" entry is replaced by a value that is not derived from the declared parameters")
                    new.add(("nd", nd[1], False, frozenset({ix})))
                if nd[1] and (vp or (self.final and _is_literal(value))):
                    # the stored object becomes reachable from the caller's dict
                    if isinstance(value, ast.Name):
                        self._bind_name(value.id, {("pm", True, p[2]) for p in vp})
                    if not vp or any(p[2] for p in vp):
                        self._mutation(st, "stores a \"parameters\" mapping with other entries than the declared ones into the caller-owned node configuration")
            if isinstance(recv, ast.Name):
                self._bind_name(recv.id, new)
        if pms or (not base and isinstance(recv, ast.Name)):
            # accumulate-loop form of a copy: for k, v in P.items(): X[k] = v
            loop = next((a for a in ancestors(st) if isinstance(a, (ast.For, ast.AsyncFor))), None)
            src, keyvar = self._items_source(loop.iter, loop.target) if loop is not None else (None, None)
            if src is not None and any(k[0] == "pm" for k in src) and isinstance(recv, ast.Name):
                ident = keyvar is not None and _is_name(key_e, keyvar)
                guarded = any(isinstance(a, (ast.If, ast.Try, ast.While, ast.Match)) for a in _between(st, loop)) or any(isinstance(x, (ast.Continue, ast.Break)) for x in ast.walk(loop))
                bad = frozenset().union(*[k[2] for k in src if k[0] == "pm"])
                if not ident or guarded:
                    bad = bad | {self._bad(loop, "entries of the declared parameters are dropped or renamed while they are copied" if ident else "parameter names are rewritten while the declared parameters are copied")}
                self._bind_name(recv.id, {("pm", False, bad)})
            elif pms:
                self._mutate(recv, "__setitem__", st, key)

    def _items_source(self, it: ast.AST, target: ast.AST):
        """(kinds of the mapping iterated, name of the key variable) for `for k, v in M.items()` / `for k in M[.keys()]`"""
        if isinstance(it, ast.Call) and isinstance(it.func, ast.Attribute) and not it.args:
            if it.func.attr == "items":
                kv = target.elts[0].id if isinstance(target, ast.Tuple) and len(target.elts) == 2 and isinstance(target.elts[0], ast.Name) else None
                return self.eval(it.func.value), kv
            if it.func.attr == "keys":
                return self.eval(it.func.value), target.id if isinstance(target, ast.Name) else None
            return None, None
        if isinstance(it, ast.Call) and call_name(it) in _SEQ_FUNCS and len(it.args) == 1:
            return self._items_source(it.args[0], target)
        v = self.eval(it)
        if any(k[0] == "pm" for k in v):
            return v, target.id if isinstance(target, ast.Name) else None
        return None, None

    def _elems(self, kinds) -> Set[tuple]:
        return {("nd",) + k[1:] for k in kinds if k[0] == "spec"}

    def _bind_iter(self, target: ast.AST, it: ast.AST) -> None:
        if isinstance(it, ast.Call) and call_name(it) == "enumerate" and it.args:
            if isinstance(target, (ast.Tuple, ast.List)) and len(target.elts) == 2:
                self._bind_iter(target.elts[1], it.args[0])
            return
        if isinstance(it, ast.Call) and call_name(it) == "zip":
            if isinstance(target, (ast.Tuple, ast.List)) and len(target.elts) == len(it.args):
                for t, a in zip(target.elts, it.args):
                    self._bind_iter(t, a)
            return
        if isinstance(target, ast.Name):
            self._bind_name(target.id, self._elems(self.eval(it)))

    def _mutate(self, recv: ast.AST, how: str, node: ast.AST, key: Optional[str] = None) -> None:
        """a key-adding / key-removing operation on the mapping *recv*"""
        base = self.eval(recv)
        pms = [k for k in base if k[0] == "pm"]
        nds = [k for k in base if k[0] == "nd"]
        if pms:
            if any(k[1] for k in pms):
                self._mutation(node, f"`{norm(node)[:80]}` {'removes entries from' if how in _KEY_REMOVERS else 'adds entries to'} a parameters mapping that may be the caller's own object")
            if how in _KEY_REMOVERS and isinstance(recv, ast.Name):
                ix = self._bad(node, "entries are removed from the parameters mapping")
                self._bind_name(recv.id, {("pm", k[1], k[2] | {ix}) for k in pms})
        if nds and how in _KEY_REMOVERS and (key == "parameters" or how in ("clear", "popitem")):
            if any(k[1] for k in nds):
                self._mutation(node, f"`{norm(node)[:80]}` removes the \"parameters\" entry of the caller-owned node configuration")
            if isinstance(recv, ast.Name):
                ix = self._bad(node, "the \"parameters\" entry is removed from the node configuration")
                self._bind_name(recv.id, {("nd", k[1], False, k[3] | {ix}) for k in nds})

    # ---------------------------------------------------------------- expressions
    def _copy(self, kinds, deep: bool = False) -> Set[tuple]:
        out = set()
        for k in kinds:
            if k[0] == "nd":
                out.add(("nd", False, k[2] and not deep, k[3]))
            elif k[0] == "pm":
                out.add(("pm", False, k[2]))
            elif k[0] == "spec":
                out.add(("spec", k[1] and not deep, k[2] and not deep, k[3]))
        return out

    def eval(self, e: Optional[ast.AST]) -> Set[tuple]:
        if e is None:
            return set()
        if isinstance(e, ast.Name):
            return set(self._env.get(e.id, ()))
        if isinstance(e, ast.Attribute):
            if _is_name(e.value, "self"):
                return set(self.attr.get(e.attr, ()))
            return set()
        if isinstance(e, ast.Subscript):
            base = self.eval(e.value)
            out: Set[tuple] = set()
            key = e.slice.value if isinstance(e.slice, ast.Constant) else None
            for k in base:
                if k[0] == "nd" and key == "parameters":
                    out.add(("pm", k[2], k[3]))
                elif k[0] == "spec":
                    out.add(k if isinstance(e.slice, ast.Slice) else ("nd",) + k[1:])
                elif k[0] == "tup" and isinstance(key, int) and not isinstance(key, bool) and -len(k[1]) <= key < len(k[1]):
                    out |= set(k[1][key])
            return out
        if isinstance(e, ast.BoolOp):
            out = set()
            for v in e.values:
                out |= self.eval(v)
            return out
        if isinstance(e, ast.IfExp):
            return self.eval(e.body) | self.eval(e.orelse)
        if isinstance(e, ast.NamedExpr):
            v = self.eval(e.value)
            if isinstance(e.target, ast.Name):
                self._bind_name(e.target.id, v)
            return v
        if isinstance(e, (ast.Await, ast.Starred)):
            return self.eval(e.value)
        if isinstance(e, ast.Tuple):
            parts = tuple(frozenset(self.eval(x)) for x in e.elts)
            return {("tup", parts)} if any(parts) else set()
        if isinstance(e, (ast.List, ast.Set)):
            out = set()
            for x in e.elts:
                v = self.eval(x)
                out |= {k for k in v if k[0] == "spec"} if isinstance(x, ast.Starred) else {("spec",) + k[1:] for k in v if k[0] == "nd"}
            return out
        if isinstance(e, ast.Dict):
            return self._eval_dict(e)
        if isinstance(e, ast.DictComp):
            return self._eval_dictcomp(e)
        if isinstance(e, (ast.ListComp, ast.SetComp, ast.GeneratorExp)):
            for g in e.generators:
                self._bind_iter(g.target, g.iter)
            v = self.eval(e.elt)
            return {("spec",) + k[1:] for k in v if k[0] == "nd"}
        if isinstance(e, ast.Call):
            return self._eval_call(e)
        return set()

    def _with_parameters(self, bases, pv: Optional[ast.AST], at: ast.AST, fresh_ok: bool) -> Set[tuple]:
        """node configuration(s) *bases* (copied) with the "parameters" entry set to the value of *pv*"""
        v = self.eval(pv)
        vp = [k for k in v if k[0] == "pm"]
        out = set()
        owners = [k for k in bases if k[0] == "nd"] or ([("nd", False, False, frozenset())] if fresh_ok else [])
        for nd in owners:
            if vp:
                for p in vp:
                    out.add(("nd", False, p[1], p[2]))
            elif self.final:
                ix = self._bad(at, ("" if _is_literal(pv) else "?") + "the \"parameters\" entry is set to a value that is not derived from the declared parameters")
                out.add(("nd", False, False, frozenset({ix})))
        return out

    def _eval_dict(self, e: ast.Dict) -> Set[tuple]:
        spread: Set[tuple] = set()
        pv = None
        has_proc = False
        for k, v in zip(e.keys, e.values):
            if k is None:
                spread |= self._copy(self.eval(v))
            elif _const_str(k) == "parameters":
                pv = v
            elif _const_str(k) == "processor":
                has_proc = True
        if pv is not None and (has_proc or any(k[0] == "nd" for k in spread)):
            return self._with_parameters(spread, pv, e, fresh_ok=has_proc)
        return spread

    def _eval_dictcomp(self, e: ast.DictComp) -> Set[tuple]:
        if len(e.generators) != 1:
            return set()
        g = e.generators[0]
        src, keyvar = self._items_source(g.iter, g.target)
        if src is None:
            return set()
        out: Set[tuple] = set()
        for k in src:
            if k[0] == "pm":
                ident = keyvar is not None and _is_name(e.key, keyvar)
                bad = k[2]
                if not ident:
                    bad = bad | {self._bad(e, "parameter names are rewritten")}
                elif g.ifs:
                    bad = bad | {self._bad(e, "entries of the declared parameters are dropped")}
                out.add(("pm", False, bad))
            elif k[0] == "nd":
                out.add(("nd", False, k[2], k[3]))
        return out

    def _eval_call(self, e: ast.Call) -> Set[tuple]:
        f = e.func
        # ---- methods of dict / list values that carry a kind
        if isinstance(f, ast.Attribute) and f.attr in _BUILTIN_METHODS:
            recv = self.eval(f.value)
            a = f.attr
            if recv:
                nds = [k for k in recv if k[0] == "nd"]
                key = _const_str(e.args[0]) if e.args else None
                if a in ("get", "pop", "setdefault"):
                    out = set()
                    if key == "parameters":
                        out |= {("pm", k[2], k[3]) for k in nds}
                        if len(e.args) > 1:
                            out |= {k for k in self.eval(e.args[1]) if k[0] == "pm"}
                    if a == "pop":
                        self._mutate(f.value, "pop", e, key)
                    elif a == "setdefault" and any(k[0] == "pm" for k in recv):
                        self._mutate(f.value, "setdefault", e, key)
                    return out
                if a == "copy":
                    return self._copy(recv)
                if a in ("clear", "popitem"):
                    self._mutate(f.value, a, e)
                    return set()
                if a == "update":
                    if nds:
                        pv = kwarg(e, "parameters")
                        if pv is None and e.args and isinstance(e.args[0], ast.Dict):
                            pv = next((v for k, v in zip(e.args[0].keys, e.args[0].values) if _const_str(k) == "parameters"), None)
                        if pv is not None:
                            self._store(f.value, ast.Constant(value="parameters"), pv, self.eval(pv), stmt_of(e))
                    if any(k[0] == "pm" for k in recv):
                        self._mutate(f.value, "update", e)
                    return set()
                if a in ("append", "add", "insert") and isinstance(f.value, ast.Name) and e.args:
                    v = self.eval(e.args[-1])
                    self._bind_name(f.value.id, {("spec",) + k[1:] for k in v if k[0] == "nd"})
                    return set()
                if a == "extend" and isinstance(f.value, ast.Name) and e.args:
                    self._bind_name(f.value.id, {k for k in self.eval(e.args[0]) if k[0] == "spec"})
                    return set()
                return set()
            if a in ("append", "add", "insert", "extend") and isinstance(f.value, ast.Name) and e.args:
                v = self.eval(e.args[-1])
                self._bind_name(f.value.id, {("spec",) + k[1:] for k in v if k[0] == "nd"} if a != "extend" else {k for k in v if k[0] == "spec"})
                return set()
            if a in ("get", "items", "keys", "values", "copy"):
                return set()
        # ---- copies / sequence wrappers
        cn = call_name(e) if isinstance(f, ast.Name) else (f.attr if isinstance(f, ast.Attribute) and _is_name(f.value, "copy") else None)
        if cn in _COPY_FUNCS and (isinstance(f, ast.Name) or cn == "copy"):
            out = set()
            if e.args:
                out = self._copy(self.eval(e.args[0]))
            pv = kwarg(e, "parameters")
            if cn != "copy" and pv is not None:
                return self._with_parameters(out, pv, e, fresh_ok=kwarg(e, "processor") is not None)
            if out or not e.args:
                return out
        if cn == "deepcopy" and e.args:
            return self._copy(self.eval(e.args[0]), deep=True)
        if isinstance(f, ast.Name) and f.id in _SEQ_FUNCS and len(e.args) >= 1:
            v = self.eval(e.args[0])
            keep = {k for k in v if k[0] == "spec"}
            if keep:
                return keep
        # ---- calls into the package
        argk = [self.eval(x) for x in e.args]
        kwk = {k.arg: self.eval(k.value) for k in e.keywords if k.arg}
        if not any(argk) and not any(kwk.values()):
            return set()
        mod, fn = self._cur
        targets = self.repo.resolve_call(mod, e)
        if not targets and isinstance(f, ast.Attribute) and f.attr not in _BUILTIN_METHODS:
            targets = self.repo.resolve_call_by_name(e)
        out = set()
        tids: List[int] = []
        from ..engine import enclosing_class

        for tm, tn in targets:
            if not isinstance(tn, FuncNode):
                continue
            a = tn.args
            params = [x.arg for x in list(a.posonlyargs) + list(a.args)]
            static = any(dotted_name(d) == "staticmethod" for d in tn.decorator_list)
            if enclosing_class(tn) is not None and not static and params and (isinstance(f, ast.Attribute) or tn.name == "__init__"):
                params = params[1:]
            names = set(params) | {x.arg for x in a.kwonlyargs}
            bound = False
            for p, kinds in zip(params, argk):
                if kinds:
                    self.bind_param(tm, tn, p, kinds)
                    bound = True
            for p, kinds in kwk.items():
                if kinds and p in names:
                    self.bind_param(tm, tn, p, kinds)
                    bound = True
            if bound:
                tids.append(id(tn))
                out |= self.ret.get(id(tn), set())
        if tids:
            allk = set().union(*argk, *kwk.values())
            self.calls[id(e)] = (mod.rel, self._qn(fn), e, tids, allk)
        return out


def _is_literal(e: Optional[ast.AST]) -> bool:
    """a value that visibly does not depend on anything: constant, empty/literal display, dict()/list() without arguments"""
    if e is None or isinstance(e, ast.Constant):
        return True
    if isinstance(e, (ast.Dict, ast.List, ast.Tuple, ast.Set)):
        return not any(isinstance(x, (ast.Name, ast.Attribute, ast.Call, ast.Subscript)) for x in ast.walk(e))
    return isinstance(e, ast.Call) and isinstance(e.func, ast.Name) and e.func.id in ("dict", "list") and not e.args and not e.keywords


def _between(node: ast.AST, top: ast.AST) -> List[ast.AST]:
    out = []
    for a in ancestors(node):
        if a is top:
            break
        out.append(a)
    return out


def _run_entry(repo: Repo, bpi: ast.AST) -> Tuple[object, ast.AST, str]:
    """The function a configuration is handed to for running: in the CLI, the constructor that receives the very
    expression the inspection builder was given (`build_pipeline_inspection(X)` ... `Pipeline(X, ...)`)."""
    cli = repo.module(CLI)
    for qn, f in cli.defs.items():
        if not isinstance(f, FuncNode):
            continue
        given = [ast.dump(c.args[0]) for c in calls_in(f) if c.args and any(t[1] is bpi for t in repo.resolve_call(cli, c))]
        if not given:
            continue
        for c in calls_in(f):
            if c.args and ast.dump(c.args[0]) in given:
                for tm, tn in repo.resolve_call(cli, c):
                    if tn is not bpi and isinstance(tn, FuncNode) and tn.name == "__init__" and len(tn.args.args) > 1:
                        return tm, tn, tn.args.args[1].arg
    fn = repo.func(PIPELINE, "Pipeline.__init__")
    if len(fn.args.args) < 2:
        raise AnalysisError("Pipeline.__init__: configuration parameter not found")
    return repo.module(PIPELINE), fn, fn.args.args[1].arg


def _same_node_config(repo: Repo, R: Report) -> None:
    r7 = R.rule("C02-D7-run-config-is-inspected-config", "every node configuration the run side (from the constructor the CLI hands the inspected configuration to, through canonical-spec building and node instantiation) passes into code shared with inspection (the node factory and its helpers) carries under \"parameters\" a key-preserving image of the declared parameters: no entry is filtered out and no parameter name is rewritten on the way - inspection classifies origins, required keys and unknown names on the declared entries", 1)
    r8 = R.rule("C02-D8-inspection-keeps-caller-config", "building nodes for inspection never adds or removes entries of a caller-owned \"parameters\" mapping (or the entry itself): the configuration object that was inspected is the one that is run afterwards", 1)
    bpi = repo.func(BUILDER, BPI)
    bmod = repo.module(BUILDER)
    if not bpi.args.args:
        raise AnalysisError("build_pipeline_inspection: configuration parameter not found")
    clean_spec = {("spec", True, True, frozenset())}
    # -- inspection side
    ins = _CfgFlow(repo)
    ins.bind_param(bmod, bpi, bpi.args.args[0].arg, clean_spec)
    ins.solve()
    shared_fns = {fid for fid, env in ins.env.items() if fid != id(bpi) and any(k[0] == "nd" for ks in env.values() for k in ks)}
    if not shared_fns:
        raise AnalysisError("build_pipeline_inspection: no function receives the node configuration (node factory not found)")
    for rel, qn, node, what in sorted(ins.mutations.values(), key=lambda t: (t[0], getattr(t[2], "lineno", 0))):
        R.violation(r8, rel, qn, norm(stmt_of(node)), what + ": after inspection the caller's configuration has other parameter entries than the ones inspection reported on, and the pipeline built from it next (inspect-then-run, as `semantiva run` does) is not the one that was accepted", getattr(node, "lineno", 0))
    if not ins.mutations:
        R.ok(r8, BUILDER, BPI, f"{len(ins.funcs)} function(s) reached with the caller's node configuration", "no key-adding / key-removing operation on a caller-owned parameters mapping", bpi.lineno)
    # -- run side
    emod, efn, eparam = _run_entry(repo, bpi)
    run = _CfgFlow(repo)
    run.bind_param(emod, efn, eparam, clean_spec)
    run.solve()
    sinks = []
    for rel, qn, call, tids, kinds in run.calls.values():
        nds = [k for k in kinds if k[0] == "nd"]
        if not nds or not any(t in shared_fns for t in tids):
            continue
        caller = next((fid for fid, (m, f) in run.funcs.items() if m.rel == rel and run._qn(f) == qn), None)
        if caller in shared_fns:
            continue  # inside shared code: both sides pass through here
        sinks.append((rel, qn, call, nds))
    if not sinks:
        raise AnalysisError("run side: no call hands a node configuration to the code inspection builds its nodes with (value flow from the run entry lost)")
    shared_names = {(m.rel, run._qn(f)) for fid, (m, f) in run.funcs.items() if fid in shared_fns}
    reported: Set[int] = set()
    unknown: List[str] = []
    for rel, qn, call, nds in sorted(sinks, key=lambda s: (s[0], s[2].lineno)):
        # a construct inside shared code acts on both sides alike: only the run side's own constructs count
        bad = sorted(ix for ix in set().union(*[k[3] for k in nds]) if (run.bads[ix][0], run.bads[ix][1]) not in shared_names)
        for ix in [i for i in bad if run.bads[i][3].startswith("?")]:
            unknown.append(f"{run.bads[ix][0]}:{getattr(run.bads[ix][2], 'lineno', 0)} `{norm(run.bads[ix][2])[:80]}`")
        bad = [i for i in bad if not run.bads[i][3].startswith("?")]
        if not bad:
            R.ok(r7, rel, qn, norm(call)[:100], "\"parameters\" is a key-preserving image of the declared parameters", call.lineno)
        for ix in bad:
            if ix in reported:
                continue
            reported.add(ix)
            brel, bqn, node, why = run.bads[ix]
            R.violation(r7, brel, bqn, norm(stmt_of(node)), f"`{norm(node)[:90]}`: {why} on the way from the run entry to `{norm(call)[:60]}` ({rel}: {qn}); inspection builds its node from the declared entries, so the origin / required keys / unknown-parameter names it reports are not those of the node that runs (an entry inspection classified as 'configuration' is resolved from context or default or is unresolvable at run time; a name inspection rejects is accepted)", getattr(node, "lineno", 0))
    if unknown and not reported:
        raise AnalysisError("run side: the \"parameters\" entry handed to the node factory is computed in a way the value flow does not understand: " + "; ".join(sorted(set(unknown))))


# =====================================================================================================
# generated processor classes: type(name, (Base,), {<interface name>: <closure>, ...})
# =====================================================================================================
def _outer_functions(repo: Repo):
    """(module, qualname, function) of every function that is not nested in another function"""
    for mod, qn, f in repo.all_functions():
        if not any(isinstance(a, FuncNode) for a in ancestors(f)):
            yield mod, qn, f


def _entry_functions(F: ast.AST, v: Optional[ast.AST], depth: int = 0) -> List[ast.AST]:
    """nested functions of *F* a class-attribute value stands for: `fn`, `classmethod(fn)`, `lambda cls: fn()`,
    `make()` where the nested function `make` returns a function it defines"""
    if v is None or depth > 4:
        return []
    if isinstance(v, ast.Call) and isinstance(v.func, ast.Name) and v.func.id in ("classmethod", "staticmethod") and len(v.args) == 1:
        return _entry_functions(F, v.args[0], depth + 1)
    if isinstance(v, ast.Lambda):
        return _entry_functions(F, v.body.func, depth + 1) if isinstance(v.body, ast.Call) and isinstance(v.body.func, ast.Name) else []
    if isinstance(v, ast.Name):
        return [n for n in ast.walk(F) if isinstance(n, FuncNode) and n is not F and n.name == v.id]
    if isinstance(v, ast.Call) and isinstance(v.func, ast.Name) and not v.args and not v.keywords:
        out: List[ast.AST] = []
        for mk in _entry_functions(F, v.func, depth + 1):
            for rt in walk_no_nested(mk):
                if isinstance(rt, ast.Return) and isinstance(rt.value, ast.Name):
                    out += [n for n in ast.walk(mk) if isinstance(n, FuncNode) and n is not mk and n.name == rt.value.id]
        return out
    return []


def _registered(F: ast.AST, iface: str) -> List[ast.AST]:
    """nested functions of *F* entered under the class-attribute name *iface* into a mapping of *F*
    (`{iface: ...}` entry or `M[iface] = ...`)"""
    out: List[ast.AST] = []
    for n in walk_no_nested(F):
        if isinstance(n, ast.Dict):
            for k, v in zip(n.keys, n.values):
                if _const_str(k) == iface:
                    out += _entry_functions(F, v)
        elif isinstance(n, (ast.Assign, ast.AnnAssign)) and n.value is not None:
            if any(isinstance(t, ast.Subscript) and _const_str(t.slice) == iface for t in _targets(n)):
                out += _entry_functions(F, n.value)
        elif isinstance(n, ast.Call) and (call_name(n) == "dict" or call_attr(n) == "update"):
            for k in n.keywords:
                if k.arg == iface:
                    out += _entry_functions(F, k.value)
    # class statement in the function body: methods are the entries
    for c in ast.walk(F):
        if isinstance(c, ast.ClassDef) and next((a for a in ancestors(c) if isinstance(a, FuncNode)), None) is F:
            out += [st for st in c.body if isinstance(st, FuncNode) and st.name == iface]
    uniq: List[ast.AST] = []
    for f in out:
        if not any(f is u for u in uniq):
            uniq.append(f)
    return uniq


def _declared_list(fns: List[ast.AST]) -> Optional[List[ast.AST]]:
    """elements of the list display every one of *fns* returns (None: some declaration is not a display)"""
    out: List[ast.AST] = []
    for f in fns:
        rets = [n for n in walk_no_nested(f) if isinstance(n, ast.Return)]
        if not rets:
            return None
        for rt in rets:
            if not isinstance(rt.value, (ast.List, ast.Tuple)) or any(isinstance(e, ast.Starred) for e in rt.value.elts):
                return None
            out += list(rt.value.elts)
    return out


def _same_expr(a: Optional[ast.AST], b: Optional[ast.AST]) -> bool:
    return a is not None and b is not None and ast.dump(a) == ast.dump(b)


def _base_notifiers(repo: Repo, mod, F: ast.AST) -> Tuple[Set[str], Set[str]]:
    """(writer method names, deleter method names) of the base class(es) of the class *F* builds with type(name, (Base,), attrs):
    methods (self, key, ...) that hand `key` to an `update`/`set_value` resp. `delete`/`delete_value` call on a part of self."""
    writers: Set[str] = set()
    deleters: Set[str] = set()
    bases: List[Tuple[ast.AST, ast.AST]] = []
    for c in calls_in(F):
        if isinstance(c.func, ast.Name) and c.func.id == "type" and len(c.args) == 3 and isinstance(c.args[1], (ast.Tuple, ast.List)):
            bases += [(b, c) for b in c.args[1].elts]
    for c in ast.walk(F):
        if isinstance(c, ast.ClassDef) and next((a for a in ancestors(c) if isinstance(a, FuncNode)), None) is F:
            bases += [(b, c) for b in c.bases]
    meths: List[ast.AST] = []
    for b, c in bases:
        r = repo.resolve_name(mod, b, c)
        if r is None or not isinstance(r[1], ast.ClassDef):
            continue
        for _cm, cc in repo.mro(r[0], r[1]):
            meths += [st for st in cc.body if isinstance(st, FuncNode) and len(st.args.args) >= 2]
    grew = True
    while grew:
        grew = False
        for st in meths:
            me, key = st.args.args[0].arg, st.args.args[1].arg
            for k in calls_in(st):
                if not (isinstance(k.func, ast.Attribute) and k.args and _is_name(k.args[0], key)):
                    continue
                recv = dotted_name(k.func.value) or ""
                if recv.split(".")[0] != me:
                    continue
                if "." in recv:  # a part of self (the observer / its context)
                    w, d = k.func.attr in ("update", "set_value"), k.func.attr in ("delete", "delete_value")
                else:  # another notifier of the same object
                    w, d = k.func.attr in writers, k.func.attr in deleters
                if w and st.name not in writers:
                    writers.add(st.name)
                    grew = True
                if d and st.name not in deleters:
                    deleters.add(st.name)
                    grew = True
    return writers, deleters


def _declared_keys_acted_on(repo: Repo, R: Report) -> None:
    """Inspection takes the keys a node creates / suppresses from the processor's declaration
    (get_created_keys / get_suppressed_keys); for processor classes generated by a factory function the declaration
    and the behaviour are closures of one function, so their agreement is decidable there."""
    from ..engine import qualname_of
    from ..normal import nfunc

    r = R.rule("C02-D9-declared-keys-acted-on", "in a function that generates a context-processor class (type(name, (Base,), {\"_process_logic\": f, \"get_created_keys\": c, \"get_suppressed_keys\": s, \"get_processing_parameter_names\": p})): every key the declarations c / s list is written / deleted through the base class's observer notifier on every path on which f returns normally, except paths taken only when a declared processing parameter is absent from the resolved arguments (the node raises before the call when a parameter cannot be resolved, so such a path is never run); a condition on the resolved *value* (None, empty, falsy) in front of the write / delete makes the per-node created / suppressed keys inspection reports false of the run", 4)
    for mod, qn, F in _outer_functions(repo):
        logic = _registered(F, _hook_name(repo, CTXPROC, "ContextProcessor"))
        if len(logic) != 1:
            continue
        decls = (("created", _registered(F, "get_created_keys")), ("suppressed", _registered(F, "get_suppressed_keys")))
        if not decls[0][1] and not decls[1][1]:
            continue
        writers, deleters = _base_notifiers(repo, mod, F)
        if not writers and not deleters:
            continue
        repo.consulted.add(mod.rel)
        L0 = logic[0]
        lqn = qualname_of(L0)
        L = nfunc(repo, mod.rel, lqn, copyprop="all") if mod.defs.get(lqn) is L0 else L0
        if not L.args.args:
            continue
        me = L.args.args[0].arg
        kw = L.args.kwarg.arg if L.args.kwarg is not None else None
        _defs, resolved = _local_defs(L)
        pdecl = _registered(F, "get_processing_parameter_names")
        pnames = _declared_list(pdecl) or []
        pcolls = [rt.value.args[0] if isinstance(rt.value, ast.Call) and call_name(rt.value) in ("list", "tuple", "sorted") and len(rt.value.args) == 1 else rt.value for f in pdecl for rt in walk_no_nested(f) if isinstance(rt, ast.Return) and rt.value is not None and not isinstance(rt.value, (ast.List, ast.Tuple))]

        def absent(e: ast.AST) -> Optional[bool]:
            """True: *e* says a declared processing parameter is not among the resolved arguments"""
            e = resolved(e)
            if isinstance(e, ast.Compare) and len(e.ops) == 1 and isinstance(e.ops[0], (ast.In, ast.NotIn)) and kw is not None and _is_name(e.comparators[0], kw):
                if any(_same_expr(resolved(e.left), p) for p in pnames):
                    return isinstance(e.ops[0], ast.NotIn)
            # [k for k in <declared names> if k not in kwargs] - truthy when one is absent
            if isinstance(e, (ast.ListComp, ast.SetComp)) and len(e.generators) == 1 and len(e.generators[0].ifs) == 1 and isinstance(e.generators[0].target, ast.Name):
                gen = e.generators[0]
                t = gen.ifs[0]
                if any(_same_expr(gen.iter, pc) for pc in pcolls) and isinstance(t, ast.Compare) and len(t.ops) == 1 and isinstance(t.ops[0], ast.NotIn) and _is_name(t.left, gen.target.id) and kw is not None and _is_name(t.comparators[0], kw) and _is_name(e.elt, gen.target.id):
                    return True
            return None

        g = CFG(L, may_raise=lambda part: set())
        blocked = _edges_implying(g, absent)
        for what, dfns in decls:
            keys = _declared_list(dfns) if dfns else []
            if keys is None:
                continue  # the declaration is computed: not decided here
            meths = writers if what == "created" else deleters
            for key in keys:
                sites = {n.id for n in g.nodes if n.ast is not None and n.kind == "stmt" and any(isinstance(c.func, ast.Attribute) and c.func.attr in meths and _is_name(c.func.value, me) and c.args and _same_expr(resolved(c.args[0]), key) for c in calls_in(n.ast))}
                miss = g.must_pass([g.entry], [g.ret_exit], lambda n: n.id in sites, blocked_edges=blocked)
                tests = sorted({norm(n.part)[:60] for n in g.nodes if n.kind in ("if", "while") and n.part is not None and absent(n.part) is None and not _implies(n.part, absent, True) and not _implies(n.part, absent, False)})
                verb = "written" if what == "created" else "deleted"
                R.check(bool(sites) and not miss, r, mod.rel, f"{qn}.{L0.name}", f"declared {what} key `{ast.unparse(key)}` is {verb} on every normally returning path",
                        f"the generated processor declares `{ast.unparse(key)}` as {what} (inspection records it so for the node and classifies later readers accordingly) but its logic can return normally without the {'write' if what == 'created' else 'deletion'}" + (f" - it is behind `{tests[0]}`, a condition other than the absence of a declared parameter (e.g. a key that is present and holds None)" if tests and sites else "") + ": the keys that appear / disappear when the node runs are not the reported ones and a later reader of the key fails with 'Unable to resolve parameter' although the configuration was accepted",
                        L0.lineno, path=miss[0][1] if miss else None)


def _generated_parameter_universe(repo: Repo, R: Report, r: str) -> None:
    """D6 for generated processor classes: a function that registers closures as `get_processing_parameter_names`
    (what the node resolves at run time) and stores a mapping it builds from a signature as the `parameters` metadata
    (what inspection classifies and where defaults are looked up) - both enumerations keep the same parameter kinds."""
    from ..normal import nfunc

    for mod, qn, F0 in _outer_functions(repo):
        if not _registered(F0, "get_processing_parameter_names"):
            continue
        if not any(isinstance(n, ast.Subscript) and isinstance(n.ctx, ast.Store) and _const_str(n.slice) == "parameters" for n in ast.walk(F0)):
            continue
        F = nfunc(repo, mod.rel, qn, copyprop="temps")
        consts = _module_consts(repo, mod.rel)
        # the mapping(s) stored as the `parameters` metadata, anywhere in the function or its closures
        metas: Set[str] = set()
        for n in ast.walk(F):
            if isinstance(n, (ast.Assign, ast.AnnAssign)) and n.value is not None and any(isinstance(t, ast.Subscript) and _const_str(t.slice) == "parameters" for t in _targets(n)):
                if isinstance(n.value, ast.Name):
                    metas.add(n.value.id)
            elif isinstance(n, ast.Dict):
                metas |= {v.id for k, v in zip(n.keys, n.values) if _const_str(k) == "parameters" and isinstance(v, ast.Name)}
        # other names of the same mapping object (`described = details`)
        grew = True
        while grew:
            grew = False
            for n in ast.walk(F):
                if isinstance(n, (ast.Assign, ast.AnnAssign)) and isinstance(n.value, ast.Name):
                    for t in _targets(n):
                        if isinstance(t, ast.Name) and (t.id in metas) != (n.value.id in metas):
                            metas |= {t.id, n.value.id}
                            grew = True
        def via_helper(values: List[ast.AST]) -> List[Tuple[Dict[str, str], ast.AST]]:
            """the enumeration is done by a module-level function the value is obtained from (`h(...)`, `list(h(...))`)"""
            out = []
            for v in values:
                while isinstance(v, ast.Call) and isinstance(v.func, ast.Name) and v.func.id in ("list", "tuple", "dict", "OrderedDict", "sorted") and len(v.args) == 1:
                    v = v.args[0]
                if isinstance(v, ast.Call) and isinstance(v.func, ast.Name) and isinstance(mod.defs.get(v.func.id), FuncNode):
                    out += _kind_tables(nfunc(repo, mod.rel, v.func.id, copyprop="all"), consts, v.func.id)
            return out

        ins = _kind_tables(F, consts, qn, sinks=metas) if metas else []
        if not ins and metas:
            ins = via_helper([n.value for n in ast.walk(F) if isinstance(n, (ast.Assign, ast.AnnAssign)) and n.value is not None and any(isinstance(t, ast.Name) and t.id in metas for t in _targets(n))])
        rts: List[Tuple[ast.AST, Dict[str, str], ast.AST]] = []
        for G in _registered(F, "get_processing_parameter_names"):
            tables = _kind_tables(G, consts, f"{qn}.{G.name}")
            if not tables:
                _gd, gres = _local_defs(G)
                tables = via_helper([gres(rt.value) for rt in walk_no_nested(G) if isinstance(rt, ast.Return) and rt.value is not None])
            for table, at in tables:
                rts.append((G, table, at))
        if not ins or not rts:
            continue  # one side does not enumerate a signature here (delegates to the wrapped class): not decided
        if len(ins) != 1:
            raise AnalysisError(f"{qn}: {len(ins)} enumerations of signature parameters feed the `parameters` metadata (1 expected); shape not recognised")
        repo.consulted.add(mod.rel)
        itab, in_at = ins[0]
        shown = lambda t: ", ".join(f"{k}:{t[k]}" for k in _KINDS)  # noqa: E731
        for G, rt, rt_at in rts:
            lost = [k for k in _KINDS if rt[k] != "drop" and itab[k] != "keep"]
            extra = [k for k in _KINDS if itab[k] != "drop" and rt[k] != "keep" and k not in lost]
            R.check(not lost, r, mod.rel, qn, f"`parameters` metadata keeps every parameter kind {G.name} (line {G.lineno}) resolves", f"parameters of kind {', '.join(lost)} are resolved at run time (closure registered as get_processing_parameter_names, line {G.lineno}: {shown(rt)}) but `{norm(in_at)[:70]}` does not (always) enter them into the `parameters` metadata of the generated class ({shown(itab)}): inspection neither classifies them nor reports the context key they need, and the default lookup shared by inspection and run time (_default_for reads this metadata) does not find their declared default - an accepted configuration whose initial context holds every reported key fails with 'Unable to resolve parameter'", getattr(in_at, "lineno", F0.lineno))
            R.check(not extra, r, mod.rel, f"{qn}.{G.name}", f"resolves every parameter kind the `parameters` metadata lists (line {G.lineno})", f"parameters of kind {', '.join(extra)} are listed in the `parameters` metadata ({shown(itab)}) but `{norm(rt_at)[:70]}` does not (always) resolve them at run time ({shown(rt)}): inspection reports an origin / a required context key for a parameter the node never reads", getattr(rt_at, "lineno", G.lineno))


# =====================================================================================================
# D10: generated element-wise wrappers declare a data type they can keep
# =====================================================================================================
def _simplified(e: ast.AST, env: Dict[str, bool]) -> ast.AST:
    """*e* with the sub-tests listed in *env* (by ast.dump) replaced by their truth value, and / or / not folded"""
    d = ast.dump(e)
    if d in env:
        return ast.Constant(value=env[d])
    if isinstance(e, ast.UnaryOp) and isinstance(e.op, ast.Not):
        v = _simplified(e.operand, env)
        if isinstance(v, ast.Constant) and isinstance(v.value, bool):
            return ast.Constant(value=not v.value)
        return ast.UnaryOp(op=ast.Not(), operand=v)
    if isinstance(e, ast.BoolOp):
        is_and = isinstance(e.op, ast.And)
        out: List[ast.AST] = []
        for v in [_simplified(x, env) for x in e.values]:
            if isinstance(v, ast.Constant) and isinstance(v.value, bool):
                if v.value == is_and:
                    continue  # neutral operand
                return ast.Constant(value=not is_and)  # decides the truth of the whole test
            out.append(v)
        if not out:
            return ast.Constant(value=is_and)
        return out[0] if len(out) == 1 else ast.BoolOp(op=e.op, values=out)
    return e


def _elementwise_wrappers(repo: Repo, R: Report) -> None:
    """The validator trusts the input / output data types a node's processor class declares.  A class generated around a
    wrapped processor P (`class W(P)` inside a function that receives P) that declares ONE type for input and output
    (a collection type handed to the factory) and produces its result by delegating to P (`super().process(item)`) tells
    the truth only when P hands back what it is given: the factory has to establish `P.input_data_type() ==
    P.output_data_type()` before it creates the class.  Otherwise inspection reports collection -> collection, validation
    accepts the successor, and the run fails when the outputs of P are put into the declared collection (TypeError)."""
    from ..normal import nfunc

    r = R.rule("C02-D10-elementwise-wrapper-preserves-type", "a function that generates a processor class around a wrapped processor class P (class W(P): ... super().process(item) ...) and lets W declare the same data type for input and output reaches the class statement only over a branch / assertion that establishes P.input_data_type() == P.output_data_type(): the declared output type the validator relies on is true only for type-preserving wrapped processors", 1)
    for mod, qn, F0 in _outer_functions(repo):
        a0 = F0.args
        params0 = {x.arg for x in list(a0.posonlyargs) + list(a0.args) + list(a0.kwonlyargs)}
        if not any(isinstance(c, ast.ClassDef) and any(isinstance(b, ast.Name) and b.id in params0 for b in c.bases) for c in ast.walk(F0)):
            continue
        try:
            F = nfunc(repo, mod.rel, qn, copyprop="all") if mod.defs.get(qn) is F0 else F0
        except AnalysisError:
            F = F0
        if not any(isinstance(c, ast.ClassDef) for c in ast.walk(F)):
            F = F0
        a = F.args
        params = {x.arg for x in list(a.posonlyargs) + list(a.args) + list(a.kwonlyargs)}
        _defs, resolved = _local_defs(F)
        g: Optional[CFG] = None
        for C in [c for c in ast.walk(F) if isinstance(c, ast.ClassDef) and next((x for x in ancestors(c) if isinstance(x, FuncNode)), None) is F]:
            wrapped = [b.id for b in C.bases if isinstance(b, ast.Name) and b.id in params]
            if len(wrapped) != 1:
                continue
            P = wrapped[0]
            cattrs = {t.id: st.value for st in C.body if isinstance(st, (ast.Assign, ast.AnnAssign)) and st.value is not None for t in _targets(st) if isinstance(t, ast.Name)}
            meths = {st.name: st for st in C.body if isinstance(st, FuncNode)}

            def declared(name: str) -> Optional[str]:
                m = meths.get(name)
                if m is None or not m.args.args:
                    return None
                me = m.args.args[0].arg
                rets = [x.value for x in walk_no_nested(m) if isinstance(x, ast.Return)]
                if len(rets) != 1 or rets[0] is None:
                    return None
                v = rets[0]
                if isinstance(v, ast.Attribute) and ast.unparse(v.value) in (me, f"type({me})", f"{me}.__class__") and v.attr in cattrs:
                    v = cattrs[v.attr]
                return ast.dump(resolved(v))

            d_in, d_out = declared("input_data_type"), declared("output_data_type")
            if d_in is None or d_out is None or d_in != d_out:
                continue
            delegates = [c for m in meths.values() if m.name not in ("input_data_type", "output_data_type") for c in calls_in(m)
                         if isinstance(c.func, ast.Attribute) and c.func.attr == m.name and isinstance(c.func.value, ast.Call) and call_name(c.func.value) == "super"]
            if not delegates:
                continue
            repo.consulted.add(mod.rel)

            def type_of(e: ast.AST, which: str) -> bool:
                return isinstance(e, ast.Call) and not e.args and not e.keywords and isinstance(e.func, ast.Attribute) and e.func.attr == which and _is_name(e.func.value, P)

            def preserving(e: ast.AST) -> Optional[bool]:
                if isinstance(e, ast.Compare) and len(e.ops) == 1:
                    l, rgt = e.left, e.comparators[0]
                    if (type_of(l, "input_data_type") and type_of(rgt, "output_data_type")) or (type_of(l, "output_data_type") and type_of(rgt, "input_data_type")):
                        if isinstance(e.ops[0], (ast.Eq, ast.Is)):
                            return True
                        if isinstance(e.ops[0], (ast.NotEq, ast.IsNot)):
                            return False
                return None

            if g is None:
                g = CFG(F, may_raise=lambda part: set())
            # tests on the factory's own arguments that occur in more than one branch condition (a guard clause in front of
            # a dispatch on the same test) are correlated: decide per truth assignment of those tests
            rebound = {x.id for x in ast.walk(F) if isinstance(x, ast.Name) and isinstance(x.ctx, (ast.Store, ast.Del)) and next((y for y in ancestors(x) if isinstance(y, FuncNode)), None) is F}

            def pure(e: ast.AST) -> bool:
                return isinstance(e, ast.Call) and isinstance(e.func, ast.Name) and e.func.id in ("issubclass", "isinstance") and not e.keywords and len(e.args) == 2 and all(isinstance(x, ast.Name) and x.id not in rebound for x in e.args) and isinstance(e.args[0], ast.Name) and e.args[0].id in params

            tests = {n.id: resolved(n.part if n.kind != "stmt" else n.ast.test) for n in g.nodes if (n.kind in ("if", "while") and n.part is not None) or (n.kind == "stmt" and isinstance(n.ast, ast.Assert))}
            occurs: Dict[str, Set[int]] = {}
            for nid, t in tests.items():
                for x in ast.walk(t):
                    if pure(x):
                        occurs.setdefault(ast.dump(x), set()).add(nid)
            shared = sorted(d for d, where in occurs.items() if len(where) > 1)[:4]
            cn: List[int] = []
            seen: Dict[int, Optional[Tuple[int, str]]] = {}
            for values in itertools.product((True, False), repeat=len(shared)):
                env = dict(zip(shared, values))
                blocked: Set[Tuple[int, str]] = set()
                for nid, t0 in tests.items():
                    t = _simplified(t0, env)
                    known = t.value if isinstance(t, ast.Constant) and isinstance(t.value, bool) else None
                    if g.nodes[nid].kind == "stmt":
                        if known is False or _implies(t, preserving, True):
                            blocked.add((nid, "n"))
                        continue
                    if known is False or _implies(t, preserving, True):
                        blocked.add((nid, "T"))
                    if known is True or _implies(t, preserving, False):
                        blocked.add((nid, "F"))
                seen = g.reach([g.entry], blocked_edges=blocked)
                cn = [i for i in g.nodes_for(C) if i in seen]
                if cn:
                    break
            head = f"class {C.name}({', '.join(ast.unparse(b) for b in C.bases)})"
            R.check(not cn, r, mod.rel, qn, head,
                    f"`{head}` declares one data type for input and output and delegates to the wrapped `{P}` (`{norm(delegates[0])[:50]}`), but the class is created on a path on which `{P}.input_data_type() == {P}.output_data_type()` was never established: around a type-changing processor the generated node is reported (and validated) as producing the declared type although the wrapped processor hands back another one - an accepted pipeline fails at run time (TypeError when the results are collected / at the next typed node)",
                    C.lineno, path=g.path_to(seen, cn[0]) if cn else None)


# =====================================================================================================
# D11: a generated wrapper hands the wrapped element every parameter it lets the node resolve
# =====================================================================================================
def _wrappers_forward_resolved(repo: Repo, R: Report) -> None:
    """Inspection reports the origin of every name the wrapper class advertises (its get_processing_parameter_names /
    signature): configuration, context produced by node i, initial context, default.  That report is true of the run only
    if the value the node resolved under that name is the one the wrapped element computes with, i.e. the wrapper's logic
    selects it from the resolved arguments and spreads it into the element's call.  The condition is the interface
    condition C01 decides inside the generated class (advertised name collections vs. forwarded name collections); it is
    a necessary condition of C02 as well and is re-applied here under C02's prefix."""
    from . import c01

    R.rule_prefix = "C02-D11/"
    try:
        c01._rule_wrappers_forward_advertised(repo, R)
    finally:
        R.rule_prefix = ""


# =====================================================================================================
# D12: the run side resolves every processing parameter through the resolver inspection mirrors
# =====================================================================================================
def _run_side_uses_shared_resolver(repo: Repo, R: Report) -> None:
    """D1 compares the first-match chain of inspect_origin with the chain of the run-time resolver.  That comparison says
    something about a run only if the run side obtains *every* argument of the wrapped processor from that resolver,
    applied to the node's own configuration and the run context: a node body that takes a value from another place (the live
    context entry, a literal, another node's configuration) on some path makes the reported origin of that parameter
    false although both chains still agree.  The decision procedure is the one C01 uses for its single-source rule (value
    flow of the `**mapping` handed to `<node>.processor.process / operate_context` back to the resolver, through the
    fetch / build helpers it finds by following the calls); it is re-applied here as the interface condition
    inspection | run of C02."""
    from . import c01

    r = R.rule("C02-D12-run-side-uses-mirrored-resolver", "every invocation of a wrapped processor in a node body passes exactly {name: resolver(name) for every processing parameter name}, the resolver being the run-time sibling of inspect_origin applied to the node's own configuration and the run context (helpers that fetch / build are followed): no parameter value is taken from another place on any path - otherwise the origin inspection reports for it (configuration, default, context of node i, initial context) is not where the run-time value comes from", 4)
    nmod = repo.module(NODES)
    res = c01._Resolution(repo, R, r)
    n_proc = 0
    # node bodies by role: the functions of the module that run a wrapped processor (`<first parameter>.processor.process /
    # operate_context(..)`), whatever the protocol hook is called
    bodies = [(q, n) for q, n in nmod.defs.items() if isinstance(n, FuncNode) and any(c01._is_processor_call(c, n) for c in calls_in(n))]
    for qn, f0 in bodies:
        f = c01._nf(repo, NODES, qn)
        if not f.args.args:
            continue
        g = CFG(f, may_raise=c01._no_raise)
        sp = f.args.args[0].arg
        for c in [c for c in calls_in(f) if c01._is_processor_call(c, f)]:
            n_proc += 1
            star = [k.value for k in c.keywords if k.arg is None]
            use = c01._node_of(g, c)
            ok, why = bool(star) and use is not None, "no resolved parameters are passed"
            for s_ in star:
                if ok:
                    ok, why, x, _ctxs = res.kwargs(f, g, s_, use)
                    if ok and x != sp:
                        ok, why = False, f"the parameters are resolved for `{x}`, not for this node"
            R.check(ok, r, NODES, qn, norm(c)[:80], f"the wrapped processor computes with values that do not come from the resolver inspection mirrors ({why}): the origin reported for such a parameter (e.g. `configuration` for a configured key of a rename:/delete: node) is not where its run-time value comes from", c.lineno)
    # no node body found: the rule stays below its minimum and report.enforce_minimums reports the vanished anchor at the end


# =====================================================================================================
# D3 (declaration side): a node that declares a data input type declares an output type
# =====================================================================================================
def _none_valued(fn: ast.AST, e: Optional[ast.AST], depth: int = 0) -> Optional[ast.AST]:
    """the sub-expression that makes *e* possibly None: a literal None, a branch of a conditional expression / an operand
    of and/or that is one, a local whose (any) assigned value is one"""
    if e is None:
        return ast.Constant(value=None)
    if isinstance(e, ast.Constant):
        return e if e.value is None else None
    if isinstance(e, ast.IfExp):
        return _none_valued(fn, e.body, depth) or _none_valued(fn, e.orelse, depth)
    if isinstance(e, ast.BoolOp):
        vals = e.values[-1:] if isinstance(e.op, ast.Or) else e.values
        return next((x for x in (_none_valued(fn, v, depth) for v in vals) if x is not None), None)
    if isinstance(e, ast.NamedExpr):
        return _none_valued(fn, e.value, depth)
    if isinstance(e, ast.Name) and depth < 4:
        return next((x for x in (_none_valued(fn, v, depth + 1) for v in assigned_value(fn, e.id)) if x is not None), None)
    return None


def _is_abstract(fn: ast.AST) -> bool:
    return any((dotted_name(d) or "").split(".")[-1] in ("abstractmethod", "abstractclassmethod") for d in fn.decorator_list)


def _typed_input_typed_output(repo: Repo, R: Report) -> None:
    """The type-flow check of validation anchors on the last node whose declared output type is not None and skips a node
    while there is no such anchor: `None` is the declaration of a node the data does not pass through a gate of
    (context-only nodes: neither type declared).  A node class of the family that gates its data at run time
    (issubclass(type(data), <processor>.input_data_type())) and declares an input type therefore has to declare an output
    type on every path: a gated node that reports no output type leaves the nodes after it without a predecessor to be
    compared with (accepted), although their own gates still run."""
    from ..normal import nfunc
    from ..engine import qualname_of

    r = R.rule("C02-D3-typed-input-typed-output", "in the class family whose run path gates the data type (the classes under semantiva/pipeline that hand the data to `<node>.processor.process(..)` behind the run-time test issubclass(type(data), input type), and their subclasses - the classes the inspection builder reads input_data_type() / output_data_type() from), a class whose input_data_type can be other than None has an output_data_type that is never None (no `return None` / bare return / fall-off path, no None branch): validation treats a node without output type as one the data flow check may skip and anchors the check of later nodes on the last declared output type", 3)

    def runs_processor(c: ast.Call) -> bool:
        """`<x>.processor.process(..)` - the call through which a data node hands the (gated) data to its processor"""
        return isinstance(c.func, ast.Attribute) and c.func.attr == "process" and isinstance(c.func.value, ast.Attribute) and c.func.value.attr == "processor"

    roots: List[Tuple[object, ast.ClassDef]] = []
    for mod, _qn, c in repo.all_classes():
        if mod.rel.startswith("semantiva/pipeline/") and any(isinstance(st, FuncNode) and any(runs_processor(x) for x in calls_in(st)) for st in c.body):
            roots.append((mod, c))
    # top-most classes only (a subclass that overrides the node body is in the family of its base anyway)
    roots = [(m, c) for m, c in roots if not any(b[1] is o for b in repo.mro(m, c)[1:] for _m, o in roots)]
    if not roots:
        return  # below the rule's minimum: reported by report.enforce_minimums at the end of the run
    family: List[Tuple[object, ast.ClassDef]] = []
    for mod, c in roots:
        for m2, c2 in [(mod, c)] + repo.subclasses(c):
            if not any(c2 is x[1] for x in family):
                family.append((m2, c2))

    def normal(m, fn: ast.AST) -> ast.AST:
        qn = qualname_of(fn)
        if repo.maybe_func(m.rel, qn) is fn:
            return nfunc(repo, m.rel, qn)
        return fn

    def none_path(m, fn: ast.AST) -> Optional[Tuple[str, int]]:
        """(text, line) of a way the method yields None"""
        f = normal(m, fn)
        g = CFG(f, may_raise=lambda part: set())
        for n in g.nodes:
            if n.kind == "stmt" and isinstance(n.ast, ast.Return):
                bad = _none_valued(f, n.ast.value)
                if bad is not None and n.id in g.reach([g.entry]):
                    return norm(n.ast)[:80], getattr(n.ast, "lineno", fn.lineno)
        if g.must_pass([g.entry], [g.ret_exit], lambda n: n.kind == "stmt" and isinstance(n.ast, ast.Return)):
            return "a path leaves the method without a return value", fn.lineno
        return None

    outs: Dict[int, Tuple[object, ast.AST, List[str]]] = {}
    for m, c in family:
        o = repo.method(m, c, "output_data_type")
        i = repo.method(m, c, "input_data_type")
        if o is None or i is None or _is_abstract(o[1]) or _is_abstract(i[1]):
            continue
        f_in = normal(i[0], i[1])
        rets_in = [n for n in walk_no_nested(f_in) if isinstance(n, ast.Return)]
        if rets_in and all(n.value is None or (isinstance(n.value, ast.Constant) and n.value.value is None) for n in rets_in):
            continue  # declares no input type at all: a node the data is not gated by
        outs.setdefault(id(o[1]), (o[0], o[1], []))[2].append(c.name)
    for m, fn, users in outs.values():
        bad = none_path(m, fn)
        qn = qualname_of(fn)
        R.check(bad is None, r, m.rel, qn, bad[0] if bad else f"output type declared on every path (used by {', '.join(sorted(users)[:4])})", f"a node class that gates its data against a declared input type ({', '.join(sorted(users)[:3])}) can report no output type: validation then skips the node as an anchor of the type flow, so with no typed node in front of it every later node is accepted unchecked although its run-time gate raises TypeError on the data this node lets through", bad[1] if bad else fn.lineno)
