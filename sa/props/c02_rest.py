"""C02 rules D1 (sibling chains, one unknown-parameter classifier), D3 (type flow carried across
untyped nodes, same gate direction as run time), D5 (abstract context state updated completely,
after the node's own parameters were classified)."""
from __future__ import annotations

import ast
from typing import Dict, List, Optional, Set, Tuple

from ..cfg import CFG
from ..engine import (
    AnalysisError,
    FuncNode,
    Repo,
    ancestors,
    assigned_value,
    call_attr,
    call_name,
    calls_in,
    dotted_name,
    kwarg,
    norm,
    stmt_of,
    walk_no_nested,
)
from ..report import Report
from ._chains import PARAMRES, extract_chain

BUILDER = "semantiva/inspection/builder.py"
VALIDATOR = "semantiva/inspection/validator.py"
NODES = "semantiva/pipeline/nodes/nodes.py"
BPI = "build_pipeline_inspection"


def run(repo: Repo, R: Report) -> None:
    # ------------------------------------------------------------------ D1
    r_sib = R.rule("C02-D1-one-classification", "inspect_origin and resolve_runtime_value consult the channels in the same order (config, context [not deleted], default, then required/KeyError); node constructors and the inspection builder use the same unknown-parameter classifier on the same inputs", 6)
    io = repo.func(PARAMRES, "inspect_origin")
    rt = repo.func(PARAMRES, "resolve_runtime_value")
    ci, cr = extract_chain(io), extract_chain(rt)
    want_i = [("config", "config"), ("context", "context"), ("default", "default"), ("always", "required")]
    R.check(ci == want_i, r_sib, PARAMRES, "inspect_origin", f"first-match chain {ci}", f"inspection classifies parameter origins as {ci}, not [config, context(not deleted), default, required]", io.lineno)
    same = len(ci) == len(cr) and all(a[0] == b[0] for a, b in zip(ci, cr))
    R.check(same, r_sib, PARAMRES, "inspect_origin ~ resolve_runtime_value", f"guards agree position by position: {[a[0] for a in ci]} vs {[b[0] for b in cr]}", "inspection and run time consult the parameter channels in different orders: the reported origin is not where the run-time value comes from", io.lineno)
    # origin index reported for context = key_origin[name]
    rets = [n for n in walk_no_nested(io) if isinstance(n, ast.Return) and isinstance(n.value, ast.Tuple) and isinstance(n.value.elts[0], ast.Constant) and n.value.elts[0].value == "context"]
    ok = len(rets) == 1 and "key_origin" in ast.unparse(rets[0].value.elts[1]) and "name" in ast.unparse(rets[0].value.elts[1])
    R.check(ok, r_sib, PARAMRES, "inspect_origin", "context origin index = key_origin[name]", "the producing node reported for a context parameter is not looked up under the parameter's name", io.lineno)
    sites = []
    for rel in (NODES, BUILDER):
        mod = repo.module(rel)
        for qn, f in [(q, n) for q, n in mod.defs.items() if isinstance(n, FuncNode)]:
            for c in calls_in(f):
                if call_attr(c) == "classify_unknown_config_params":
                    t = repo.resolve_call(mod, c)
                    ok = len(t) == 1 and t[0][0].rel == PARAMRES
                    pc, cfg = kwarg(c, "processor_cls"), kwarg(c, "processor_config")
                    ok = ok and pc is not None and "processor" in ast.unparse(pc) and "__class__" in ast.unparse(pc) and cfg is not None and ast.unparse(cfg).endswith("processor_config")
                    sites.append((rel, qn, c, ok))
    for rel, qn, c, ok in sites:
        R.check(ok, r_sib, rel, qn, norm(c)[:90], "unknown parameters are classified by something other than the shared classifier on (processor class, node configuration)", c.lineno)
    if len(sites) < 3:
        raise AnalysisError(f"{len(sites)} call sites of classify_unknown_config_params found (3 confirmed by reading)")
    # node constructors raise when issues exist
    nmod = repo.module(NODES)
    for cls_name in ("_DataNode", "_ContextProcessorNode"):
        init = repo.func(NODES, f"{cls_name}.__init__")
        iv = next((n.targets[0].id for n in walk_no_nested(init) if isinstance(n, ast.Assign) and isinstance(n.targets[0], ast.Name) and isinstance(n.value, ast.Call) and call_attr(n.value) == "classify_unknown_config_params"), "__missing__")
        ifs = [n for n in walk_no_nested(init) if isinstance(n, ast.If) and dotted_name(n.test) == iv]
        ok = bool(ifs) and isinstance(ifs[0].body[-1], ast.Raise) and "InvalidNodeParameterError" in ast.unparse(ifs[0].body[-1]) and "['name']" in ast.unparse(ifs[0].body[-1]).replace('"', "'") and iv in {x.id for x in ast.walk(ifs[0].body[-1]) if isinstance(x, ast.Name)}
        R.check(ok, r_sib, NODES, f"{cls_name}.__init__", "if issues: raise InvalidNodeParameterError(invalid={names})", "unknown parameters found by the classifier are not rejected at node construction with the same names", init.lineno)

    # ------------------------------------------------------------------ D3
    _type_flow_rules(repo, R)
    # ------------------------------------------------------------------ D4
    _created_keys_written(repo, R)

    # ------------------------------------------------------------------ D5
    r_state = R.rule("C02-D5-context-state", "per node, after its own parameters were classified: every created key (incl. a probe's context_key) is recorded as produced by *this* node and un-deleted; suppressed keys of context processors become deleted; classification reads the live key_origin/deleted_keys", 7)
    bf = repo.func(BUILDER, BPI)
    from .c02 import _main_loop, state_roles

    loop = _main_loop(bf)
    KO, DK = state_roles(bf)
    idx = loop.target.elts[0].id if isinstance(loop.target, ast.Tuple) else None
    stores = [n for n in ast.walk(loop) if isinstance(n, ast.Assign) and any(isinstance(t, ast.Subscript) and dotted_name(t.value) == KO for t in n.targets)]
    sd = [c for c in calls_in(loop) if call_attr(c) in ("setdefault",) and dotted_name(c.func.value) == KO]
    R.check(not sd, r_state, BUILDER, BPI, "no key_origin.setdefault(...)", "the first writer of a key is kept as its origin: after a key is re-created the reported origin of a later reader points at the wrong node", sd[0].lineno if sd else loop.lineno)
    created_loop = [n for n in ast.walk(loop) if isinstance(n, ast.For) and n is not loop and isinstance(n.iter, ast.Name) and any(any(a is n for a in ancestors(s)) for s in stores)]
    ok = False
    CK = created_loop[0].iter.id if created_loop else "__missing__"
    if created_loop:
        body = created_loop[0]
        k = body.target.id if isinstance(body.target, ast.Name) else None
        st = [s for s in stores if any(a is body for a in ancestors(s))]
        ok = bool(st) and all(dotted_name(s.value) == idx and ast.unparse(s.targets[0]) == f"{KO}[{k}]" and not [a for a in ancestors(s) if isinstance(a, ast.If) and any(a2 is body for a2 in ancestors(a))] for s in st)
        undelete = any(isinstance(c, ast.Call) and call_attr(c) in ("remove", "discard") and dotted_name(c.func.value) == DK for c in ast.walk(body))
        ok = ok and undelete
    R.check(ok, r_state, BUILDER, BPI, "for key in created_keys: key_origin[key] = index (unconditionally) and un-delete", "created keys are not all recorded as produced by the current node / re-created keys stay marked deleted", loop.lineno)
    ck_defs = [n for n in ast.walk(loop) if isinstance(n, ast.Assign) and any(dotted_name(t) == CK for t in n.targets)]
    ok = any("get_created_keys" in ast.unparse(n.value) or any("get_created_keys" in ast.unparse(v) for x in ast.walk(n.value) if isinstance(x, ast.Name) for v in assigned_value(bf, x.id)) for n in ck_defs)
    R.check(ok, r_state, BUILDER, BPI, "created_keys = set(processor.get_created_keys())", "created keys are not taken from the processor's declaration", loop.lineno)
    probe_add = [c for c in calls_in(loop) if call_attr(c) == "add" and dotted_name(c.func.value) == CK and "context_key" in ast.unparse(c)]
    R.check(bool(probe_add) and any(isinstance(a, ast.If) and "_ProbeContextInjectorNode" in ast.unparse(a.test) for a in ancestors(probe_add[0])) if probe_add else False, r_state, BUILDER, BPI, "probe nodes: created_keys.add(node.context_key)", "a probe's context key is not recorded as created by the probe node", loop.lineno)
    sup = [c for c in calls_in(loop) if call_attr(c) == "update" and dotted_name(c.func.value) == DK]
    SUP = dotted_name(sup[0].args[0]) if sup and sup[0].args else "__missing__"
    ok = bool(sup) and any("get_suppressed_keys()" in ast.unparse(v) for v in [n.value for n in ast.walk(loop) if isinstance(n, ast.Assign) and any(dotted_name(t) == SUP for t in n.targets)])
    R.check(ok, r_state, BUILDER, BPI, "deleted_keys.update(node.get_suppressed_keys())", "keys a context processor removes are not marked deleted: a later reader is reported as satisfied by context", loop.lineno)
    ioc = [c for c in calls_in(loop) if call_attr(c) == "inspect_origin"]
    ok = len(ioc) == 1 and dotted_name(kwarg(ioc[0], "key_origin")) == KO and dotted_name(kwarg(ioc[0], "deleted_keys")) == DK and _defined_before_loop(bf, loop, KO) and _defined_before_loop(bf, loop, DK) and "processor_config" in ast.unparse(kwarg(ioc[0], "processor_config") or ast.Constant(value=""))
    R.check(ok, r_state, BUILDER, BPI, "inspect_origin(..., key_origin=key_origin, deleted_keys=deleted_keys)", "parameter origins are not classified against the live per-node context state", loop.lineno)
    # ordering: classification before this node's own stores
    g = CFG(bf, may_raise=lambda p: set())
    heads = set(g.nodes_for(loop))
    store_ids = [nid for s in stores for nid in g.nodes_for(s)] + [nid for c in sup for nid in g.nodes_for(stmt_of(c))]
    saved = {h: g.succ[h] for h in heads}
    for h in heads:
        g.succ[h] = []
    try:
        after = g.reach(store_ids)
    finally:
        for h, v in saved.items():
            g.succ[h] = v
    late = [c for c in ioc if any(nid in after for nid in g.nodes_for(stmt_of(c)))]
    # the for-header that contains the call
    for c in ioc:
        for a in ancestors(c):
            if isinstance(a, ast.For) and a is not loop and any(nid in after for nid in g.nodes_for(a)):
                late.append(c)
    R.check(not late, r_state, BUILDER, BPI, "parameters are classified before the node's created/suppressed keys are registered", "a node's own created keys are visible while its parameters are classified: a node that requires and creates the same key satisfies itself", loop.lineno)
    ok = False
    for n in ast.walk(loop):
        if isinstance(n, ast.Assign) and isinstance(n.targets[0], ast.Name) and DK in {x.id for x in ast.walk(n.value) if isinstance(x, ast.Name)} and any(isinstance(b, ast.BinOp) and isinstance(b.op, ast.BitAnd) for b in ast.walk(n.value)):
            v = n.targets[0].id
            if any(call_attr(c) == "append" and any(isinstance(a, ast.If) and v in {x.id for x in ast.walk(a.test) if isinstance(x, ast.Name)} for a in ancestors(c)) for c in calls_in(loop)):
                ok = True
    R.check(ok, r_state, BUILDER, BPI, "required ∩ deleted keys -> node error", "requiring a key that an earlier node deleted is not reported", loop.lineno)


def _defined_before_loop(fn: ast.AST, loop: ast.For, name: str) -> bool:
    return any(isinstance(n, (ast.Assign, ast.AnnAssign)) and any(dotted_name(t) == name for t in (n.targets if isinstance(n, ast.Assign) else [n.target])) and n.lineno < loop.lineno for n in walk_no_nested(fn))
