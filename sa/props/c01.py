"""C01 - pipeline execution matches the documented dual-channel node semantics.

Seven mechanisms, each a necessary condition of the statement:
D1 single source of parameter resolution (who-may-resolve, first-match chain, configuration kept as given),
D2 run-time type gate (and no data substitution before it), D3 probe pass-through / keyed write,
D4 declared-key enforcement, D5 strictly sequential loop that aborts on first failure,
D6 slicers map element-wise in order, D7 shorthand table agreement, D8 IO adapters,
D9 the payload's own context/data reach parameter resolution and the processor,
D10 accepted context writes/deletes are carried out by every forwarding layer (validation only rejects),
D11 the generated rename:/delete:/template: processors act whenever the consumed key was resolved,
D12 nothing on the resolution / gate / observer / generated-processor path reads process-lifetime state (module-level
or class-level cells written at run time), except a table looked up by the identity of the objects its entries
were computed from.
The D1 first-match chain is decided from the truth table of the guards (sa/props/_chains.py), not from
the textual order of the `if` statements.
Rules that look inside a function body analyse its normal form (sa/normal.py: new private helpers inlined)
and speak about values, not spellings: a local is followed through the definitions that reach the point of
use (`_val`/`_vals`/`_is_param`/`_rooted_in_param`), a named condition counts as the condition it names
(`_edges`/`_only_through`), call arguments are bound by parameter name (`_call_args`).
"""
from __future__ import annotations

import ast
import re
from typing import Dict, List, Optional, Set, Tuple

from ..cfg import CFG, edges_guaranteeing, reaching_defs, returns_only_through
from ..engine import (
    AnalysisError,
    FuncNode,
    Repo,
    ancestors,
    assigned_value,
    call_attr,
    call_name,
    calls_in,
    dotted_name,
    kwarg,
    norm,
    qualname_of,
    stmt_of,
    walk_no_nested,
)
from ..report import Report
from ._chains import PARAMRES, _resolved, _single_defs, exit_values, extract_chain
from ..pat import find, find1, match, name_of

from ..engine import mutation_sites, parent
from ..normal import nfunc

NODES = "semantiva/pipeline/nodes/nodes.py"
PAYP = "semantiva/pipeline/payload_processors.py"
OBS = "semantiva/context_processors/context_observer.py"
DPROC = "semantiva/data_processors/data_processors.py"
CPROC = "semantiva/context_processors/context_processors.py"
SLICE = "semantiva/data_processors/data_slicer_factory.py"
RESOLVERS = "semantiva/registry/builtin_resolvers.py"
IOF = "semantiva/data_processors/io_operation_factory.py"
ORCH = "semantiva/execution/orchestrator/orchestrator.py"


# ---------------------------------------------------------------------- value tracing
# The rules below speak about *values* ("the mapping handed to the processor", "the key parameter",
# "the payload's data"), not about the spelling of the statement that produces them: a local name is
# followed through the definitions that reach the point of use (CFG reaching definitions, tuple
# unpacking included), a named condition is read as the condition it names.
KEEP = ("_get_processor_parameters", "_fetch_parameter_value", "_process_single_item_with_context", "_process")


def _nf(repo: Repo, rel: str, qn: str) -> ast.AST:
    """Normal form of a function (new private helpers inlined, if/else of one statement merged);
    the helpers the rules know by name stay calls."""
    return nfunc(repo, rel, qn, keep=KEEP)


def _node_of(g: CFG, n: ast.AST) -> Optional[int]:
    """CFG node at which *n* (statement or expression) is evaluated."""
    cur: Optional[ast.AST] = n
    while cur is not None and cur is not g.func:
        ids = g.nodes_for(cur)
        if ids:
            return ids[0]
        cur = parent(cur)
    return None


def _fn_params(fn: ast.AST) -> Set[str]:
    a = fn.args
    out = {x.arg for x in list(a.posonlyargs) + list(a.args) + list(a.kwonlyargs)}
    if a.vararg:
        out.add(a.vararg.arg)
    if a.kwarg:
        out.add(a.kwarg.arg)
    return out


def _defines(n, name: str) -> bool:
    a = n.ast
    if a is None:
        return False
    if n.kind == "stmt" and isinstance(a, (ast.Assign, ast.AnnAssign, ast.AugAssign)):
        tgts = a.targets if isinstance(a, ast.Assign) else [a.target]
        return any(isinstance(x, ast.Name) and x.id == name and isinstance(x.ctx, ast.Store) for t in tgts for x in ast.walk(t))
    if n.kind == "for" and isinstance(a, ast.For):
        return any(isinstance(x, ast.Name) and x.id == name for x in ast.walk(a.target))
    if n.kind == "with" and isinstance(a, ast.With):
        return any(it.optional_vars is not None and any(isinstance(x, ast.Name) and x.id == name for x in ast.walk(it.optional_vars)) for it in a.items)
    if n.kind == "except" and isinstance(a, ast.ExceptHandler):
        return a.name == name
    return False


def _bound_values(g: CFG, name: str, use: int) -> Optional[List[Tuple[ast.AST, int]]]:
    """(expression, CFG node where it was evaluated) for every binding of local *name* that can
    reach node *use*; None when one of them is not a plain assignment (loop target, `with`/`except`
    name, augmented assignment, unpacking of a non-tuple).  A parameter whose entry value can
    still reach *use* contributes itself at the entry node.  [] = never bound here (global/builtin)."""
    out: List[Tuple[ast.AST, int]] = []
    defs = reaching_defs(g, name, use)
    for d in defs:
        v = _assigned_component(d.ast, name) if d.kind == "stmt" else None
        if v is None:
            return None
        out.append((v, d.id))
    if name in _fn_params(g.func) and use != g.entry:
        if not defs:
            return []
        all_defs = {n.id for n in g.nodes if _defines(n, name)}
        if use in g.reach([g.entry], blocked=all_defs - {use}):
            out.append((ast.Name(id=name, ctx=ast.Load()), g.entry))
    return out


def _val(g: CFG, e: ast.AST, use: int) -> Tuple[ast.AST, int]:
    """Follow a local name to the expression it stands for (while exactly one plain binding reaches)."""
    for _ in range(12):
        if isinstance(e, ast.NamedExpr):
            e = e.value
            continue
        if not isinstance(e, ast.Name):
            break
        b = _bound_values(g, e.id, use)
        if not b or len(b) != 1 or (isinstance(b[0][0], ast.Name) and b[0][0].id == e.id and b[0][1] == g.entry):
            break
        e, use = b[0]
    return e, use


def _vals(g: CFG, e: ast.AST, use: int, depth: int = 0) -> Optional[List[Tuple[ast.AST, int]]]:
    """Every expression *e* can stand for at *use* (all reaching bindings, both arms of a
    conditional expression); None when a binding cannot be followed."""
    if depth > 12:
        return None
    if isinstance(e, ast.NamedExpr):
        return _vals(g, e.value, use, depth + 1)
    if isinstance(e, ast.IfExp):
        a, b = _vals(g, e.body, use, depth + 1), _vals(g, e.orelse, use, depth + 1)
        return None if a is None or b is None else a + b
    if isinstance(e, ast.Name):
        bs = _bound_values(g, e.id, use)
        if bs is None:
            return None
        if not bs:
            return [(e, use)]
        out: List[Tuple[ast.AST, int]] = []
        for v, d in bs:
            if isinstance(v, ast.Name) and v.id == e.id and d == g.entry:
                out.append((v, d))
                continue
            r = _vals(g, v, d, depth + 1)
            if r is None:
                return None
            out += r
        return out
    return [(e, use)]


def _is_param(g: CFG, e: Optional[ast.AST], use: int, p: str) -> bool:
    """*e* necessarily denotes the value parameter *p* had on entry."""
    if e is None:
        return False
    vs = _vals(g, e, use)
    return bool(vs) and all(isinstance(v, ast.Name) and v.id == p and (u == g.entry or not reaching_defs(g, p, u)) for v, u in vs)


def _rooted_in_param(g: CFG, e: ast.AST, use: int, p: str, depth: int = 0) -> bool:
    """*e* is an attribute/item path into the object parameter *p* was bound to on entry
    (`p`, `p.maps[0]`, a local alias of either)."""
    if depth > 10:
        return False
    while isinstance(e, (ast.Attribute, ast.Subscript)):
        e = e.value
    if not isinstance(e, ast.Name):
        return False
    bs = _bound_values(g, e.id, use)
    if bs is None:
        return False
    if not bs:
        return e.id == p
    return all((isinstance(v, ast.Name) and v.id == p and d == g.entry) if (isinstance(v, ast.Name) and v.id == e.id and d == g.entry) else _rooted_in_param(g, v, d, p, depth + 1) for v, d in bs)


def _call_args(c: ast.Call, names: Tuple[str, ...]) -> Optional[Dict[str, ast.AST]]:
    """Arguments of *c* by parameter name (positional ones in the order *names*); None when the call
    uses * / ** spreading or an unknown keyword."""
    if any(isinstance(a, ast.Starred) for a in c.args) or len(c.args) > len(names):
        return None
    out: Dict[str, ast.AST] = dict(zip(names, c.args))
    for k in c.keywords:
        if k.arg is None or k.arg not in names or k.arg in out:
            return None
        out[k.arg] = k.value
    return out


def _same_bindings(g: CFG, v: ast.AST, at: int, use: int) -> bool:
    """The locals read by *v* have the same reaching bindings at *at* and at *use* (a condition
    named at *at* still says the same thing when tested at *use*)."""
    for nm in {x.id for x in ast.walk(v) if isinstance(x, ast.Name)}:
        if {d.id for d in reaching_defs(g, nm, at)} - {at} != {d.id for d in reaching_defs(g, nm, use)} - {at}:
            return False
    return True


def _edges(g: CFG, test: ast.AST, use: int, atom, depth: int = 0) -> Set[str]:
    """Like cfg.edges_guaranteeing, with `atom(expr, node)` and named conditions expanded."""
    pol = atom(test, use)
    if pol is True:
        return {"T"}
    if pol is False:
        return {"F"}
    if isinstance(test, ast.NamedExpr):
        return _edges(g, test.value, use, atom, depth)
    if isinstance(test, ast.Name) and depth < 6:
        b = _bound_values(g, test.id, use)
        if b and len(b) == 1 and b[0][1] != g.entry and _same_bindings(g, b[0][0], b[0][1], use):
            return _edges(g, b[0][0], b[0][1], atom, depth + 1)
        return set()
    if isinstance(test, ast.UnaryOp) and isinstance(test.op, ast.Not):
        return {"F" if x == "T" else "T" for x in _edges(g, test.operand, use, atom, depth)}
    if isinstance(test, ast.BoolOp):
        out: Set[str] = set()
        subs = [_edges(g, v, use, atom, depth) for v in test.values]
        for sub in subs:
            if isinstance(test.op, ast.And) and "T" in sub:
                out.add("T")
            if isinstance(test.op, ast.Or) and "F" in sub:
                out.add("F")
        if isinstance(test.op, ast.Or) and subs and all("T" in sub for sub in subs):
            out.add("T")
        if isinstance(test.op, ast.And) and subs and all("F" in sub for sub in subs):
            out.add("F")
        return out
    return set()


def _guard_edges(g: CFG, atom) -> Dict[int, Set[str]]:
    out: Dict[int, Set[str]] = {}
    for n in g.nodes:
        if n.kind in ("if", "while") and n.part is not None:
            es = _edges(g, n.part, n.id, atom)
            if es:
                out[n.id] = es
    return out


def _only_through(g: CFG, atom, targets: List[int]) -> Tuple[bool, List[str], int]:
    """*targets* are reachable from the entry only over a branch edge on which *atom* holds."""
    ge = _guard_edges(g, atom)
    seen = g.reach([g.entry], blocked_edges={(n, lab) for n, es in ge.items() for lab in es})
    for t in targets:
        if t in seen:
            return False, g.path_to(seen, t), len(ge)
    return True, [], len(ge)


# ---------------------------------------------------------------------- D1 helpers
def _fetch_call_context(c: ast.AST, name_var: str) -> Optional[ast.AST]:
    """The context argument of `self._fetch_parameter_value(<name_var>, ctx)`, else None."""
    if not (isinstance(c, ast.Call) and dotted_name(c.func) == "self._fetch_parameter_value"):
        return None
    a = _call_args(c, ("name", "context"))
    if a is None or set(a) != {"name", "context"} or not (isinstance(a["name"], ast.Name) and a["name"].id == name_var):
        return None
    return a["context"]


def _all_parameter_names(g: CFG, e: ast.AST, use: int) -> bool:
    """*e* iterates over every processing parameter name of the wrapped processor, in declaration order."""
    v, u = _val(g, e, use)
    if isinstance(v, ast.Call) and isinstance(v.func, ast.Name) and v.func.id in ("list", "tuple") and len(v.args) == 1 and not v.keywords:
        v, u = _val(g, v.args[0], u)
    return isinstance(v, ast.Call) and ast.unparse(v) == "self.processor.get_processing_parameter_names()"


def _target_names(g: CFG, nid: int) -> Set[str]:
    a = g.nodes[nid].ast
    tg = a.targets if isinstance(a, ast.Assign) else [a.target] if isinstance(a, ast.AnnAssign) else []
    return {t.id for t in tg if isinstance(t, ast.Name)}


def _resolved_kwargs(fn: ast.AST, g: CFG, e: ast.AST, use: int) -> Tuple[bool, str]:
    """Is the mapping *e* (as seen at node *use*) exactly
    {n: self._fetch_parameter_value(n, <ctx>) for every processing parameter name n}?
    Accepted constructions: the result of self._get_processor_parameters(<ctx>), the dict
    comprehension, or an empty dict filled by one unconditional loop over the names that every path
    from the dict's creation to *use* goes through - and nothing else mutates the mapping."""
    vs = _vals(g, e, use)
    if not vs:
        return False, "it is built in a way the analysis cannot follow"
    holders = {e.id} if isinstance(e, ast.Name) else set()
    for v, u in vs:
        holders |= _target_names(g, u)
    muts = mutation_sites(fn, holders) if holders else []
    for v, u in vs:
        if isinstance(v, ast.Call) and dotted_name(v.func) == "self._get_processor_parameters" and _call_args(v, ("context",)) is not None:
            allowed: List[ast.AST] = []
        elif isinstance(v, ast.DictComp):
            gen = v.generators[0]
            if not (len(v.generators) == 1 and not gen.ifs and not gen.is_async and isinstance(gen.target, ast.Name) and isinstance(v.key, ast.Name) and v.key.id == gen.target.id):
                return False, "the comprehension filters / re-keys the parameter names"
            if _fetch_call_context(v.value, gen.target.id) is None:
                return False, f"the value stored under a parameter name is `{ast.unparse(v.value)[:50]}`, not self._fetch_parameter_value(name, context)"
            if not _all_parameter_names(g, gen.iter, u):
                return False, f"it is built from `{ast.unparse(gen.iter)[:50]}`, not from every processing parameter name"
            allowed = []
        elif (isinstance(v, ast.Dict) and not v.keys) or (isinstance(v, ast.Call) and dotted_name(v.func) == "dict" and not v.args and not v.keywords):
            accs = _target_names(g, u)
            stores = [s for s, r in muts if r in accs]
            if len(accs) != 1 or len(stores) != 1:
                return False, "the empty mapping is not filled by exactly one store per parameter name"
            st = stores[0]
            loop = parent(st)
            acc = next(iter(accs))
            okst = isinstance(st, ast.Assign) and len(st.targets) == 1 and isinstance(st.targets[0], ast.Subscript) and isinstance(st.targets[0].value, ast.Name) and st.targets[0].value.id == acc and isinstance(st.targets[0].slice, ast.Name)
            if not (okst and isinstance(loop, ast.For) and st in loop.body and not loop.orelse and isinstance(loop.target, ast.Name) and loop.target.id == st.targets[0].slice.id):
                return False, "the store of a resolved value is not the body of a plain loop over the parameter names"
            if any(isinstance(x, (ast.Continue, ast.Break, ast.Return, ast.Raise, ast.If, ast.Try)) for x in walk_no_nested(loop)) :
                return False, "the loop over the parameter names can skip a name (if / continue / break / try inside it)"
            if _fetch_call_context(st.value, loop.target.id) is None:
                return False, f"the value stored under a parameter name is `{ast.unparse(st.value)[:50]}`, not self._fetch_parameter_value(name, context)"
            heads = set(g.nodes_for(loop))
            if not heads or not _all_parameter_names(g, loop.iter, min(heads)):
                return False, f"the loop runs over `{ast.unparse(loop.iter)[:50]}`, not over every processing parameter name"
            if g.must_pass([u], [use], lambda n: n.id in heads):
                return False, "the filling loop is skipped on some path"
            allowed = [st]
        else:
            return False, f"it is `{ast.unparse(v)[:60]}`, which does not come from the resolver"
        extra = [s for s, _r in muts if not any(s is a for a in allowed)]
        if extra:
            return False, f"the resolved parameters are modified afterwards (`{norm(stmt_of(extra[0]))[:50]}`)"
    return True, ""


def _config_as_given(g: CFG, e: ast.AST, use: int, p: str, depth: int = 0) -> bool:
    """*e* is the constructor's configuration argument itself, a shallow copy of it, or an empty
    mapping chosen when the argument is missing."""
    if depth > 10:
        return False
    if isinstance(e, ast.IfExp):
        return {x.id for x in ast.walk(e.test) if isinstance(x, ast.Name)} <= {p, "isinstance", "dict"} and _config_as_given(g, e.body, use, p, depth + 1) and _config_as_given(g, e.orelse, use, p, depth + 1)
    if isinstance(e, ast.BoolOp) and isinstance(e.op, ast.Or):
        return all(_config_as_given(g, v, use, p, depth + 1) for v in e.values)
    if isinstance(e, ast.Dict):
        return not e.keys
    if isinstance(e, ast.Call):
        if isinstance(e.func, ast.Name) and e.func.id == "dict" and not e.keywords:
            return not e.args or (len(e.args) == 1 and _config_as_given(g, e.args[0], use, p, depth + 1))
        if isinstance(e.func, ast.Attribute) and e.func.attr == "copy" and not e.args and not e.keywords:
            return _config_as_given(g, e.func.value, use, p, depth + 1)
        return False
    if isinstance(e, ast.Name):
        bs = _bound_values(g, e.id, use)
        if bs is None:
            return False
        if not bs:
            return e.id == p
        return all((v.id == p) if (isinstance(v, ast.Name) and v.id == e.id and d == g.entry) else _config_as_given(g, v, d, p, depth + 1) for v, d in bs)
    return False


def run(repo: Repo, R: Report) -> None:
    R.assume(
        "processors do what their declared metadata says (the statement's own premise)",
        "ContextType.set_value/get_value/keys are a plain mapping",
    )
    R.undecided("equality of a run's result with a reference interpreter for all programs and inputs (the statement as a whole); behaviour of user processors and IO back ends")
    nmod = repo.module(NODES)

    # ------------------------------------------------------------------ D1
    r_res = R.rule("C01-D1-single-source-of-resolution", "every node resolves run-time parameters through resolve_runtime_value with its own, unmodified node configuration and the run context; the chain there is config, then context, then default, else KeyError", 12)
    fetchers = [(qn, f) for qn, f in nmod.defs.items() if isinstance(f, FuncNode) and f.name == "_fetch_parameter_value"]
    if len(fetchers) < 2:
        raise AnalysisError(f"{len(fetchers)} _fetch_parameter_value definitions found (2 confirmed by reading)")
    for qn, f0 in fetchers:
        f = _nf(repo, NODES, qn)
        g = CFG(f, may_raise=_no_raise)
        rets = [n for n in g.nodes if n.kind == "stmt" and isinstance(n.ast, ast.Return)]
        ok = bool(rets) and len(f.args.args) >= 3 and not g.must_pass([g.entry], [g.ret_exit], lambda n: n.kind == "stmt" and isinstance(n.ast, ast.Return))
        for rn in rets:
            c, u = _val(g, rn.ast.value, rn.id) if rn.ast.value is not None else (None, rn.id)
            ok = ok and isinstance(c, ast.Call) and call_attr(c) == "resolve_runtime_value"
            if ok:
                a = {k.arg: k.value for k in c.keywords if k.arg is not None} if not c.args and all(k.arg for k in c.keywords) else {}
                cls_txt = ast.unparse(_val(g, a["processor_cls"], u)[0]) if "processor_cls" in a else ""
                ok = (_is_param(g, a.get("name"), u, f.args.args[1].arg) and _is_param(g, a.get("context"), u, f.args.args[2].arg)
                      and "processor_config" in a and dotted_name(_val(g, a["processor_config"], u)[0]) == "self.processor_config"
                      and cls_txt in ("self.processor.__class__", "type(self.processor)"))
                tgt = repo.resolve_call(nmod, c)
                ok = ok and len(tgt) == 1 and tgt[0][0].rel == PARAMRES
        R.check(ok, r_res, NODES, qn, "return resolve_runtime_value(name, self.processor.__class__, self.processor_config, context)", "a node resolves parameters by something other than the single-source resolver on its own configuration and the run context", f0.lineno)
    # parameter dict = fetch for every processing parameter name
    gpp0 = repo.func(NODES, "_DataNode._get_processor_parameters")
    gpp = _nf(repo, NODES, "_DataNode._get_processor_parameters")
    g = CFG(gpp, may_raise=_no_raise)
    rets = [n for n in g.nodes if n.kind == "stmt" and isinstance(n.ast, ast.Return)]
    ok, why = bool(rets) and not g.must_pass([g.entry], [g.ret_exit], lambda n: n.kind == "stmt" and isinstance(n.ast, ast.Return)), "a path returns no mapping"
    for rn in rets:
        if ok:
            ok, why = _resolved_kwargs(gpp, g, rn.ast.value, rn.id) if rn.ast.value is not None else (False, "a path returns no mapping")
            if ok and any(isinstance(v, ast.Call) and dotted_name(v.func) == "self._get_processor_parameters" for v, _u in _vals(g, rn.ast.value, rn.id) or []):
                ok, why = False, "it calls itself"
    R.check(ok, r_res, NODES, "_DataNode._get_processor_parameters", "parameters[name] = _fetch_parameter_value(name, context) for every processing parameter", f"some processing parameters bypass (or are skipped by) the resolver: {why}", gpp0.lineno)
    # overrides that run the processor obtain kwargs from the resolver
    for qn, f0 in [(q, n) for q, n in nmod.defs.items() if isinstance(n, FuncNode) and n.name == "_process_single_item_with_context"]:
        f = _nf(repo, NODES, qn)
        g = CFG(f, may_raise=_no_raise)
        proc_calls = [c for c in calls_in(f) if isinstance(c.func, ast.Attribute) and c.func.attr in ("process", "operate_context") and dotted_name(c.func.value) == "self.processor"]
        for c in proc_calls:
            star = [k.value for k in c.keywords if k.arg is None]
            use = _node_of(g, c)
            ok, why = bool(star) and use is not None, "no resolved parameters are passed"
            for s_ in star:
                if ok:
                    ok, why = _resolved_kwargs(f, g, s_, use)
            explicit = sorted(k.arg for k in c.keywords if k.arg is not None and k.arg not in ("context", "context_observer", "data"))
            if ok and explicit:
                ok, why = False, f"parameter(s) {explicit} are passed explicitly next to the resolved ones"
            R.check(ok, r_res, NODES, qn, norm(c)[:80], f"the processor is invoked with keyword arguments that do not come from the resolver: {why}", c.lineno)
    # configuration kept as given
    for cls_name in ("_DataNode", "_ContextProcessorNode"):
        init0 = repo.func(NODES, f"{cls_name}.__init__")
        init = _nf(repo, NODES, f"{cls_name}.__init__")
        g = CFG(init, may_raise=_no_raise)
        cfg_p = next((a.arg for a in init.args.args[1:] + init.args.kwonlyargs if a.arg == "processor_config"), None) or (init.args.args[2].arg if len(init.args.args) > 2 else "processor_config")
        stores = [n for n in g.nodes if n.kind == "stmt" and isinstance(n.ast, (ast.Assign, ast.AnnAssign, ast.AugAssign)) and any(dotted_name(t) == "self.processor_config" for t in (n.ast.targets if isinstance(n.ast, ast.Assign) else [n.ast.target]))]
        ok = bool(stores) and all(isinstance(n.ast, (ast.Assign, ast.AnnAssign)) and n.ast.value is not None and _config_as_given(g, n.ast.value, n.id, cfg_p) for n in stores)
        later = [n for n in ast.walk(init) if (isinstance(n, ast.Call) and isinstance(n.func, ast.Attribute) and dotted_name(n.func.value) == "self.processor_config" and n.func.attr in ("pop", "update", "clear", "setdefault", "popitem")) or (isinstance(n, (ast.Delete,)) and "self.processor_config" in ast.unparse(n))]
        later += [s_ for s_, _r in mutation_sites(init, {cfg_p})]
        R.check(ok and not later, r_res, NODES, f"{cls_name}.__init__", "self.processor_config = processor_config (or {})", "the node configuration is transformed before use (entries dropped / rewritten): a configured value can lose its precedence over the context", init0.lineno)
    rrv = repo.func(PARAMRES, "resolve_runtime_value")
    chain = extract_chain(rrv)
    want = [("config", "config"), ("context", "context"), ("default", "default"), ("always", "raise:KeyError")]
    R.check(chain == want, r_res, PARAMRES, "resolve_runtime_value", f"first-match chain {chain}", f"run-time precedence is not [config, context, default, KeyError]; got {chain}", rrv.lineno)
    # the values returned are the ones looked up under `name`
    # (role-based: every returned value is classified by the channel it reads, locals substituted)
    exits = exit_values(rrv)
    forms = {
        "config": ("processor_config[name]",),
        "context": ("context.get_value(name)", "context[name]"),
        "default": ("_default_for(processor_cls, name)", "_default_for(processor_cls=processor_cls, name=name)"),
    }
    bad_exit = next((f"`{ast.unparse(v)[:60]}` ({lab})" for lab, v in exits if ast.unparse(v) not in forms.get(lab, ())), None)
    ok = bad_exit is None and {lab for lab, _v in exits} == set(forms)
    R.check(ok, r_res, PARAMRES, "resolve_runtime_value", "returns config[name] / context.get_value(name) / _default_for(cls, name)", f"a channel returns something other than the value stored under the parameter's own name: {bad_exit or sorted({lab for lab, _v in exits})}", rrv.lineno)

    # ------------------------------------------------------------------ D2
    r_gate = R.rule("C01-D2-type-gate", "a data node runs only after issubclass(type(data), processor.input_data_type()) held for the data it is given (else TypeError), and the payload handed to the node is the caller's (only None is normalised)", 4)
    proc0 = repo.func(NODES, "_DataNode._process")
    proc = _nf(repo, NODES, "_DataNode._process")
    g = CFG(proc, may_raise=_no_raise)
    payload_p = proc.args.args[1].arg if len(proc.args.args) > 1 else "payload"
    calls = [n for n in g.nodes if n.ast is not None and n.kind == "stmt" and any(call_attr(c) == "_process_single_item_with_context" for c in calls_in(n.ast))]
    if not calls:
        raise AnalysisError("_DataNode._process: call of _process_single_item_with_context not found")

    def gate_atom(e: ast.AST, use: int) -> Optional[bool]:
        """issubclass(type(<payload.data>), <processor input type>) / isinstance(<payload.data>, <processor input type>)"""
        if isinstance(e, ast.Call) and isinstance(e.func, ast.Name) and e.func.id in ("issubclass", "isinstance") and len(e.args) == 2 and not e.keywords:
            a, b = e.args
            subj: Optional[ast.AST] = a
            if e.func.id == "issubclass":
                ta, tu = _val(g, a, use)
                subj = ta.args[0] if isinstance(ta, ast.Call) and isinstance(ta.func, ast.Name) and ta.func.id == "type" and len(ta.args) == 1 else None
                use_s = tu
            else:
                use_s = use
            tv, _tu = _val(g, b, use)
            type_ok = isinstance(tv, ast.Call) and not tv.args and not tv.keywords and isinstance(tv.func, ast.Attribute) and tv.func.attr == "input_data_type" and ast.unparse(tv.func.value) in ("self.processor", "self", "type(self.processor)", "self.processor.__class__")
            if subj is not None and type_ok and _is_run_input(g, subj, use_s, payload_p, "data"):
                return True
        return None

    holds, path, guards = _only_through(g, gate_atom, [n.id for n in calls])
    R.check(holds and guards > 0, r_gate, NODES, "_DataNode._process", "issubclass(type(data), input_type) dominates the node body", "a data node can run on data that is not an instance of its processor's declared input type", proc0.lineno, path)
    # on the other edge of the gate every path ends in `raise TypeError`
    ge = _guard_edges(g, gate_atom)
    ok = bool(ge)
    for nid, es in ge.items():
        starts = [t for t, lab in g.succ[nid] if lab in ({"T", "F"} - es)]
        seen = g.reach(starts)
        raises = [g.nodes[x].ast for x in seen if g.nodes[x].kind == "stmt" and isinstance(g.nodes[x].ast, ast.Raise)]
        ok = ok and bool(starts) and g.ret_exit not in seen and bool(raises) and all(rz.exc is not None and dotted_name(rz.exc.func if isinstance(rz.exc, ast.Call) else rz.exc) == "TypeError" for rz in raises)
    R.check(ok, r_gate, NODES, "_DataNode._process", "rejected data raises TypeError", "incompatible data does not raise TypeError at this node", proc0.lineno)
    ok = True
    c0 = None
    for cn in calls:
        for c0 in [c for c in calls_in(cn.ast) if call_attr(c) == "_process_single_item_with_context"]:
            av, au = _val(g, c0.args[0], cn.id) if c0.args else (kwarg(c0, "payload"), cn.id)
            if isinstance(av, ast.Name):
                ok = ok and _is_param(g, av, au, payload_p)
            elif isinstance(av, ast.Call) and call_attr(av) == "Payload":
                pa = _call_args(av, ("data", "context")) or {}
                ok = ok and "data" in pa and _is_run_input(g, pa["data"], au, payload_p, "data")
            else:
                ok = False
    R.check(ok, r_gate, NODES, "_DataNode._process", norm(c0)[:80] if c0 is not None else "_process_single_item_with_context(...)", "the data that was type-checked is not the data handed to the node", proc0.lineno)
    pp0 = repo.func(PAYP, "_PayloadProcessor.process")
    pp = _nf(repo, PAYP, "_PayloadProcessor.process")
    g = CFG(pp, may_raise=_no_raise)
    pp_payload = pp.args.args[1].arg if len(pp.args.args) > 1 else "payload"

    def none_atom(e: ast.AST, use: int) -> Optional[bool]:
        """`payload is None` / `payload.data is None` (the data may be named)"""
        if isinstance(e, ast.Compare) and len(e.ops) == 1 and isinstance(e.ops[0], (ast.Is, ast.IsNot)) and isinstance(e.comparators[0], ast.Constant) and e.comparators[0].value is None:
            if dotted_name(_val(g, e.left, use)[0]) in (pp_payload, f"{pp_payload}.data"):
                return isinstance(e.ops[0], ast.Is)
        return None

    bad_stmt: List[ast.AST] = []

    def substitutions(v: ast.AST, use: int, guarded: bool, st: ast.AST) -> None:
        """Payload(<something else than the caller's data>, ...) assigned to the payload outside a `... is None` arm"""
        if isinstance(v, ast.IfExp):
            es = _edges(g, v.test, use, none_atom)
            substitutions(v.body, use, guarded or "T" in es, st)
            substitutions(v.orelse, use, guarded or "F" in es, st)
        elif isinstance(v, ast.Call) and call_attr(v) == "Payload":
            pa = _call_args(v, ("data", "context")) or {}
            d0 = pa.get("data")
            if d0 is not None and dotted_name(_val(g, d0, use)[0]) == f"{pp_payload}.data":
                return
            if not guarded and not _only_through(g, none_atom, [use])[0]:
                bad_stmt.append(st)

    for n in g.nodes:
        if n.kind == "stmt" and isinstance(n.ast, (ast.Assign, ast.AnnAssign)) and n.ast.value is not None and _defines(n, pp_payload):
            v = _assigned_component(n.ast, pp_payload)
            if v is not None:
                substitutions(v, n.id, False, n.ast)
    R.check(not bad_stmt, r_gate, PAYP, "_PayloadProcessor.process", "data is replaced only when it is None", f"`{norm(bad_stmt[0])[:70]}` substitutes the caller's data before the node sees it: a node that must reject the data silently runs (and later nodes too)" if bad_stmt else "", pp0.lineno)

    # ------------------------------------------------------------------ D3
    r_probe = R.rule("C01-D3-probe-and-operation-dataflow", "probe nodes return the input data unchanged and write the probe result under self.context_key on every path; operation nodes return the processor result as data", 6)
    def returned_payloads(f: ast.AST, g: CFG) -> Optional[List[Tuple[Dict[str, ast.AST], int]]]:
        """(arguments by name, node) of the Payload(...) built for every value the function returns; None when
        a path returns something else / nothing."""
        out: List[Tuple[Dict[str, ast.AST], int]] = []
        rets = [n for n in g.nodes if n.kind == "stmt" and isinstance(n.ast, ast.Return)]
        if not rets or g.must_pass([g.entry], [g.ret_exit], lambda n: n.kind == "stmt" and isinstance(n.ast, ast.Return)):
            return None
        for rn in rets:
            vs = _vals(g, rn.ast.value, rn.id) if rn.ast.value is not None else None
            if not vs:
                return None
            for v, u in vs:
                pa = _call_args(v, ("data", "context")) if isinstance(v, ast.Call) and call_attr(v) == "Payload" else None
                if not pa or set(pa) != {"data", "context"}:
                    return None
                out.append((pa, u))
        return out

    def is_process_result(g: CFG, e: ast.AST, use: int, depth: int = 0) -> bool:
        """*e* is computed from the value self.processor.process(...) returned (directly, through locals, or
        as the element of a loop over it)."""
        if depth > 8:
            return False
        for x in ast.walk(e):
            if isinstance(x, ast.Call) and dotted_name(x.func) == "self.processor.process":
                return True
        for nm in sorted({x.id for x in ast.walk(e) if isinstance(x, ast.Name)}):
            bs = _bound_values(g, nm, use)
            if bs is None:
                for d in reaching_defs(g, nm, use):
                    if d.kind == "for" and isinstance(d.ast, ast.For) and is_process_result(g, d.ast.iter, d.id, depth + 1):
                        return True
                continue
            if bs and all(not (isinstance(v, ast.Name) and v.id == nm and d == g.entry) and is_process_result(g, v, d, depth + 1) for v, d in bs):
                return True
        return False

    for qn in ("_ProbeContextInjectorNode._process_single_item_with_context", "_DataOperationContextInjectorProbeNode._process_single_item_with_context", "_ProbeResultCollectorNode._process_single_item_with_context"):
        f0 = repo.func(NODES, qn)
        f = _nf(repo, NODES, qn)
        gg = CFG(f, may_raise=_no_raise)
        pl = f.args.args[1].arg if len(f.args.args) > 1 else "payload"
        rp = returned_payloads(f, gg)
        ok = bool(rp) and all(_is_run_input(gg, pa["data"], u, pl, "data") for pa, u in rp)
        R.check(ok, r_probe, NODES, qn, "return Payload(<payload.data>, context)", "a probe node changes the data it passes on (e.g. returns the probe result)", f0.lineno)
        if "Collector" in qn:
            continue

        def is_keyed_write(n, gg=gg) -> bool:
            if n.ast is None or n.kind != "stmt":
                return False
            for c in calls_in(n.ast):
                if call_attr(c) != "update_context":
                    continue
                a = _call_args(c, ("context", "key", "value", "index"))
                if a and "key" in a and "value" in a and dotted_name(_val(gg, a["key"], n.id)[0]) == "self.context_key" and is_process_result(gg, a["value"], n.id):
                    return True
            return False

        # collection branch writes inside a loop: count the loop header as the write
        def covers(n, gg=gg) -> bool:
            if is_keyed_write(n):
                return True
            if n.kind == "for" and any(is_keyed_write(m) for m in gg.nodes if m.ast is not None and any(a is n.ast for a in ancestors(m.ast))):
                return True
            return False

        bad = gg.must_pass([gg.entry], [gg.ret_exit], covers)
        R.check(not bad and any(is_keyed_write(n) for n in gg.nodes), r_probe, NODES, qn, "update_context(context, self.context_key, <probe result>) on every path", "the probe result is not stored under the node's context key on some path (literal key, skipped when falsy, ...)", f0.lineno, bad[0][1] if bad else None)
    f0 = repo.func(NODES, "_DataNode._process_single_item_with_context")
    f = _nf(repo, NODES, "_DataNode._process_single_item_with_context")
    gg = CFG(f, may_raise=_no_raise)
    rp = returned_payloads(f, gg)
    ok = bool(rp)
    for pa, u in rp or []:
        vs = _vals(gg, pa["data"], u)
        ok = ok and bool(vs) and all(isinstance(v, ast.Call) and dotted_name(v.func) == "self.processor.process" for v, _u in vs)
    R.check(ok, r_probe, NODES, "_DataNode._process_single_item_with_context", "return Payload(self.processor.process(data, **parameters), context)", "an operation node does not replace the data with the processor's result", f0.lineno)

    # ------------------------------------------------------------------ D4
    r_keys = R.rule("C01-D4-declared-key-enforcement", "context writes/deletes are accepted only for declared keys: the validating observer and DataOperation._notify_context_update test membership before writing; context-processor nodes hand the processor a validating observer built from its own created/suppressed keys; the observer is reset after the call", 7)
    for meth, allowed in (("update", "self._allowed_context_keys"), ("delete", "self._allowed_suppressed_keys")):
        f0 = repo.func(OBS, f"_ValidatingContextObserver.{meth}")
        f = _nf(repo, OBS, f"_ValidatingContextObserver.{meth}")
        gg = CFG(f, may_raise=_no_raise)
        supers = [n.id for n in gg.nodes if n.ast is not None and n.kind == "stmt" and any(isinstance(c.func, ast.Attribute) and c.func.attr == meth and isinstance(c.func.value, ast.Call) and call_attr(c.func.value) == "super" for c in calls_in(n.ast))]

        def member(e: ast.AST, use: int, allowed=allowed, f=f, gg=gg) -> Optional[bool]:
            if isinstance(e, ast.Compare) and len(e.ops) == 1 and isinstance(e.ops[0], (ast.In, ast.NotIn)) and _is_param(gg, e.left, use, f.args.args[1].arg) and dotted_name(_val(gg, e.comparators[0], use)[0]) == allowed:
                return isinstance(e.ops[0], ast.In)
            return None

        holds, path, guards = _only_through(gg, member, supers)
        R.check(holds and guards > 0 and bool(supers), r_keys, OBS, f"_ValidatingContextObserver.{meth}", f"key in {allowed} dominates super().{meth}", f"an undeclared key can be {'written' if meth == 'update' else 'deleted'} through the validating observer", f0.lineno, path)
    vinit0 = repo.func(OBS, "_ValidatingContextObserver.__init__")
    vinit = _nf(repo, OBS, "_ValidatingContextObserver.__init__")
    gg = CFG(vinit, may_raise=_no_raise)
    ok = len(vinit.args.args) >= 3
    for attr, idx in (("self._allowed_context_keys", 1), ("self._allowed_suppressed_keys", 2)):
        stores = [n for n in gg.nodes if n.kind == "stmt" and isinstance(n.ast, (ast.Assign, ast.AnnAssign)) and n.ast.value is not None and any(dotted_name(t) == attr for t in (n.ast.targets if isinstance(n.ast, ast.Assign) else [n.ast.target]))]
        ok = ok and len(stores) >= 1
        for sn in stores:
            v, u = _val(gg, sn.ast.value, sn.id)
            ok = ok and isinstance(v, ast.Call) and isinstance(v.func, ast.Name) and v.func.id in ("set", "frozenset", "list", "tuple") and len(v.args) == 1 and not v.keywords and _is_param(gg, v.args[0], u, vinit.args.args[idx].arg)
    R.check(ok, r_keys, OBS, "_ValidatingContextObserver.__init__", "allowed sets = the constructor arguments", "the allowed key sets are not the declared created / suppressed keys", vinit0.lineno)
    ncu0 = repo.func(DPROC, "DataOperation._notify_context_update")
    ncu = _nf(repo, DPROC, "DataOperation._notify_context_update")
    gg = CFG(ncu, may_raise=_no_raise)
    writes = [n.id for n in gg.nodes if n.ast is not None and n.kind == "stmt" and any(call_attr(c) in ("set_value", "update", "update_context", "set_item_value", "__setitem__") for c in calls_in(n.ast))]
    writes += [n.id for n in gg.nodes if n.kind == "stmt" and isinstance(n.ast, ast.Assign) and any(isinstance(t, ast.Subscript) for t in n.ast.targets)]

    def declared(e: ast.AST, use: int) -> Optional[bool]:
        if isinstance(e, ast.Compare) and len(e.ops) == 1 and isinstance(e.ops[0], (ast.In, ast.NotIn)) and _is_param(gg, e.left, use, ncu.args.args[1].arg):
            cv = _val(gg, e.comparators[0], use)[0]
            if isinstance(cv, ast.Call) and isinstance(cv.func, ast.Name) and cv.func.id in ("set", "frozenset", "list", "tuple") and len(cv.args) == 1:
                cv = _val(gg, cv.args[0], use)[0]
            if isinstance(cv, ast.Call) and isinstance(cv.func, ast.Attribute) and cv.func.attr == "context_keys" and not cv.args:
                return isinstance(e.ops[0], ast.In)
        return None

    holds, path, guards = _only_through(gg, declared, writes)
    R.check(holds and guards > 0 and bool(writes), r_keys, DPROC, "DataOperation._notify_context_update", "key in self.context_keys() dominates the write", "a data operation can write a context key it did not declare", ncu0.lineno, path)
    cpn0 = repo.func(NODES, "_ContextProcessorNode._process_single_item_with_context")
    cpn = _nf(repo, NODES, "_ContextProcessorNode._process_single_item_with_context")
    gg = CFG(cpn, may_raise=_no_raise)
    cpn_payload = cpn.args.args[1].arg if len(cpn.args.args) > 1 else "payload"
    oc = next((c for c in calls_in(cpn) if call_attr(c) == "operate_context"), None)
    ok = False
    observer_ctor_nodes: Set[int] = set()
    if oc is not None:
        ob = kwarg(oc, "context_observer")
        use = _node_of(gg, oc)
        vals = _vals(gg, ob, use) if ob is not None and use is not None else None
        ok = bool(vals) and all(isinstance(v, ast.Call) and call_attr(v) == "_ValidatingContextObserver" for v, _u in vals)
        for v, u in vals or []:
            if not ok:
                break
            observer_ctor_nodes.add(u)
            a = _call_args(v, ("context_keys", "suppressed_keys", "logger")) or {}
            for pname, getter in (("context_keys", "get_created_keys"), ("suppressed_keys", "get_suppressed_keys")):
                leaves = _vals(gg, a[pname], u) if pname in a else None
                empty = lambda x: isinstance(x, (ast.List, ast.Tuple)) and not x.elts
                from_decl = lambda x, getter=getter: isinstance(x, ast.Call) and isinstance(x.func, ast.Attribute) and x.func.attr == getter and not x.args and ast.unparse(x.func.value) in ("self", "self.processor", "type(self)", "self.__class__", "type(self.processor)", "self.processor.__class__")
                ok = ok and bool(leaves) and all(empty(x) or from_decl(x) for x, _u in leaves) and any(from_decl(x) for x, _u in leaves)
    R.check(ok, r_keys, NODES, "_ContextProcessorNode._process_single_item_with_context", "operate_context(context_observer=_ValidatingContextObserver(created keys, suppressed keys))", "a context processor runs with an observer that does not restrict it to its declared created / suppressed keys", cpn0.lineno)
    # the observer handed to the processor is bound to the run's context before the processor runs
    bound = False
    if oc is not None and observer_ctor_nodes:
        oc_node = _node_of(gg, oc)
        binders = []
        for n in gg.nodes:
            if n.kind == "stmt" and isinstance(n.ast, ast.Assign) and len(n.ast.targets) == 1 and isinstance(n.ast.targets[0], ast.Attribute) and n.ast.targets[0].attr == "observer_context" and isinstance(n.ast.targets[0].value, ast.Name):
                tv = _vals(gg, n.ast.targets[0].value, n.id)
                if tv and all(u in observer_ctor_nodes for _v, u in tv) and _is_run_input(gg, n.ast.value, n.id, cpn_payload, "context"):
                    binders.append(n.id)
        bound = bool(binders) and oc_node is not None and not gg.must_pass([gg.entry], [oc_node], lambda n: n.id in binders)
    R.check(bound, r_keys, NODES, "_ContextProcessorNode._process_single_item_with_context", "validating_observer.observer_context = context", "the observer is not bound to the run's context", cpn0.lineno)
    op = repo.func(CPROC, "ContextProcessor.operate_context")
    trys = [n for n in walk_no_nested(op) if isinstance(n, ast.Try) and n.finalbody]
    ok = bool(trys) and any(call_attr(c) == "_set_context_observer" and c.args and isinstance(c.args[0], ast.Constant) and c.args[0].value is None for st in trys[0].finalbody for c in calls_in(st)) and any(call_attr(c) == "_process_logic" for st in trys[0].body for c in calls_in(st))
    R.check(ok, r_keys, CPROC, "ContextProcessor.operate_context", "observer reset in finally around _process_logic", "the observer stays attached after the processor ran (a later write goes through a stale observer)", op.lineno)
    rets = [n for n in walk_no_nested(op) if isinstance(n, ast.Return)]
    R.check(len(rets) == 1 and dotted_name(rets[0].value) == "context", r_keys, CPROC, "ContextProcessor.operate_context", "return context", "operate_context does not return the run's context object", op.lineno)

    # ------------------------------------------------------------------ D5
    r_seq = R.rule("C01-D5-sequential-abort", "execute visits the instantiated nodes once each in list order, feeds each node the data/context produced by the previous one, and no handler inside the loop swallows a failure", 5)
    ex = repo.func(ORCH, "SemantivaOrchestrator.execute")
    loops = [n for n in walk_no_nested(ex) if isinstance(n, ast.For) and any(call_attr(c) == "_submit_and_wait" for c in calls_in(n))]
    if len(loops) != 1:
        raise AnalysisError("execute(): node loop not found")
    lp = loops[0]
    NODES_VAR = next((dotted_name(n.targets[0].elts[0]) for n in walk_no_nested(ex) if isinstance(n, ast.Assign) and isinstance(n.targets[0], ast.Tuple) and isinstance(n.value, ast.Call) and call_attr(n.value) == "_instantiate_nodes"), "__missing__")
    ok = isinstance(lp.iter, ast.Call) and call_attr(lp.iter) == "enumerate" and len(lp.iter.args) == 1 and dotted_name(lp.iter.args[0]) == NODES_VAR and not lp.iter.keywords
    R.check(ok, r_seq, ORCH, "SemantivaOrchestrator.execute", norm(lp), "nodes are not visited in list order exactly once", lp.lineno)
    nd = assigned_value(ex, "nodes")
    ok = True
    for n in walk_no_nested(ex):
        if isinstance(n, ast.Assign) and isinstance(n.targets[0], ast.Tuple) and any(dotted_name(e) == NODES_VAR for e in n.targets[0].elts):
            ok = isinstance(n.value, ast.Call) and call_attr(n.value) == "_instantiate_nodes"
    R.check(ok, r_seq, ORCH, "SemantivaOrchestrator.execute", "nodes, node_defs = self._instantiate_nodes(resolved_spec, logger)", "the node list is not the instantiated spec in order", ex.lineno)
    nc = next((n for n in ast.walk(lp) if isinstance(n, FuncNode) and any(call_attr(c) == "process" for c in calls_in(n))), None)
    payload_p = next((a.arg for a in ex.args.args if a.arg == "payload"), "payload")
    def run_var(attr: str) -> str:
        """the local that carries the run's data / context: bound to <payload>.<attr> before the loop (single or tuple assignment)"""
        for n in walk_no_nested(ex):
            if isinstance(n, (ast.Assign, ast.AnnAssign)) and not any(a is lp for a in ancestors(n)):
                for x in ast.walk(n):
                    if isinstance(x, ast.Name) and isinstance(x.ctx, ast.Store):
                        v = _assigned_component(n, x.id)
                        if v is not None and ast.unparse(v) == f"{payload_p}.{attr}":
                            return x.id
        return "__missing__"

    DATA, CONTEXT = run_var("data"), run_var("context")
    ok = False
    if nc is not None:
        for c in ast.walk(nc):
            if isinstance(c, ast.Call) and call_attr(c) == "process" and isinstance(c.func, ast.Attribute) and dotted_name(c.func.value) == lp.target.elts[1].id and (c.args or kwarg(c, "payload") is not None):
                a0 = c.args[0] if c.args else kwarg(c, "payload")
                if isinstance(a0, ast.Name):
                    one = assigned_value(nc, a0.id)
                    a0 = one[0] if len(one) == 1 else a0
                pa = _call_args(a0, ("data", "context")) if isinstance(a0, ast.Call) and call_attr(a0) == "Payload" else None
                ok = ok or bool(pa and dotted_name(pa.get("data")) == DATA and dotted_name(pa.get("context")) == CONTEXT and not any(isinstance(x, ast.Name) and x.id in (DATA, CONTEXT) and isinstance(x.ctx, ast.Store) for x in ast.walk(nc)))
    R.check(ok, r_seq, ORCH, "SemantivaOrchestrator.execute", "node.process(Payload(data, context))", "a node is not run on the current data/context pair", lp.lineno)
    g = CFG(ex, may_raise=lambda p: set())
    sub = next(n for n in g.nodes if n.ast is not None and n.kind == "stmt" and any(call_attr(c) == "_submit_and_wait" for c in calls_in(n.ast)))
    heads = g.nodes_for(lp)
    res_var = next((t.id for t in sub.ast.targets if isinstance(t, ast.Name)), None) if isinstance(sub.ast, ast.Assign) else None

    def from_result(v: ast.AST) -> bool:
        src_names = {x.id for x in ast.walk(v) if isinstance(x, ast.Name)}
        return res_var in src_names or any(res_var in {x.id for x in ast.walk(w) if isinstance(x, ast.Name)} for nm in src_names for w in assigned_value(ex, nm))

    ok = res_var is not None
    for var in (DATA, CONTEXT):
        # the statement(s) inside the loop that rebind the carried local from this node's result
        upd = [n.id for n in g.nodes if n.kind == "stmt" and isinstance(n.ast, (ast.Assign, ast.AnnAssign)) and n.ast.value is not None and _defines(n, var) and any(a is lp for a in ancestors(n.ast)) and from_result(_assigned_component(n.ast, var) or n.ast.value)]
        saved = {h: g.succ[h] for h in heads}
        for h in heads:
            g.succ[h] = []
        try:
            bad = g.must_pass([t for t, lab in g.succ[sub.id] if lab == "n"], heads, lambda n: n.id in upd)
        finally:
            for h, v in saved.items():
                g.succ[h] = v
        ok = ok and bool(upd) and not bad
    R.check(ok, r_seq, ORCH, "SemantivaOrchestrator.execute", "data, context = <result of this node> before the next iteration", "the next node does not receive this node's output (data/context not carried forward)", lp.lineno)
    handlers = [h for n in ast.walk(lp) if isinstance(n, ast.Try) and any(call_attr(c) == "_submit_and_wait" for st in n.body for c in calls_in(st)) for h in n.handlers]
    ok = bool(handlers) and all(isinstance(h.body[-1], ast.Raise) and not any(isinstance(x, (ast.Continue, ast.Break, ast.Return)) for x in ast.walk(h)) for h in handlers)
    R.check(ok, r_seq, ORCH, "SemantivaOrchestrator.execute", "handlers around node execution re-raise", "a node failure is swallowed inside the loop: later nodes still run", lp.lineno)

    # ------------------------------------------------------------------ D6
    r_sl = R.rule("C01-D6-slicers", "generated slicing processors iterate their input directly, call the wrapped processor once per element with the same extra arguments, and append results in that order", 2)
    create = repo.func(SLICE, "_SlicingDataProcessorFactory.create")
    procs = [n for n in ast.walk(create) if isinstance(n, FuncNode) and n.name == "process"]
    if len(procs) != 2:
        raise AnalysisError(f"slicer factory: {len(procs)} process overrides found (2 confirmed by reading)")
    for p in procs:
        data_p = p.args.args[1].arg if len(p.args.args) > 1 else "data"
        va, kwa = (p.args.vararg.arg if p.args.vararg else None), (p.args.kwarg.arg if p.args.kwarg else None)
        loops = [n for n in walk_no_nested(p) if isinstance(n, ast.For)]
        comps = [n for n in walk_no_nested(p) if isinstance(n, (ast.ListComp, ast.GeneratorExp, ast.SetComp, ast.DictComp))]
        rebound = any(isinstance(x, ast.Name) and x.id == data_p and isinstance(x.ctx, (ast.Store, ast.Del)) for x in walk_no_nested(p))
        ok = len(loops) + len(comps) == 1 and not rebound

        def mapped_call(scope: ast.AST, item: Optional[str]) -> Optional[ast.Call]:
            sc = [c for c in calls_in(scope) if isinstance(c.func, ast.Attribute) and c.func.attr == "process" and isinstance(c.func.value, ast.Call) and call_attr(c.func.value) == "super"]
            if len(sc) != 1 or item is None or not sc[0].args or dotted_name(sc[0].args[0]) != item:
                return None
            stars = [dotted_name(a.value) for a in sc[0].args[1:] if isinstance(a, ast.Starred)]
            dstars = [dotted_name(k.value) for k in sc[0].keywords if k.arg is None]
            if stars != [va] or dstars != [kwa] or len(sc[0].args) != 2 or len(sc[0].keywords) != 1:
                return None
            return sc[0]

        def over_input(it: ast.AST, target: ast.AST) -> Optional[str]:
            """loop variable bound to the elements when the iteration is over the input itself, in order"""
            if isinstance(it, ast.Call) and call_attr(it) == "enumerate" and len(it.args) == 1 and not it.keywords:
                return target.elts[1].id if isinstance(it.args[0], ast.Name) and it.args[0].id == data_p and isinstance(target, ast.Tuple) and len(target.elts) == 2 and isinstance(target.elts[1], ast.Name) else None
            return target.id if isinstance(it, ast.Name) and it.id == data_p and isinstance(target, ast.Name) else None

        if ok and loops:
            lp_ = loops[0]
            sc0 = mapped_call(lp_, over_input(lp_.iter, lp_.target))
            ok = sc0 is not None and not lp_.orelse and not any(isinstance(x, (ast.If, ast.IfExp, ast.Continue, ast.Break, ast.Return, ast.Try, ast.While)) for x in ast.walk(lp_))
            if ok:
                # the element result is what gets appended (directly or through one local)
                holder = {t.id for st in lp_.body if isinstance(st, ast.Assign) and st.value is sc0 for t in st.targets if isinstance(t, ast.Name)}
                apps = [c for c in calls_in(lp_) if call_attr(c) == "append" and len(c.args) == 1]
                ok = len(apps) == 1 and (apps[0].args[0] is sc0 or (isinstance(apps[0].args[0], ast.Name) and apps[0].args[0].id in holder))
        elif ok:
            cp = comps[0]
            gen = cp.generators[0]
            sc0 = mapped_call(cp, over_input(gen.iter, gen.target)) if len(cp.generators) == 1 and not gen.ifs and not gen.is_async else None
            ok = sc0 is not None and isinstance(cp, (ast.ListComp, ast.GeneratorExp)) and cp.elt is sc0
        R.check(ok, r_sl, SLICE, qualname_of(p), "for item in data: out.append(super().process(item, *args, **kwargs))", "a slicer does not map the wrapped processor over the elements in order with the resolved parameters", p.lineno)

    # ------------------------------------------------------------------ D7
    r_sh = R.rule("C01-D7-shorthand-table", "each registered shorthand prefix is handled by the resolver whose pattern starts with that prefix, and the pattern's groups feed the matching factory arguments in order", 4)
    rmod = repo.module(RESOLVERS)
    regs = {}
    reg_fn = repo.func(RESOLVERS, "register_builtin_resolvers")
    for c in calls_in(reg_fn):
        if call_name(c) == "NameResolverRegistry.register_resolver" and len(c.args) == 2 and isinstance(c.args[0], ast.Constant):
            regs[c.args[0].value] = dotted_name(c.args[1])
    patterns = {}
    for st in rmod.tree.body:
        if isinstance(st, ast.Assign) and isinstance(st.value, ast.Call) and call_name(st.value) == "re.compile" and st.value.args and isinstance(st.value.args[0], ast.Constant):
            patterns[dotted_name(st.targets[0])] = st.value.args[0].value
    expected = {"rename:": ("_context_renamer_factory", ["src", "dst"]), "delete:": ("_context_deleter_factory", ["key"]), "template:": ("_context_template_factory", ["template", "out"]), "slice:": ("slice", ["proc", "collection"])}
    for prefix, (factory, groups) in expected.items():
        fn_name = regs.get(prefix)
        f = rmod.defs.get(fn_name or "")
        ok = isinstance(f, FuncNode)
        if ok:
            used = [dotted_name(c.func.value) for c in calls_in(f) if call_attr(c) == "match" and isinstance(c.func, ast.Attribute)]
            pat = patterns.get(used[0]) if used else None
            ok = pat is not None and pat.startswith("^" + prefix)
            fc = [c for c in ast.walk(f) if isinstance(c, ast.Call) and call_attr(c) == factory]
            got = []
            by_signature = False
            if fc:
                # arguments in the order of the factory's own parameters (keyword arguments may be written in any order)
                arg_list = list(fc[-1].args) + [k.value for k in fc[-1].keywords]
                try:
                    tg = repo.resolve_call(rmod, fc[-1])
                except Exception:
                    tg = []
                if len(tg) == 1 and isinstance(tg[0][1], FuncNode):
                    pnames = tuple(a.arg for a in tg[0][1].args.args)
                    bound_args = _call_args(fc[-1], pnames)
                    if bound_args is not None:
                        arg_list = [bound_args[pn] for pn in pnames if pn in bound_args]
                        by_signature = True
                for a in arg_list:
                    for g2 in ast.walk(a):
                        if isinstance(g2, ast.Call) and call_attr(g2) == "group" and g2.args and isinstance(g2.args[0], ast.Constant):
                            got.append(g2.args[0].value)
                            break
                    else:
                        # slice: groups flow through locals
                        for nm in {x.id for x in ast.walk(a) if isinstance(x, ast.Name)}:
                            for v in assigned_value(f, nm):
                                for g2 in ast.walk(v):
                                    if isinstance(g2, ast.Call) and call_attr(g2) == "group" and g2.args and isinstance(g2.args[0], ast.Constant):
                                        got.append(g2.args[0].value)
            ok = ok and got == groups
            if ok and factory == "_context_template_factory" and not by_signature:
                kws = [k.arg for k in fc[-1].keywords]
                ok = kws == ["template", "output_key"]
        R.check(ok, r_sh, RESOLVERS, fn_name or prefix, f"{prefix} -> {factory}({', '.join(groups)})", f"shorthand {prefix} is not resolved by its own pattern with the groups in the documented argument order", getattr(f, "lineno", 0))

    # ------------------------------------------------------------------ D8
    r_io = R.rule("C01-D8-io-adapters", "sink adapters return the data they were given after sending it; source adapters return what the source produced and ignore their input", 4)
    iof = repo.func(IOF, "_IOOperationFactory.create_data_operation")
    logics = [n for n in ast.walk(iof) if isinstance(n, FuncNode) and n.name.startswith("_process_logic")]
    n_seen = 0
    for lf in logics:
        calls_io = [c for c in calls_in(lf) if call_attr(c) in ("send_data", "_send_data", "send_payload", "_send_payload", "get_data", "_get_data", "get_payload", "_get_payload")]
        if not calls_io:
            continue
        n_seen += 1
        kind = "sink" if any("send" in call_attr(c) for c in calls_io) else "source"
        rets = [n for n in walk_no_nested(lf) if isinstance(n, ast.Return) and n.value is not None]
        data_param = lf.args.args[1].arg if len(lf.args.args) > 1 else "data"
        if kind == "sink":
            ok = bool(rets) and all(dotted_name(r.value) == data_param for r in rets) and not any(isinstance(n, ast.Assign) and any(dotted_name(t) == data_param for t in n.targets) for n in ast.walk(lf))
            R.check(ok, r_io, IOF, qualname_of(lf), f"sink adapter returns `{data_param}` unchanged", "a sink adapter returns something other than the data it received", lf.lineno)
        else:
            ok = bool(rets)
            for r in rets:
                names = {x.id for x in ast.walk(r.value) if isinstance(x, ast.Name)}
                ok = ok and data_param not in names
            R.check(ok, r_io, IOF, qualname_of(lf), "source adapter returns the loaded value, not its input", "a source adapter passes its input through", lf.lineno)
    if n_seen < 4:
        raise AnalysisError(f"IO adapter templates: {n_seen} _process_logic bodies recognised (4 confirmed by reading)")

    _rule_run_inputs(repo, R, nmod)
    _rule_forwarding(repo, R)
    _rule_shorthand_processors(repo, R)
    _rule_no_process_state(repo, R)


# ---------------------------------------------------------------------- D9
def _no_raise(_part: ast.AST) -> Set[str]:
    return set()


def _assigned_component(st: ast.AST, name: str) -> Optional[ast.AST]:
    """The expression bound to *name* by assignment statement *st* (`a = e`, `a, b = e1, e2`, `a: T = e`)."""
    if isinstance(st, ast.AnnAssign):
        return st.value if isinstance(st.target, ast.Name) and st.target.id == name else None
    if not isinstance(st, ast.Assign):
        return None
    for t in st.targets:
        if isinstance(t, ast.Name) and t.id == name:
            return st.value
        if isinstance(t, (ast.Tuple, ast.List)) and isinstance(st.value, (ast.Tuple, ast.List)) and len(t.elts) == len(st.value.elts):
            for te, ve in zip(t.elts, st.value.elts):
                if isinstance(te, ast.Name) and te.id == name:
                    return ve
    return None


def _is_run_input(g: CFG, e: ast.AST, use: int, payload_p: str, attr: str, depth: int = 0) -> bool:
    """Does expression *e*, evaluated at CFG node *use*, necessarily denote `<payload>.<attr>` of the
    payload the method was called with?  Locals are followed through their reaching definitions;
    `self.<x>` is accepted when every store to it in the method stores the run input and one of
    them dominates the use."""
    if depth > 8:
        return False
    dn = dotted_name(e)
    if dn == f"{payload_p}.{attr}":
        return not reaching_defs(g, payload_p, use)  # the parameter itself, not a rebound local
    if isinstance(e, ast.Name):
        defs = reaching_defs(g, e.id, use)
        if not defs:
            return False
        for d in defs:
            v = _assigned_component(d.ast, e.id) if d.kind == "stmt" else None
            if v is None or not _is_run_input(g, v, d.id, payload_p, attr, depth + 1):
                return False
        return True
    if dn and dn.startswith("self.") and dn.count(".") == 1:
        stores = [n for n in g.nodes if n.kind == "stmt" and isinstance(n.ast, ast.Assign) and any(dotted_name(t) == dn for t in n.ast.targets)]
        if not stores or not all(_is_run_input(g, s.ast.value, s.id, payload_p, attr, depth + 1) for s in stores):
            return False
        return any(g.dominated_by_node(use, s.id) for s in stores if s.id != use)
    return False


def _rule_run_inputs(repo: Repo, R: Report, nmod) -> None:
    r = R.rule("C01-D9-run-inputs-reach-the-processor", "in every node body the context handed to parameter resolution (and to operate_context) is the context of the payload the node was given, and the data handed to the processor is that payload's data", 10)
    for qn, f in [(q, n) for q, n in nmod.defs.items() if isinstance(n, FuncNode) and n.name == "_process_single_item_with_context"]:
        if len(f.args.args) < 2:
            continue
        payload_p = f.args.args[1].arg
        g = CFG(f, may_raise=_no_raise)

        def use_of(c: ast.Call) -> Optional[int]:
            ids = g.nodes_for(stmt_of(c))
            return ids[0] if ids else None

        for c in calls_in(f):
            if not isinstance(c.func, ast.Attribute):
                continue
            recv, meth = dotted_name(c.func.value), c.func.attr
            wanted: List[Tuple[Optional[ast.AST], str, str]] = []
            if recv == "self" and meth == "_get_processor_parameters":
                wanted.append((c.args[0] if c.args else kwarg(c, "context"), "context", "parameters are resolved against"))
            elif recv == "self" and meth == "_fetch_parameter_value":
                wanted.append((c.args[1] if len(c.args) > 1 else kwarg(c, "context"), "context", "parameters are resolved against"))
            elif recv == "self.processor" and meth == "process":
                wanted.append((c.args[0] if c.args else kwarg(c, "data"), "data", "the processor is run on"))
            elif recv == "self.processor" and meth == "operate_context":
                wanted.append((kwarg(c, "context") or (c.args[0] if c.args else None), "context", "the context processor operates on"))
            for e, attr, what in wanted:
                use = use_of(c)
                ok = e is not None and use is not None and _is_run_input(g, e, use, payload_p, attr)
                R.check(ok, r, NODES, qn, norm(c)[:90], f"{what} `{ast.unparse(e) if e is not None else '?'}`, which is not (provably) `{payload_p}.{attr}` of the payload this node received: values placed in the pipeline context (initial context, keys written by earlier nodes) are invisible to this node / it works on other data", c.lineno)


# ---------------------------------------------------------------------- D10
def _rule_forwarding(repo: Repo, R: Report) -> None:
    r = R.rule("C01-D10-accepted-writes-and-deletes-are-carried-out", "between a processor's _notify_context_update/_notify_context_deletion and the context mapping no layer skips the operation: every normally-returning path of each forwarding method performs the forwarding call with the caller's key (validation may only reject by raising), so a declared write happens and deleting an absent key fails at this node", 8)

    def forwarded(rel: str, qn: str, is_fwd, what: str, bad: str) -> None:
        f0 = repo.func(rel, qn)
        f = _nf(repo, rel, qn)
        g = CFG(f, may_raise=_no_raise)
        fwd = {n.id for n in g.nodes if n.ast is not None and n.kind == "stmt" and is_fwd(f, g, n.ast, n.id)}
        miss = g.must_pass([g.entry], [g.ret_exit], lambda n: n.id in fwd)
        R.check(bool(fwd) and not miss, r, rel, qn, what, bad, f0.lineno, miss[0][1] if miss else None)
        # a handler around the forwarding call that does not re-raise turns the prescribed failure into a skip
        for t in [n for n in walk_no_nested(f) if isinstance(n, ast.Try)]:
            if any(is_fwd(f, g, st, _node_of(g, st)) for b in t.body for st in ast.walk(b) if isinstance(st, ast.stmt) and not isinstance(st, (ast.If, ast.For, ast.While, ast.With, ast.Try))):
                for h in t.handlers:
                    if not (h.body and isinstance(h.body[-1], ast.Raise)):
                        R.violation(r, rel, qn, norm(h)[:80], f"the failure of the forwarded operation is caught and not re-raised ({what}): the node completes although the operation failed, later nodes run", h.lineno)

    def all_args(c: ast.Call) -> List[ast.AST]:
        return list(c.args) + [k.value for k in c.keywords if k.arg is not None]

    def first_arg(c: ast.Call, pname: str) -> Optional[ast.AST]:
        return c.args[0] if c.args and not isinstance(c.args[0], ast.Starred) else kwarg(c, pname)

    # validating observer -> base observer
    for meth in ("update", "delete"):
        def is_super(f, g, st, use, meth=meth) -> bool:
            return use is not None and any(isinstance(c.func, ast.Attribute) and c.func.attr == meth and isinstance(c.func.value, ast.Call) and call_attr(c.func.value) == "super" and _is_param(g, first_arg(c, "key"), use, f.args.args[1].arg) for c in calls_in(st))
        forwarded(OBS, f"_ValidatingContextObserver.{meth}", is_super, f"every accepted key reaches super().{meth}(key, ...)",
                  f"a declared key is accepted but the {meth} is skipped on some path (extra condition after the membership test): " + ("deleting a key that is not in the context no longer raises KeyError at this node, the node completes and later nodes run" if meth == "delete" else "a declared write is silently dropped"))
    # base observer -> static helpers on the bound context
    for meth, helper in (("update", "update_context"), ("delete", "delete_context")):
        def is_helper(f, g, st, use, helper=helper) -> bool:
            for c in calls_in(st):
                if use is None or call_attr(c) != helper:
                    continue
                a = _call_args(c, ("context", "key", "value", "index") if helper == "update_context" else ("context", "key", "index"))
                if a and "context" in a and "key" in a and dotted_name(_val(g, a["context"], use)[0]) == "self.observer_context" and _is_param(g, a["key"], use, f.args.args[1].arg):
                    return True
            return False
        forwarded(OBS, f"_ContextObserver.{meth}", is_helper, f"{helper}(self.observer_context, key, ...) on every path", f"the observer does not apply the {meth} to its bound context on some path")
    # static helpers -> the mapping
    for helper, muts in (("update_context", ("set_value", "set_item_value")), ("delete_context", ("delete_value", "delete_item_value"))):
        def is_mut(f, g, st, use, muts=muts) -> bool:
            if use is None:
                return False
            ctx_p, key_p = f.args.args[0].arg, f.args.args[1].arg
            for c in calls_in(st):
                if isinstance(c.func, ast.Attribute) and c.func.attr in muts and _is_param(g, c.func.value, use, ctx_p) and any(_is_param(g, a, use, key_p) for a in all_args(c)):
                    return True
            tg: List[ast.AST] = []
            if isinstance(st, ast.Assign) and muts[0] == "set_value":
                tg = list(st.targets)
            if isinstance(st, ast.Delete) and muts[0] == "delete_value":
                tg = list(st.targets)
            # an item store / del on (a part of) the context object, however the part is named
            return any(isinstance(t, ast.Subscript) and _is_param(g, t.slice, use, key_p) and _rooted_in_param(g, t.value, use, ctx_p) for t in tg)
        forwarded(OBS, f"_ContextObserver.{helper}", is_mut, f"every path mutates `context` under `key` ({'/'.join(muts)} or item store)", f"{helper} returns normally on some path without touching the context")
    # context processor -> its observer
    for meth, obs_meth in (("_notify_context_update", "update"), ("_notify_context_deletion", "delete")):
        def is_obs(f, g, st, use, obs_meth=obs_meth) -> bool:
            return use is not None and any(isinstance(c.func, ast.Attribute) and c.func.attr == obs_meth and dotted_name(_val(g, c.func.value, use)[0]) == "self._context_observer" and _is_param(g, first_arg(c, "key"), use, f.args.args[1].arg) for c in calls_in(st))
        forwarded(CPROC, f"ContextProcessor.{meth}", is_obs, f"self._context_observer.{obs_meth}(key, ...) on every path", f"a context processor's {obs_meth} request is dropped on some path instead of being forwarded to the (validating) observer")


# ---------------------------------------------------------------------- D11
CFACT = "semantiva/context_processors/factory.py"


def _rule_shorthand_processors(repo: Repo, R: Report) -> None:
    r = R.rule("C01-D11-shorthand-processors-act-on-presence", "the processors generated for rename:/delete:/template: perform their declared write/delete whenever the consumed key was resolved (the only condition allowed in front of it is the presence test `key in kwargs`; a test on the resolved *value*, `kwargs.get(key) is not None` included, skips a key that is present and holds None / 0 / ''), on the declared keys, with the resolved value", 4)

    def logic_of(factory: str) -> Tuple[ast.AST, ast.AST]:
        fac = repo.func(CFACT, factory)
        fns = [n for n in ast.walk(fac) if isinstance(n, FuncNode) and n is not fac and any(call_attr(c) in ("_notify_context_update", "_notify_context_deletion") for c in calls_in(n))]
        if len(fns) != 1 or fns[0].args.kwarg is None:
            raise AnalysisError(f"{factory}: generated _process_logic(self, **kwargs) not found")
        return fac, fns[0]

    def analyse(factory: str, consumed_idx: Optional[int], expect: List[Tuple[str, int]]) -> None:
        fac, f = logic_of(factory)
        fparams = [a.arg for a in fac.args.args]
        kw = f.args.kwarg.arg
        defs = _single_defs(f)
        consumed = fparams[consumed_idx] if consumed_idx is not None else None

        def reads_consumed(e: ast.AST) -> bool:
            e = _resolved(e, defs)
            if isinstance(e, ast.Call) and isinstance(e.func, ast.Attribute) and e.func.attr == "get" and dotted_name(e.func.value) == kw and len(e.args) == 1 and not e.keywords:
                return dotted_name(e.args[0]) == consumed
            return isinstance(e, ast.Subscript) and dotted_name(e.value) == kw and dotted_name(e.slice) == consumed

        def absent(e: ast.AST) -> Optional[bool]:
            """True: *e* says the consumed key was not resolved; False: it says it was."""
            if isinstance(e, ast.Name) and e.id in defs:
                return absent(defs[e.id])
            if isinstance(e, ast.Compare) and len(e.ops) == 1:
                op, a, b = e.ops[0], e.left, e.comparators[0]
                if isinstance(op, (ast.In, ast.NotIn)) and dotted_name(a) == consumed and dotted_name(b) == kw:
                    return isinstance(op, ast.NotIn)
            return None

        g = CFG(f, may_raise=_no_raise)
        blocked: Set[Tuple[int, str]] = set()
        if consumed is not None:
            for n in g.nodes:
                if n.kind in ("if", "while") and n.part is not None:
                    for lab in edges_guaranteeing(n.part, absent):
                        blocked.add((n.id, lab))
        for meth, key_idx in expect:
            want_key = fparams[key_idx]
            def key_arg(c: ast.Call) -> Optional[ast.AST]:
                a = _call_args(c, ("key", "value"))
                return _resolved(a["key"], defs) if a and "key" in a else None

            sites = {n.id for n in g.nodes if n.ast is not None and n.kind == "stmt" and any(call_attr(c) == meth and dotted_name(c.func) == f"{f.args.args[0].arg}.{meth}" and dotted_name(key_arg(c)) == want_key for c in calls_in(n.ast))}
            miss = g.must_pass([g.entry], [g.ret_exit], lambda n: n.id in sites, blocked_edges=blocked)
            tests = sorted({ast.unparse(n.part)[:50] for n in g.nodes if n.kind in ("if", "while") and n.part is not None and not edges_guaranteeing(n.part, absent)})
            R.check(bool(sites) and not miss, r, CFACT, f"{factory}._process_logic", f"self.{meth}({want_key}, ...) whenever the key was resolved",
                    f"the generated processor can finish without `{meth}({want_key})` although the consumed key was resolved" + (f" (guarded by `{tests[0]}`, which is not the presence test: a key that is present and holds None / 0 / False / '' / [] is neither renamed nor deleted, later nodes see the wrong context)" if tests else ""), f.lineno, miss[0][1] if miss else None)
            if meth == "_notify_context_update" and consumed is not None:
                vals = [a["value"] for a in (_call_args(c, ("key", "value")) for c in calls_in(f) if call_attr(c) == meth) if a and "value" in a]
                R.check(bool(vals) and all(reads_consumed(v) for v in vals), r, CFACT, f"{factory}._process_logic", f"the value written under {want_key} is the resolved value of {consumed}", "the destination key does not receive the value resolved for the source key", f.lineno)

    analyse("_context_renamer_factory", 0, [("_notify_context_update", 1), ("_notify_context_deletion", 0)])
    analyse("_context_deleter_factory", 0, [("_notify_context_deletion", 0)])
    analyse("_context_template_factory", None, [("_notify_context_update", 1)])


# ---------------------------------------------------------------------- D12
NODEFACT = "semantiva/pipeline/nodes/_pipeline_node_factory.py"
CTYPES = "semantiva/context_processors/context_types.py"
SWEEP = "semantiva/data_processors/parametric_sweep_factory.py"
COMPONENT = "semantiva/core/semantiva_component.py"
# every function of these files is part of what a node computes (resolution, gate, observers, generated processors)
_NODE_PATH_FILES = (NODES, NODEFACT, PAYP, OBS, DPROC, CPROC, CTYPES, SLICE, IOF, CFACT, SWEEP)
_STATE_EXEMPT = ("semantiva/registry/", "semantiva/logger/", "semantiva/exceptions/")  # name -> class tables, logging
_SINKS = {"append", "extend", "add", "update", "insert", "appendleft", "discard", "remove", "__setitem__"}
_EVICT = {"clear", "pop", "popitem"}


def _scope_locals(f: ast.AST) -> Set[str]:
    """Names local to *f* or to a function it is nested in (parameters, stores, imports), `global` ones excluded."""
    out: Set[str] = set()
    for fn in [f] + [a for a in ancestors(f) if isinstance(a, FuncNode)]:
        loc = set(_fn_params(fn))
        globs: Set[str] = set()
        for n in walk_no_nested(fn):
            if isinstance(n, (ast.Global, ast.Nonlocal)):
                globs |= set(n.names)
            elif isinstance(n, ast.Name) and isinstance(n.ctx, (ast.Store, ast.Del)):
                loc.add(n.id)
            elif isinstance(n, ast.ExceptHandler) and n.name:
                loc.add(n.name)
            elif isinstance(n, (ast.Import, ast.ImportFrom)):
                loc |= {(al.asname or al.name).split(".")[0] for al in n.names}
            elif isinstance(n, FuncNode + (ast.ClassDef,)) and n is not fn:
                loc.add(n.name)
        out |= loc - globs
    return out


def _owner_class(recv: str, f: ast.AST, mod, local: Set[str]) -> Optional[str]:
    """Class (existing once per process) whose attribute `recv.X` designates inside *f*."""
    static = {c.name: c for c in ast.walk(mod.tree) if isinstance(c, ast.ClassDef) and not any(isinstance(a, FuncNode) for a in ancestors(c))}
    if recv in ("cls", "self"):
        for a in ancestors(f):
            if isinstance(a, ast.ClassDef):
                return a.name if static.get(a.name) is a else None
            if isinstance(a, FuncNode):
                return None
        return None
    return recv if recv in static and recv not in local else None


def _cell_occurrences(repo: Repo, mod, f: ast.AST, cells_of) -> List[Tuple[ast.AST, Tuple[str, ...], str, Tuple[ast.AST, str], object]]:
    """(occurrence, cell key, label, (write site, writer), module owning the cell) for every mention in *f* of a process-lifetime state
    cell of its module (or of one imported by name from another module of the package)."""
    cells = cells_of(mod)
    imported: Dict[str, Tuple[str, object]] = {}
    for alias, target in mod.imports.items():
        head, _, nm = target.rpartition(".")
        origin = repo.by_dotted.get(head)
        if origin is not None and origin is not mod and nm and ("name", nm) in cells_of(origin):
            imported[alias] = (nm, origin)
    if not cells and not imported:
        return []
    local = _scope_locals(f)
    out = []
    for n in walk_no_nested(f):
        if isinstance(n, ast.Name) and n.id not in local:
            if ("name", n.id) in cells:
                out.append((n, ("name", n.id), n.id, cells[("name", n.id)], mod))
            elif n.id in imported:
                nm, origin = imported[n.id]
                out.append((n, ("name", nm), n.id, cells_of(origin)[("name", nm)], origin))
        elif isinstance(n, ast.Attribute) and isinstance(n.value, ast.Name):
            owner = _owner_class(n.value.id, f, mod, local)
            if owner is not None and ("attr", owner, n.attr) in cells:
                out.append((n, ("attr", owner, n.attr), f"{owner}.{n.attr}", cells[("attr", owner, n.attr)], mod))
    return out


def _cell_access(n: ast.AST) -> Tuple[str, Optional[ast.AST], Optional[ast.AST]]:
    """How the occurrence *n* of a state cell is used: ('write', K, V) item store / sink mutator whose result is
    discarded, ('evict', ..) clear / pop / del, ('lookup', K, V) `C[K]`, `C.get(K)`, `K in C`, `C.setdefault(K, V)`,
    ('read', ..) anything else (iteration, len, rebinding, aliasing, passing it on)."""
    par = parent(n)
    if isinstance(getattr(n, "ctx", None), (ast.Store, ast.Del)):
        return ("read" if isinstance(par, ast.AugAssign) else "rebind"), None, (par.value if isinstance(par, (ast.Assign, ast.AnnAssign)) else None)
    if isinstance(par, ast.Subscript) and par.value is n:
        pp = parent(par)
        if isinstance(par.ctx, ast.Store):
            if isinstance(pp, ast.AugAssign):
                return "read", par.slice, None
            return "write", par.slice, (pp.value if isinstance(pp, (ast.Assign, ast.AnnAssign)) else None)
        if isinstance(par.ctx, ast.Del):
            return "evict", par.slice, None
        return "lookup", par.slice, None
    if isinstance(par, ast.Compare) and len(par.ops) == 1 and isinstance(par.ops[0], (ast.In, ast.NotIn)) and par.comparators[0] is n:
        return "lookup", par.left, None
    if isinstance(par, ast.Attribute) and par.value is n and isinstance(parent(par), ast.Call) and parent(par).func is par:
        c = parent(par)
        plain = not c.keywords and not any(isinstance(a, ast.Starred) for a in c.args)
        if par.attr in _EVICT and isinstance(parent(c), ast.Expr):
            return "evict", None, None
        if par.attr == "get" and plain and 1 <= len(c.args) <= 2:
            return "lookup", c.args[0], None
        if par.attr == "setdefault" and plain and len(c.args) == 2:
            return "lookup", c.args[0], c.args[1]
        if par.attr in _SINKS and isinstance(parent(c), ast.Expr):
            return "write", None, None
    return "read", None, None


def _identity_key(g: CFG, k: Optional[ast.AST], use: int, depth: int = 0) -> Optional[Set[str]]:
    """Parameters whose *objects* (entry values; `type(p)` / `p.__class__` included) make up the key *k*, when the
    key is nothing but those objects - so two entries coincide only for the same objects; else None
    (a string / name / id() derived from them can coincide for different objects)."""
    if k is None or depth > 6:
        return None
    vs = _vals(g, k, use)
    if not vs:
        return None
    out: Set[str] = set()
    for v, u in vs:
        if isinstance(v, ast.Tuple) and v.elts:
            for e in v.elts:
                sub = _identity_key(g, e, u, depth + 1)
                if sub is None:
                    return None
                out |= sub
            continue
        if isinstance(v, ast.Call) and isinstance(v.func, ast.Name) and v.func.id == "type" and len(v.args) == 1 and not v.keywords:
            v = v.args[0]
        elif isinstance(v, ast.Attribute) and v.attr == "__class__":
            v = v.value
        if isinstance(v, ast.Name) and v.id in _fn_params(g.func) and _is_param(g, v, u, v.id):
            out.add(v.id)
        else:
            return None
    return out


def _value_inputs(f: ast.AST, st: ast.AST, v: ast.AST) -> Set[str]:
    """Names the value *v* stored by statement *st* of *f* is computed from (flow-insensitive closure over the
    local bindings, plus the tests of the branches / loops the store sits in)."""
    seen: Set[str] = set()
    todo: List[ast.AST] = [v]
    for a in ancestors(st):
        if a is f:
            break
        if isinstance(a, (ast.If, ast.While)):
            todo.append(a.test)
        elif isinstance(a, ast.For):
            todo.append(a.iter)
    binders: Dict[str, List[ast.AST]] = {}
    for n in walk_no_nested(f):
        if isinstance(n, (ast.Assign, ast.AnnAssign, ast.AugAssign)) and n.value is not None:
            for t in (n.targets if isinstance(n, ast.Assign) else [n.target]):
                for x in ast.walk(t):
                    if isinstance(x, ast.Name) and isinstance(x.ctx, ast.Store):
                        binders.setdefault(x.id, []).append(n.value)
        elif isinstance(n, ast.NamedExpr) and isinstance(n.target, ast.Name):
            binders.setdefault(n.target.id, []).append(n.value)
        elif isinstance(n, (ast.For, ast.comprehension)):
            for x in ast.walk(n.target):
                if isinstance(x, ast.Name):
                    binders.setdefault(x.id, []).append(n.iter)
        elif isinstance(n, ast.With):
            for it in n.items:
                for x in ast.walk(it.optional_vars) if it.optional_vars is not None else []:
                    if isinstance(x, ast.Name):
                        binders.setdefault(x.id, []).append(it.context_expr)
    while todo:
        e = todo.pop()
        for x in ast.walk(e):
            if isinstance(x, ast.Name) and x.id not in seen:
                seen.add(x.id)
                todo.extend(binders.get(x.id, []))
    return seen


def _rule_no_process_state(repo: Repo, R: Report) -> None:
    from .c04_rest import process_state_cells

    r = R.rule("C01-D12-no-process-state-on-the-node-path", "what a node resolves, checks and writes is a function of its processor class, its configuration and the payload: no function on the resolution / gate / observer / generated-processor path reads a module-level name or class attribute written at run time (memo, cache, counter, lazily filled class attribute), unless it is a table looked up only by the identity of the objects its entries were computed from", 10)
    roots: List[Tuple[object, ast.AST]] = []
    for rel in _NODE_PATH_FILES:
        m = repo.module(rel)
        roots += [(m, f) for f in ast.walk(m.tree) if isinstance(f, FuncNode)]
    roots.append((repo.module(PARAMRES), repo.func(PARAMRES, "resolve_runtime_value")))
    roots.append((repo.module(COMPONENT), repo.func(COMPONENT, "_SemantivaComponent.get_metadata")))
    clo = repo.call_graph_closure(roots, stop=lambda m, n: m.rel.startswith(_STATE_EXEMPT))
    todo: Dict[int, Tuple[object, ast.AST]] = {}
    for m, f, _path in clo.values():
        if m.rel.startswith(_STATE_EXEMPT) or not isinstance(f, FuncNode):
            continue
        for sub in ast.walk(f):
            if isinstance(sub, FuncNode):
                todo.setdefault(id(sub), (m, sub))

    def cells_of(mod):
        return process_state_cells(repo, mod)

    def memo_defect(mod, key: Tuple[str, ...]) -> Optional[str]:
        """None when every use of the cell anywhere in its module is a lookup / store / eviction keyed by the identity
        of parameters and every stored value is computed from those parameters only; else what is wrong."""
        cached = getattr(mod, "_c01_memo", None)
        if cached is None:
            cached = mod._c01_memo = {}  # type: ignore[attr-defined]
        if key in cached:
            return cached[key]
        why: Optional[str] = None
        n_lookups = 0
        for f in [x for x in ast.walk(mod.tree) if isinstance(x, FuncNode)]:
            occ = [o for o in _cell_occurrences(repo, mod, f, cells_of) if o[1] == key and o[4] is mod]
            if not occ or why:
                continue
            g = CFG(f, may_raise=_no_raise)
            for n, _k, label, _w, _o in occ:
                kind, k, v = _cell_access(n)
                if kind == "evict":
                    continue
                if kind in ("read", "rebind") or k is None:
                    why = f"`{norm(stmt_of(n))[:70]}` in {qualname_of(f)} uses it as a whole (not an entry looked up by a key)"
                    break
                use = _node_of(g, n)
                ident = _identity_key(g, k, use) if use is not None else None
                if ident is None:
                    kv = _val(g, k, use)[0] if use is not None else k
                    why = f"its entries are keyed by `{ast.unparse(kv)[:70]}` ({qualname_of(f)}), which is derived from the object and not the object itself: two different objects (e.g. two generated classes with the same __qualname__ / __name__) share one entry, the first one looked up decides what the later one gets"
                    break
                n_lookups += kind == "lookup"
                if v is not None:
                    inputs = _value_inputs(f, stmt_of(n), v)
                    local = _scope_locals(f)
                    other_state = sorted(x for x in inputs if x not in local and ("name", x) in cells_of(mod) and ("name", x) != key)
                    extra = sorted((inputs & _fn_params(f)) - ident)
                    if extra or other_state:
                        why = f"the entry stored by `{norm(stmt_of(n))[:60]}` in {qualname_of(f)} under {sorted(ident)} also depends on {extra + other_state}: a later lookup with the same key and another {'/'.join(extra + other_state)} gets the earlier value"
                        break
        cached[key] = why
        return why

    per_file: Dict[str, List[int]] = {}
    for m, f in sorted(todo.values(), key=lambda t: (t[0].rel, getattr(t[1], "lineno", 0))):
        cnt = per_file.setdefault(m.rel, [0, 0])
        cnt[0] += 1
        reported: Set[str] = set()
        for n, key, label, (site, writer), origin in _cell_occurrences(repo, m, f, cells_of):
            kind, _k, _v = _cell_access(n)
            if kind in ("write", "evict", "rebind") or label in reported:
                continue
            why = memo_defect(origin, key)
            if why is None:
                continue
            reported.add(label)
            cnt[1] += 1
            R.violation(r, m.rel, qualname_of(f), norm(stmt_of(n))[:110], f"`{label}` is process-lifetime mutable state (written by `{norm(site)[:70]}` in {writer}) and is read on the path that decides what a node computes; {why}. What was resolved / run earlier in the process (another node, an earlier or failed run) then decides this node's parameters, checks or writes, so the run no longer equals the documented semantics applied to its own configuration and payload", getattr(n, "lineno", 0))
    for rel, (nf, nbad) in sorted(per_file.items()):
        if not nbad:
            R.ok(r, rel, f"{nf} function(s)", "no process-lifetime state read on the node path", "", 0)
