"""C01 - pipeline execution matches the documented dual-channel node semantics.

Seven mechanisms, each a necessary condition of the statement:
D1 single source of parameter resolution (who-may-resolve, first-match chain, configuration kept as given),
D2 run-time type gate (and no data substitution before it), D3 probe pass-through / keyed write,
D4 declared-key enforcement, D5 strictly sequential loop that aborts on first failure,
D6 slicers map element-wise in order, D7 shorthand table agreement, D8 IO adapters,
D9 the payload's own context/data reach parameter resolution and the processor,
D10 accepted context writes/deletes are carried out by every forwarding layer (validation only rejects),
D11 the generated rename:/delete:/template: processors act whenever the consumed key was resolved.
The D1 first-match chain is decided from the truth table of the guards (sa/props/_chains.py), not from
the textual order of the `if` statements.
"""
from __future__ import annotations

import ast
import re
from typing import Dict, List, Optional, Set, Tuple

from ..cfg import CFG, edges_guaranteeing, reaching_defs, returns_only_through
from ..engine import (
    AnalysisError,
    FuncNode,
    Repo,
    ancestors,
    assigned_value,
    call_attr,
    call_name,
    calls_in,
    dotted_name,
    kwarg,
    norm,
    qualname_of,
    stmt_of,
    walk_no_nested,
)
from ..report import Report
from ._chains import PARAMRES, _resolved, _single_defs, exit_values, extract_chain
from ..pat import find, find1, match, name_of

NODES = "semantiva/pipeline/nodes/nodes.py"
PAYP = "semantiva/pipeline/payload_processors.py"
OBS = "semantiva/context_processors/context_observer.py"
DPROC = "semantiva/data_processors/data_processors.py"
CPROC = "semantiva/context_processors/context_processors.py"
SLICE = "semantiva/data_processors/data_slicer_factory.py"
RESOLVERS = "semantiva/registry/builtin_resolvers.py"
IOF = "semantiva/data_processors/io_operation_factory.py"
ORCH = "semantiva/execution/orchestrator/orchestrator.py"


def run(repo: Repo, R: Report) -> None:
    R.assume(
        "processors do what their declared metadata says (the statement's own premise)",
        "ContextType.set_value/get_value/keys are a plain mapping",
    )
    R.undecided("equality of a run's result with a reference interpreter for all programs and inputs (the statement as a whole); behaviour of user processors and IO back ends")
    nmod = repo.module(NODES)

    # ------------------------------------------------------------------ D1
    r_res = R.rule("C01-D1-single-source-of-resolution", "every node resolves run-time parameters through resolve_runtime_value with its own, unmodified node configuration and the run context; the chain there is config, then context, then default, else KeyError", 12)
    fetchers = [(qn, f) for qn, f in nmod.defs.items() if isinstance(f, FuncNode) and f.name == "_fetch_parameter_value"]
    if len(fetchers) < 2:
        raise AnalysisError(f"{len(fetchers)} _fetch_parameter_value definitions found (2 confirmed by reading)")
    for qn, f in fetchers:
        rets = [n for n in walk_no_nested(f) if isinstance(n, ast.Return)]
        ok = len(rets) == 1 and isinstance(rets[0].value, ast.Call) and call_attr(rets[0].value) == "resolve_runtime_value"
        if ok:
            c = rets[0].value
            ok = (dotted_name(kwarg(c, "name")) == f.args.args[1].arg and dotted_name(kwarg(c, "processor_config")) == "self.processor_config"
                  and dotted_name(kwarg(c, "context")) == f.args.args[2].arg and dotted_name(kwarg(c, "processor_cls")) == "self.processor.__class__")
            tgt = repo.resolve_call(nmod, c)
            ok = ok and len(tgt) == 1 and tgt[0][0].rel == PARAMRES
        R.check(ok, r_res, NODES, qn, "return resolve_runtime_value(name, self.processor.__class__, self.processor_config, context)", "a node resolves parameters by something other than the single-source resolver on its own configuration and the run context", f.lineno)
    # parameter dict = fetch for every processing parameter name
    gpp = repo.func(NODES, "_DataNode._get_processor_parameters")
    ctxp = gpp.args.args[1].arg
    lp = find1(gpp, f"for _n_ in _P_:\n    _D_[_n_] = self._fetch_parameter_value(_n_, {ctxp})")
    ok = lp is not None and any(ast.unparse(v) == "self.processor.get_processing_parameter_names()" for v in ([lp[1]["_P_"]] if not isinstance(lp[1]["_P_"], ast.Name) else assigned_value(gpp, lp[1]["_P_"].id))) and not any(isinstance(n, (ast.If, ast.Continue, ast.Break, ast.Try)) for n in ast.walk(gpp))
    if lp is None:
        dc = find1(gpp, f"{{_n_: self._fetch_parameter_value(_n_, {ctxp}) for _n_ in _P_}}")
        ok = dc is not None and "get_processing_parameter_names()" in ast.unparse(gpp)
    R.check(ok, r_res, NODES, "_DataNode._get_processor_parameters", "parameters[name] = _fetch_parameter_value(name, context) for every processing parameter", "some processing parameters bypass (or are skipped by) the resolver", gpp.lineno)
    # overrides that run the processor obtain kwargs from the resolver
    for qn, f in [(q, n) for q, n in nmod.defs.items() if isinstance(n, FuncNode) and n.name == "_process_single_item_with_context"]:
        proc_calls = [c for c in calls_in(f) if isinstance(c.func, ast.Attribute) and c.func.attr in ("process", "operate_context") and dotted_name(c.func.value) == "self.processor"]
        for c in proc_calls:
            star = [k.value for k in c.keywords if k.arg is None]
            ok = False
            for s in star:
                vals = assigned_value(f, s.id) if isinstance(s, ast.Name) else []
                direct = any(isinstance(v, ast.Call) and call_attr(v) == "_get_processor_parameters" for v in vals)
                looped = any(isinstance(n, ast.Assign) and any(isinstance(t, ast.Subscript) and dotted_name(t.value) == getattr(s, "id", None) for t in n.targets) and isinstance(n.value, ast.Call) and call_attr(n.value) == "_fetch_parameter_value" for n in ast.walk(f))
                ok = ok or direct or looped
            R.check(ok, r_res, NODES, qn, norm(c)[:80], "the processor is invoked with keyword arguments that do not come from the resolver", c.lineno)
    # configuration kept as given
    for cls_name in ("_DataNode", "_ContextProcessorNode"):
        init = repo.func(NODES, f"{cls_name}.__init__")
        stores = [n for n in walk_no_nested(init) if isinstance(n, ast.Assign) and any(dotted_name(t) == "self.processor_config" for t in n.targets)]
        ok = len(stores) == 1
        for s in stores:
            v = s.value
            names = {x.id for x in ast.walk(v) if isinstance(x, ast.Name)}
            calls = [c for c in ast.walk(v) if isinstance(c, ast.Call) and call_attr(c) not in ("dict", "copy")]
            ok = ok and names <= {"processor_config", "dict"} and "processor_config" in names and not calls and not any(isinstance(x, (ast.DictComp, ast.ListComp)) for x in ast.walk(v))
        later = [n for n in ast.walk(init) if (isinstance(n, ast.Call) and isinstance(n.func, ast.Attribute) and dotted_name(n.func.value) == "self.processor_config" and n.func.attr in ("pop", "update", "clear", "setdefault", "popitem")) or (isinstance(n, (ast.Delete,)) and "self.processor_config" in ast.unparse(n))]
        R.check(ok and not later, r_res, NODES, f"{cls_name}.__init__", "self.processor_config = processor_config (or {})", "the node configuration is transformed before use (entries dropped / rewritten): a configured value can lose its precedence over the context", init.lineno)
    rrv = repo.func(PARAMRES, "resolve_runtime_value")
    chain = extract_chain(rrv)
    want = [("config", "config"), ("context", "context"), ("default", "default"), ("always", "raise:KeyError")]
    R.check(chain == want, r_res, PARAMRES, "resolve_runtime_value", f"first-match chain {chain}", f"run-time precedence is not [config, context, default, KeyError]; got {chain}", rrv.lineno)
    # the values returned are the ones looked up under `name`
    # (role-based: every returned value is classified by the channel it reads, locals substituted)
    exits = exit_values(rrv)
    forms = {
        "config": ("processor_config[name]",),
        "context": ("context.get_value(name)", "context[name]"),
        "default": ("_default_for(processor_cls, name)", "_default_for(processor_cls=processor_cls, name=name)"),
    }
    bad_exit = next((f"`{ast.unparse(v)[:60]}` ({lab})" for lab, v in exits if ast.unparse(v) not in forms.get(lab, ())), None)
    ok = bad_exit is None and {lab for lab, _v in exits} == set(forms)
    R.check(ok, r_res, PARAMRES, "resolve_runtime_value", "returns config[name] / context.get_value(name) / _default_for(cls, name)", f"a channel returns something other than the value stored under the parameter's own name: {bad_exit or sorted({lab for lab, _v in exits})}", rrv.lineno)

    # ------------------------------------------------------------------ D2
    r_gate = R.rule("C01-D2-type-gate", "a data node runs only after issubclass(type(data), processor.input_data_type()) held for the data it is given (else TypeError), and the payload handed to the node is the caller's (only None is normalised)", 4)
    proc = repo.func(NODES, "_DataNode._process")
    g = CFG(proc, may_raise=lambda p: set())
    calls = [n for n in g.nodes if n.ast is not None and n.kind == "stmt" and any(call_attr(c) == "_process_single_item_with_context" for c in calls_in(n.ast))]
    if not calls:
        raise AnalysisError("_DataNode._process: call of _process_single_item_with_context not found")
    data_vars: Set[str] = set()
    type_vars: Set[str] = set()
    for n in walk_no_nested(proc):
        if isinstance(n, ast.Assign):
            txt = ast.unparse(n.value)
            for t in n.targets:
                for x in (t.elts if isinstance(t, ast.Tuple) else [t]):
                    if isinstance(x, ast.Name):
                        if "payload.data" in txt:
                            data_vars.add(x.id)
                        if "input_data_type()" in txt and "self.processor" in txt:
                            type_vars.add(x.id)

    def gate_atom(e: ast.AST) -> Optional[bool]:
        if isinstance(e, ast.Call) and call_attr(e) in ("issubclass", "isinstance") and len(e.args) == 2:
            a, b = e.args
            subj = a.args[0] if isinstance(a, ast.Call) and call_attr(a) == "type" and a.args else (a if call_attr(e) == "isinstance" else None)
            if subj is not None and (dotted_name(subj) in data_vars or dotted_name(subj) == "payload.data") and (dotted_name(b) in type_vars or "input_data_type()" in ast.unparse(b)):
                return True
        return None

    holds, path, guards = returns_only_through(g, gate_atom, targets=[n.id for n in calls])
    R.check(holds and guards > 0, r_gate, NODES, "_DataNode._process", "issubclass(type(data), input_type) dominates the node body", "a data node can run on data that is not an instance of its processor's declared input type", proc.lineno, path)
    gate_ifs = [n for n in g.nodes if n.kind == "if" and n.part is not None and edges_guaranteeing(n.part, gate_atom)]
    ok = bool(gate_ifs)
    for n in gate_ifs:
        other = n.ast.orelse if "T" in edges_guaranteeing(n.part, gate_atom) else n.ast.body
        ok = ok and bool(other) and isinstance(other[-1], ast.Raise) and "TypeError" in ast.unparse(other[-1])
    R.check(ok, r_gate, NODES, "_DataNode._process", "rejected data raises TypeError", "incompatible data does not raise TypeError at this node", proc.lineno)
    c0 = next(c for c in calls_in(calls[0].ast) if call_attr(c) == "_process_single_item_with_context")
    arg_txt = ast.unparse(c0.args[0]) if c0.args else ""
    R.check(any(v in arg_txt for v in data_vars) or "payload" == arg_txt, r_gate, NODES, "_DataNode._process", norm(c0)[:80], "the data that was type-checked is not the data handed to the node", proc.lineno)
    pp = repo.func(PAYP, "_PayloadProcessor.process")
    ok = True
    bad_stmt = None
    for n in ast.walk(pp):
        if isinstance(n, ast.Assign) and any(dotted_name(t) == "payload" for t in n.targets) and isinstance(n.value, ast.Call) and call_attr(n.value) == "Payload" and n.value.args:
            d0 = n.value.args[0]
            if ast.unparse(d0) == "payload.data":
                continue
            tests = [a.test for a in ancestors(n) if isinstance(a, ast.If) and any(x is n for s in a.body for x in ast.walk(s))]

            def none_atom(e: ast.AST) -> Optional[bool]:
                if isinstance(e, ast.Compare) and len(e.ops) == 1 and isinstance(e.ops[0], ast.Is) and isinstance(e.comparators[0], ast.Constant) and e.comparators[0].value is None and dotted_name(e.left) in ("payload", "payload.data"):
                    return True
                return None

            if not any("T" in edges_guaranteeing(t, none_atom) for t in tests):
                ok = False
                bad_stmt = n
    R.check(ok, r_gate, PAYP, "_PayloadProcessor.process", "data is replaced only when it is None", f"`{norm(bad_stmt)[:70]}` substitutes the caller's data before the node sees it: a node that must reject the data silently runs (and later nodes too)" if bad_stmt is not None else "", pp.lineno)

    # ------------------------------------------------------------------ D3
    r_probe = R.rule("C01-D3-probe-and-operation-dataflow", "probe nodes return the input data unchanged and write the probe result under self.context_key on every path; operation nodes return the processor result as data", 6)
    for qn in ("_ProbeContextInjectorNode._process_single_item_with_context", "_DataOperationContextInjectorProbeNode._process_single_item_with_context", "_ProbeResultCollectorNode._process_single_item_with_context"):
        f = repo.func(NODES, qn)
        rets = [n for n in walk_no_nested(f) if isinstance(n, ast.Return)]
        ok = bool(rets)
        for r in rets:
            v = r.value
            ok = ok and isinstance(v, ast.Call) and call_attr(v) == "Payload" and len(v.args) == 2
            if ok:
                d = v.args[0]
                vals = assigned_value(f, d.id) if isinstance(d, ast.Name) else [d]
                ok = bool(vals) and all(ast.unparse(x) == "payload.data" for x in vals)
        R.check(ok, r_probe, NODES, qn, "return Payload(<payload.data>, context)", "a probe node changes the data it passes on (e.g. returns the probe result)", f.lineno)
        if "Collector" in qn:
            continue
        gg = CFG(f, may_raise=lambda p: set())
        res_vars = {t.id for n in walk_no_nested(f) if isinstance(n, ast.Assign) and isinstance(n.value, ast.Call) and dotted_name(n.value.func) == "self.processor.process" for t in n.targets if isinstance(t, ast.Name)}

        def is_keyed_write(n) -> bool:
            if n.ast is None or n.kind != "stmt":
                return False
            for c in calls_in(n.ast):
                if call_attr(c) == "update_context" and len(c.args) >= 3 and dotted_name(c.args[1]) == "self.context_key":
                    v = c.args[2]
                    names = {x.id for x in ast.walk(v) if isinstance(x, ast.Name)}
                    src = set(names)
                    for a in ancestors(c):
                        if isinstance(a, ast.For):
                            src |= {x.id for x in ast.walk(a.iter) if isinstance(x, ast.Name)}
                    if src & res_vars:
                        return True
            return False

        # collection branch writes inside a loop: count the loop header as the write
        def covers(n) -> bool:
            if is_keyed_write(n):
                return True
            if n.kind == "for" and any(is_keyed_write(m) for m in gg.nodes if m.ast is not None and any(a is n.ast for a in ancestors(m.ast))):
                return True
            return False

        bad = gg.must_pass([gg.entry], [gg.ret_exit], covers)
        R.check(not bad and bool(res_vars), r_probe, NODES, qn, "update_context(context, self.context_key, <probe result>) on every path", "the probe result is not stored under the node's context key on some path (literal key, skipped when falsy, ...)", f.lineno, bad[0][1] if bad else None)
    f = repo.func(NODES, "_DataNode._process_single_item_with_context")
    rets = [n for n in walk_no_nested(f) if isinstance(n, ast.Return)]
    ok = len(rets) == 1 and isinstance(rets[0].value, ast.Call) and call_attr(rets[0].value) == "Payload"
    if ok:
        d = rets[0].value.args[0]
        vals = assigned_value(f, d.id) if isinstance(d, ast.Name) else [d]
        ok = bool(vals) and all(isinstance(v, ast.Call) and dotted_name(v.func) == "self.processor.process" for v in vals)
    R.check(ok, r_probe, NODES, "_DataNode._process_single_item_with_context", "return Payload(self.processor.process(data, **parameters), context)", "an operation node does not replace the data with the processor's result", f.lineno)

    # ------------------------------------------------------------------ D4
    r_keys = R.rule("C01-D4-declared-key-enforcement", "context writes/deletes are accepted only for declared keys: the validating observer and DataOperation._notify_context_update test membership before writing; context-processor nodes hand the processor a validating observer built from its own created/suppressed keys; the observer is reset after the call", 7)
    for meth, allowed in (("update", "self._allowed_context_keys"), ("delete", "self._allowed_suppressed_keys")):
        f = repo.func(OBS, f"_ValidatingContextObserver.{meth}")
        gg = CFG(f, may_raise=lambda p: set())
        supers = [n.id for n in gg.nodes if n.ast is not None and n.kind == "stmt" and any(isinstance(c.func, ast.Attribute) and c.func.attr == meth and isinstance(c.func.value, ast.Call) and call_attr(c.func.value) == "super" for c in calls_in(n.ast))]

        def member(e: ast.AST, allowed=allowed) -> Optional[bool]:
            if isinstance(e, ast.Compare) and len(e.ops) == 1 and isinstance(e.ops[0], (ast.In, ast.NotIn)) and dotted_name(e.left) == f.args.args[1].arg and dotted_name(e.comparators[0]) == allowed:
                return isinstance(e.ops[0], ast.In)
            return None

        holds, path, guards = returns_only_through(gg, member, targets=supers)
        R.check(holds and guards > 0 and bool(supers), r_keys, OBS, f"_ValidatingContextObserver.{meth}", f"key in {allowed} dominates super().{meth}", f"an undeclared key can be {'written' if meth == 'update' else 'deleted'} through the validating observer", f.lineno, path)
    vinit = repo.func(OBS, "_ValidatingContextObserver.__init__")
    src = ast.unparse(vinit)
    R.check("self._allowed_context_keys = set(context_keys)" in src and "self._allowed_suppressed_keys = set(suppressed_keys)" in src, r_keys, OBS, "_ValidatingContextObserver.__init__", "allowed sets = the constructor arguments", "the allowed key sets are not the declared created / suppressed keys", vinit.lineno)
    ncu = repo.func(DPROC, "DataOperation._notify_context_update")
    gg = CFG(ncu, may_raise=lambda p: set())
    writes = [n.id for n in gg.nodes if n.ast is not None and n.kind == "stmt" and any(call_attr(c) in ("set_value", "update", "update_context") for c in calls_in(n.ast))]

    def declared(e: ast.AST) -> Optional[bool]:
        if isinstance(e, ast.Compare) and len(e.ops) == 1 and isinstance(e.ops[0], (ast.In, ast.NotIn)) and dotted_name(e.left) == ncu.args.args[1].arg and "context_keys()" in ast.unparse(e.comparators[0]):
            return isinstance(e.ops[0], ast.In)
        return None

    holds, path, guards = returns_only_through(gg, declared, targets=writes)
    R.check(holds and guards > 0 and bool(writes), r_keys, DPROC, "DataOperation._notify_context_update", "key in self.context_keys() dominates the write", "a data operation can write a context key it did not declare", ncu.lineno, path)
    cpn = repo.func(NODES, "_ContextProcessorNode._process_single_item_with_context")
    oc = next((c for c in calls_in(cpn) if call_attr(c) == "operate_context"), None)
    ok = False
    if oc is not None:
        ob = kwarg(oc, "context_observer")
        vals = assigned_value(cpn, ob.id) if isinstance(ob, ast.Name) else []
        ok = bool(vals) and all(isinstance(v, ast.Call) and call_attr(v) == "_ValidatingContextObserver" for v in vals)
        if ok:
            v = vals[0]
            ck, sk = kwarg(v, "context_keys"), kwarg(v, "suppressed_keys")
            ckd = assigned_value(cpn, ck.id) if isinstance(ck, ast.Name) else [ck]
            skd = assigned_value(cpn, sk.id) if isinstance(sk, ast.Name) else [sk]
            ok = any("get_created_keys()" in ast.unparse(x) for x in ckd if x is not None) and any("get_suppressed_keys()" in ast.unparse(x) for x in skd if x is not None)
            ok = ok and all(isinstance(x, ast.List) and not x.elts or "get_created_keys()" in ast.unparse(x) for x in ckd if x is not None)
            ok = ok and all(isinstance(x, ast.List) and not x.elts or "get_suppressed_keys()" in ast.unparse(x) for x in skd if x is not None)
    R.check(ok, r_keys, NODES, "_ContextProcessorNode._process_single_item_with_context", "operate_context(context_observer=_ValidatingContextObserver(created keys, suppressed keys))", "a context processor runs with an observer that does not restrict it to its declared created / suppressed keys", cpn.lineno)
    ctx_locals = {t.id for n in walk_no_nested(cpn) if isinstance(n, ast.Assign) and ast.unparse(n.value).endswith(".context") for t in n.targets if isinstance(t, ast.Name)}
    bound = any(isinstance(n, ast.Assign) and dotted_name(n.targets[0]) and dotted_name(n.targets[0]).endswith(".observer_context") and dotted_name(n.value) in ctx_locals and not dotted_name(n.targets[0]).startswith("self.") for n in walk_no_nested(cpn))
    R.check(bound, r_keys, NODES, "_ContextProcessorNode._process_single_item_with_context", "validating_observer.observer_context = context", "the observer is not bound to the run's context", cpn.lineno)
    op = repo.func(CPROC, "ContextProcessor.operate_context")
    trys = [n for n in walk_no_nested(op) if isinstance(n, ast.Try) and n.finalbody]
    ok = bool(trys) and any(call_attr(c) == "_set_context_observer" and c.args and isinstance(c.args[0], ast.Constant) and c.args[0].value is None for st in trys[0].finalbody for c in calls_in(st)) and any(call_attr(c) == "_process_logic" for st in trys[0].body for c in calls_in(st))
    R.check(ok, r_keys, CPROC, "ContextProcessor.operate_context", "observer reset in finally around _process_logic", "the observer stays attached after the processor ran (a later write goes through a stale observer)", op.lineno)
    rets = [n for n in walk_no_nested(op) if isinstance(n, ast.Return)]
    R.check(len(rets) == 1 and dotted_name(rets[0].value) == "context", r_keys, CPROC, "ContextProcessor.operate_context", "return context", "operate_context does not return the run's context object", op.lineno)

    # ------------------------------------------------------------------ D5
    r_seq = R.rule("C01-D5-sequential-abort", "execute visits the instantiated nodes once each in list order, feeds each node the data/context produced by the previous one, and no handler inside the loop swallows a failure", 5)
    ex = repo.func(ORCH, "SemantivaOrchestrator.execute")
    loops = [n for n in walk_no_nested(ex) if isinstance(n, ast.For) and any(call_attr(c) == "_submit_and_wait" for c in calls_in(n))]
    if len(loops) != 1:
        raise AnalysisError("execute(): node loop not found")
    lp = loops[0]
    NODES_VAR = next((dotted_name(n.targets[0].elts[0]) for n in walk_no_nested(ex) if isinstance(n, ast.Assign) and isinstance(n.targets[0], ast.Tuple) and isinstance(n.value, ast.Call) and call_attr(n.value) == "_instantiate_nodes"), "__missing__")
    ok = isinstance(lp.iter, ast.Call) and call_attr(lp.iter) == "enumerate" and len(lp.iter.args) == 1 and dotted_name(lp.iter.args[0]) == NODES_VAR and not lp.iter.keywords
    R.check(ok, r_seq, ORCH, "SemantivaOrchestrator.execute", norm(lp), "nodes are not visited in list order exactly once", lp.lineno)
    nd = assigned_value(ex, "nodes")
    ok = True
    for n in walk_no_nested(ex):
        if isinstance(n, ast.Assign) and isinstance(n.targets[0], ast.Tuple) and any(dotted_name(e) == NODES_VAR for e in n.targets[0].elts):
            ok = isinstance(n.value, ast.Call) and call_attr(n.value) == "_instantiate_nodes"
    R.check(ok, r_seq, ORCH, "SemantivaOrchestrator.execute", "nodes, node_defs = self._instantiate_nodes(resolved_spec, logger)", "the node list is not the instantiated spec in order", ex.lineno)
    nc = next((n for n in ast.walk(lp) if isinstance(n, FuncNode) and any(call_attr(c) == "process" for c in calls_in(n))), None)
    payload_p = next((a.arg for a in ex.args.args if a.arg == "payload"), "payload")
    DATA = next((t.id for n in walk_no_nested(ex) if isinstance(n, ast.Assign) and ast.unparse(n.value) == f"{payload_p}.data" for t in n.targets if isinstance(t, ast.Name)), "__missing__")
    CONTEXT = next((t.id for n in walk_no_nested(ex) if isinstance(n, ast.Assign) and ast.unparse(n.value) == f"{payload_p}.context" for t in n.targets if isinstance(t, ast.Name)), "__missing__")
    ok = nc is not None and any(isinstance(c, ast.Call) and call_attr(c) == "process" and dotted_name(c.func.value) == lp.target.elts[1].id and c.args and ast.unparse(c.args[0]) == f"Payload({DATA}, {CONTEXT})" for c in ast.walk(nc))
    R.check(ok, r_seq, ORCH, "SemantivaOrchestrator.execute", "node.process(Payload(data, context))", "a node is not run on the current data/context pair", lp.lineno)
    g = CFG(ex, may_raise=lambda p: set())
    sub = next(n for n in g.nodes if n.ast is not None and n.kind == "stmt" and any(call_attr(c) == "_submit_and_wait" for c in calls_in(n.ast)))
    heads = g.nodes_for(lp)
    upd = [n for n in g.nodes if n.ast is not None and isinstance(n.ast, ast.Assign) and isinstance(n.ast.targets[0], ast.Tuple) and [dotted_name(e) for e in n.ast.targets[0].elts] == [DATA, CONTEXT]]
    ok = False
    if upd:
        rhs = upd[0].ast.value
        src_names = {x.id for x in ast.walk(rhs) if isinstance(x, ast.Name)}
        res_var = next((t.id for t in sub.ast.targets if isinstance(t, ast.Name)), None) if isinstance(sub.ast, ast.Assign) else None
        chain_ok = res_var in src_names or any(res_var in {x.id for x in ast.walk(v) if isinstance(x, ast.Name)} for nm in src_names for v in assigned_value(ex, nm))
        saved = {h: g.succ[h] for h in heads}
        for h in heads:
            g.succ[h] = []
        try:
            bad = g.must_pass([t for t, lab in g.succ[sub.id] if lab == "n"], heads, lambda n: n.id == upd[0].id)
        finally:
            for h, v in saved.items():
                g.succ[h] = v
        ok = chain_ok and not bad
    R.check(ok, r_seq, ORCH, "SemantivaOrchestrator.execute", "data, context = <result of this node> before the next iteration", "the next node does not receive this node's output (data/context not carried forward)", lp.lineno)
    handlers = [h for n in ast.walk(lp) if isinstance(n, ast.Try) and any(call_attr(c) == "_submit_and_wait" for st in n.body for c in calls_in(st)) for h in n.handlers]
    ok = bool(handlers) and all(isinstance(h.body[-1], ast.Raise) and not any(isinstance(x, (ast.Continue, ast.Break, ast.Return)) for x in ast.walk(h)) for h in handlers)
    R.check(ok, r_seq, ORCH, "SemantivaOrchestrator.execute", "handlers around node execution re-raise", "a node failure is swallowed inside the loop: later nodes still run", lp.lineno)

    # ------------------------------------------------------------------ D6
    r_sl = R.rule("C01-D6-slicers", "generated slicing processors iterate their input directly, call the wrapped processor once per element with the same extra arguments, and append results in that order", 2)
    create = repo.func(SLICE, "_SlicingDataProcessorFactory.create")
    procs = [n for n in ast.walk(create) if isinstance(n, FuncNode) and n.name == "process"]
    if len(procs) != 2:
        raise AnalysisError(f"slicer factory: {len(procs)} process overrides found (2 confirmed by reading)")
    for p in procs:
        loops = [n for n in walk_no_nested(p) if isinstance(n, ast.For)]
        ok = len(loops) == 1
        if ok:
            it = loops[0].iter
            base = it.args[0] if isinstance(it, ast.Call) and call_attr(it) == "enumerate" and it.args else it
            ok = isinstance(base, ast.Name) and base.id == p.args.args[1].arg
            sc = [c for c in calls_in(loops[0]) if isinstance(c.func, ast.Attribute) and c.func.attr == "process" and isinstance(c.func.value, ast.Call) and call_attr(c.func.value) == "super"]
            item = loops[0].target.elts[-1].id if isinstance(loops[0].target, ast.Tuple) else getattr(loops[0].target, "id", None)
            ok = ok and len(sc) == 1 and dotted_name(sc[0].args[0]) == item and any(isinstance(a, ast.Starred) for a in sc[0].args) and any(k.arg is None for k in sc[0].keywords)
            ok = ok and any(call_attr(c) == "append" for c in calls_in(loops[0])) and not any(isinstance(x, (ast.If, ast.Continue, ast.Break)) for x in ast.walk(loops[0]))
        R.check(ok, r_sl, SLICE, qualname_of(p), "for item in data: out.append(super().process(item, *args, **kwargs))", "a slicer does not map the wrapped processor over the elements in order with the resolved parameters", p.lineno)

    # ------------------------------------------------------------------ D7
    r_sh = R.rule("C01-D7-shorthand-table", "each registered shorthand prefix is handled by the resolver whose pattern starts with that prefix, and the pattern's groups feed the matching factory arguments in order", 4)
    rmod = repo.module(RESOLVERS)
    regs = {}
    reg_fn = repo.func(RESOLVERS, "register_builtin_resolvers")
    for c in calls_in(reg_fn):
        if call_name(c) == "NameResolverRegistry.register_resolver" and len(c.args) == 2 and isinstance(c.args[0], ast.Constant):
            regs[c.args[0].value] = dotted_name(c.args[1])
    patterns = {}
    for st in rmod.tree.body:
        if isinstance(st, ast.Assign) and isinstance(st.value, ast.Call) and call_name(st.value) == "re.compile" and st.value.args and isinstance(st.value.args[0], ast.Constant):
            patterns[dotted_name(st.targets[0])] = st.value.args[0].value
    expected = {"rename:": ("_context_renamer_factory", ["src", "dst"]), "delete:": ("_context_deleter_factory", ["key"]), "template:": ("_context_template_factory", ["template", "out"]), "slice:": ("slice", ["proc", "collection"])}
    for prefix, (factory, groups) in expected.items():
        fn_name = regs.get(prefix)
        f = rmod.defs.get(fn_name or "")
        ok = isinstance(f, FuncNode)
        if ok:
            used = [dotted_name(c.func.value) for c in calls_in(f) if call_attr(c) == "match" and isinstance(c.func, ast.Attribute)]
            pat = patterns.get(used[0]) if used else None
            ok = pat is not None and pat.startswith("^" + prefix)
            fc = [c for c in ast.walk(f) if isinstance(c, ast.Call) and call_attr(c) == factory]
            got = []
            if fc:
                for a in list(fc[-1].args) + [k.value for k in fc[-1].keywords]:
                    for g2 in ast.walk(a):
                        if isinstance(g2, ast.Call) and call_attr(g2) == "group" and g2.args and isinstance(g2.args[0], ast.Constant):
                            got.append(g2.args[0].value)
                            break
                    else:
                        # slice: groups flow through locals
                        for nm in {x.id for x in ast.walk(a) if isinstance(x, ast.Name)}:
                            for v in assigned_value(f, nm):
                                for g2 in ast.walk(v):
                                    if isinstance(g2, ast.Call) and call_attr(g2) == "group" and g2.args and isinstance(g2.args[0], ast.Constant):
                                        got.append(g2.args[0].value)
            ok = ok and got == groups
            if ok and factory == "_context_template_factory":
                kws = [k.arg for k in fc[-1].keywords]
                ok = kws == ["template", "output_key"]
        R.check(ok, r_sh, RESOLVERS, fn_name or prefix, f"{prefix} -> {factory}({', '.join(groups)})", f"shorthand {prefix} is not resolved by its own pattern with the groups in the documented argument order", getattr(f, "lineno", 0))

    # ------------------------------------------------------------------ D8
    r_io = R.rule("C01-D8-io-adapters", "sink adapters return the data they were given after sending it; source adapters return what the source produced and ignore their input", 4)
    iof = repo.func(IOF, "_IOOperationFactory.create_data_operation")
    logics = [n for n in ast.walk(iof) if isinstance(n, FuncNode) and n.name.startswith("_process_logic")]
    n_seen = 0
    for lf in logics:
        calls_io = [c for c in calls_in(lf) if call_attr(c) in ("send_data", "_send_data", "send_payload", "_send_payload", "get_data", "_get_data", "get_payload", "_get_payload")]
        if not calls_io:
            continue
        n_seen += 1
        kind = "sink" if any("send" in call_attr(c) for c in calls_io) else "source"
        rets = [n for n in walk_no_nested(lf) if isinstance(n, ast.Return) and n.value is not None]
        data_param = lf.args.args[1].arg if len(lf.args.args) > 1 else "data"
        if kind == "sink":
            ok = bool(rets) and all(dotted_name(r.value) == data_param for r in rets) and not any(isinstance(n, ast.Assign) and any(dotted_name(t) == data_param for t in n.targets) for n in ast.walk(lf))
            R.check(ok, r_io, IOF, qualname_of(lf), f"sink adapter returns `{data_param}` unchanged", "a sink adapter returns something other than the data it received", lf.lineno)
        else:
            ok = bool(rets)
            for r in rets:
                names = {x.id for x in ast.walk(r.value) if isinstance(x, ast.Name)}
                ok = ok and data_param not in names
            R.check(ok, r_io, IOF, qualname_of(lf), "source adapter returns the loaded value, not its input", "a source adapter passes its input through", lf.lineno)
    if n_seen < 4:
        raise AnalysisError(f"IO adapter templates: {n_seen} _process_logic bodies recognised (4 confirmed by reading)")

    _rule_run_inputs(repo, R, nmod)
    _rule_forwarding(repo, R)
    _rule_shorthand_processors(repo, R)


# ---------------------------------------------------------------------- D9
def _no_raise(_part: ast.AST) -> Set[str]:
    return set()


def _assigned_component(st: ast.AST, name: str) -> Optional[ast.AST]:
    """The expression bound to *name* by assignment statement *st* (`a = e`, `a, b = e1, e2`, `a: T = e`)."""
    if isinstance(st, ast.AnnAssign):
        return st.value if isinstance(st.target, ast.Name) and st.target.id == name else None
    if not isinstance(st, ast.Assign):
        return None
    for t in st.targets:
        if isinstance(t, ast.Name) and t.id == name:
            return st.value
        if isinstance(t, (ast.Tuple, ast.List)) and isinstance(st.value, (ast.Tuple, ast.List)) and len(t.elts) == len(st.value.elts):
            for te, ve in zip(t.elts, st.value.elts):
                if isinstance(te, ast.Name) and te.id == name:
                    return ve
    return None


def _is_run_input(g: CFG, e: ast.AST, use: int, payload_p: str, attr: str, depth: int = 0) -> bool:
    """Does expression *e*, evaluated at CFG node *use*, necessarily denote `<payload>.<attr>` of the
    payload the method was called with?  Locals are followed through their reaching definitions;
    `self.<x>` is accepted when every store to it in the method stores the run input and one of
    them dominates the use."""
    if depth > 8:
        return False
    dn = dotted_name(e)
    if dn == f"{payload_p}.{attr}":
        return not reaching_defs(g, payload_p, use)  # the parameter itself, not a rebound local
    if isinstance(e, ast.Name):
        defs = reaching_defs(g, e.id, use)
        if not defs:
            return False
        for d in defs:
            v = _assigned_component(d.ast, e.id) if d.kind == "stmt" else None
            if v is None or not _is_run_input(g, v, d.id, payload_p, attr, depth + 1):
                return False
        return True
    if dn and dn.startswith("self.") and dn.count(".") == 1:
        stores = [n for n in g.nodes if n.kind == "stmt" and isinstance(n.ast, ast.Assign) and any(dotted_name(t) == dn for t in n.ast.targets)]
        if not stores or not all(_is_run_input(g, s.ast.value, s.id, payload_p, attr, depth + 1) for s in stores):
            return False
        return any(g.dominated_by_node(use, s.id) for s in stores if s.id != use)
    return False


def _rule_run_inputs(repo: Repo, R: Report, nmod) -> None:
    r = R.rule("C01-D9-run-inputs-reach-the-processor", "in every node body the context handed to parameter resolution (and to operate_context) is the context of the payload the node was given, and the data handed to the processor is that payload's data", 10)
    for qn, f in [(q, n) for q, n in nmod.defs.items() if isinstance(n, FuncNode) and n.name == "_process_single_item_with_context"]:
        if len(f.args.args) < 2:
            continue
        payload_p = f.args.args[1].arg
        g = CFG(f, may_raise=_no_raise)

        def use_of(c: ast.Call) -> Optional[int]:
            ids = g.nodes_for(stmt_of(c))
            return ids[0] if ids else None

        for c in calls_in(f):
            if not isinstance(c.func, ast.Attribute):
                continue
            recv, meth = dotted_name(c.func.value), c.func.attr
            wanted: List[Tuple[Optional[ast.AST], str, str]] = []
            if recv == "self" and meth == "_get_processor_parameters":
                wanted.append((c.args[0] if c.args else kwarg(c, "context"), "context", "parameters are resolved against"))
            elif recv == "self" and meth == "_fetch_parameter_value":
                wanted.append((c.args[1] if len(c.args) > 1 else kwarg(c, "context"), "context", "parameters are resolved against"))
            elif recv == "self.processor" and meth == "process":
                wanted.append((c.args[0] if c.args else kwarg(c, "data"), "data", "the processor is run on"))
            elif recv == "self.processor" and meth == "operate_context":
                wanted.append((kwarg(c, "context") or (c.args[0] if c.args else None), "context", "the context processor operates on"))
            for e, attr, what in wanted:
                use = use_of(c)
                ok = e is not None and use is not None and _is_run_input(g, e, use, payload_p, attr)
                R.check(ok, r, NODES, qn, norm(c)[:90], f"{what} `{ast.unparse(e) if e is not None else '?'}`, which is not (provably) `{payload_p}.{attr}` of the payload this node received: values placed in the pipeline context (initial context, keys written by earlier nodes) are invisible to this node / it works on other data", c.lineno)


# ---------------------------------------------------------------------- D10
def _rule_forwarding(repo: Repo, R: Report) -> None:
    r = R.rule("C01-D10-accepted-writes-and-deletes-are-carried-out", "between a processor's _notify_context_update/_notify_context_deletion and the context mapping no layer skips the operation: every normally-returning path of each forwarding method performs the forwarding call with the caller's key (validation may only reject by raising), so a declared write happens and deleting an absent key fails at this node", 8)

    def forwarded(rel: str, qn: str, is_fwd, what: str, bad: str) -> None:
        f = repo.func(rel, qn)
        g = CFG(f, may_raise=_no_raise)
        fwd = {n.id for n in g.nodes if n.ast is not None and n.kind == "stmt" and is_fwd(f, n.ast)}
        miss = g.must_pass([g.entry], [g.ret_exit], lambda n: n.id in fwd)
        R.check(bool(fwd) and not miss, r, rel, qn, what, bad, f.lineno, miss[0][1] if miss else None)
        # a handler around the forwarding call that does not re-raise turns the prescribed failure into a skip
        for t in [n for n in walk_no_nested(f) if isinstance(n, ast.Try)]:
            if any(is_fwd(f, st) for b in t.body for st in ast.walk(b) if isinstance(st, ast.stmt)):
                for h in t.handlers:
                    if not (h.body and isinstance(h.body[-1], ast.Raise)):
                        R.violation(r, rel, qn, norm(h)[:80], f"the failure of the forwarded operation is caught and not re-raised ({what}): the node completes although the operation failed, later nodes run", h.lineno)

    def key_param(f) -> str:
        names = [a.arg for a in f.args.args]
        return names[1] if names and names[0] in ("self", "cls") else names[1] if len(names) > 1 and names[0] == "context" else (names[0] if names else "key")

    # validating observer -> base observer
    for meth in ("update", "delete"):
        def is_super(f, st, meth=meth) -> bool:
            return any(isinstance(c.func, ast.Attribute) and c.func.attr == meth and isinstance(c.func.value, ast.Call) and call_attr(c.func.value) == "super" and c.args and dotted_name(c.args[0]) == f.args.args[1].arg for c in calls_in(st))
        forwarded(OBS, f"_ValidatingContextObserver.{meth}", is_super, f"every accepted key reaches super().{meth}(key, ...)",
                  f"a declared key is accepted but the {meth} is skipped on some path (extra condition after the membership test): " + ("deleting a key that is not in the context no longer raises KeyError at this node, the node completes and later nodes run" if meth == "delete" else "a declared write is silently dropped"))
    # base observer -> static helpers on the bound context
    for meth, helper in (("update", "update_context"), ("delete", "delete_context")):
        def is_helper(f, st, helper=helper) -> bool:
            return any(call_attr(c) == helper and len(c.args) >= 2 and dotted_name(c.args[0]) == "self.observer_context" and dotted_name(c.args[1]) == f.args.args[1].arg for c in calls_in(st))
        forwarded(OBS, f"_ContextObserver.{meth}", is_helper, f"{helper}(self.observer_context, key, ...) on every path", f"the observer does not apply the {meth} to its bound context on some path")
    # static helpers -> the mapping
    for helper, muts in (("update_context", ("set_value", "set_item_value")), ("delete_context", ("delete_value", "delete_item_value"))):
        def is_mut(f, st, muts=muts) -> bool:
            ctx_p, key_p = f.args.args[0].arg, f.args.args[1].arg
            for c in calls_in(st):
                if isinstance(c.func, ast.Attribute) and c.func.attr in muts and dotted_name(c.func.value) == ctx_p and any(dotted_name(a) == key_p for a in c.args):
                    return True
            tg: List[ast.AST] = []
            if isinstance(st, ast.Assign) and muts[0] == "set_value":
                tg = list(st.targets)
            if isinstance(st, ast.Delete) and muts[0] == "delete_value":
                tg = list(st.targets)
            return any(isinstance(t, ast.Subscript) and dotted_name(t.slice) == key_p and ctx_p in {x.id for x in ast.walk(t.value) if isinstance(x, ast.Name)} for t in tg)
        forwarded(OBS, f"_ContextObserver.{helper}", is_mut, f"every path mutates `context` under `key` ({'/'.join(muts)} or item store)", f"{helper} returns normally on some path without touching the context")
    # context processor -> its observer
    for meth, obs_meth in (("_notify_context_update", "update"), ("_notify_context_deletion", "delete")):
        def is_obs(f, st, obs_meth=obs_meth) -> bool:
            return any(isinstance(c.func, ast.Attribute) and c.func.attr == obs_meth and dotted_name(c.func.value) == "self._context_observer" and c.args and dotted_name(c.args[0]) == f.args.args[1].arg for c in calls_in(st))
        forwarded(CPROC, f"ContextProcessor.{meth}", is_obs, f"self._context_observer.{obs_meth}(key, ...) on every path", f"a context processor's {obs_meth} request is dropped on some path instead of being forwarded to the (validating) observer")


# ---------------------------------------------------------------------- D11
CFACT = "semantiva/context_processors/factory.py"


def _rule_shorthand_processors(repo: Repo, R: Report) -> None:
    r = R.rule("C01-D11-shorthand-processors-act-on-presence", "the processors generated for rename:/delete:/template: perform their declared write/delete whenever the consumed key was resolved (the only condition allowed in front of it is the presence test `key in kwargs`; a test on the resolved *value*, `kwargs.get(key) is not None` included, skips a key that is present and holds None / 0 / ''), on the declared keys, with the resolved value", 4)

    def logic_of(factory: str) -> Tuple[ast.AST, ast.AST]:
        fac = repo.func(CFACT, factory)
        fns = [n for n in ast.walk(fac) if isinstance(n, FuncNode) and n is not fac and any(call_attr(c) in ("_notify_context_update", "_notify_context_deletion") for c in calls_in(n))]
        if len(fns) != 1 or fns[0].args.kwarg is None:
            raise AnalysisError(f"{factory}: generated _process_logic(self, **kwargs) not found")
        return fac, fns[0]

    def analyse(factory: str, consumed_idx: Optional[int], expect: List[Tuple[str, int]]) -> None:
        fac, f = logic_of(factory)
        fparams = [a.arg for a in fac.args.args]
        kw = f.args.kwarg.arg
        defs = _single_defs(f)
        consumed = fparams[consumed_idx] if consumed_idx is not None else None

        def reads_consumed(e: ast.AST) -> bool:
            e = _resolved(e, defs)
            if isinstance(e, ast.Call) and isinstance(e.func, ast.Attribute) and e.func.attr == "get" and dotted_name(e.func.value) == kw and len(e.args) == 1 and not e.keywords:
                return dotted_name(e.args[0]) == consumed
            return isinstance(e, ast.Subscript) and dotted_name(e.value) == kw and dotted_name(e.slice) == consumed

        def absent(e: ast.AST) -> Optional[bool]:
            """True: *e* says the consumed key was not resolved; False: it says it was."""
            if isinstance(e, ast.Name) and e.id in defs:
                return absent(defs[e.id])
            if isinstance(e, ast.Compare) and len(e.ops) == 1:
                op, a, b = e.ops[0], e.left, e.comparators[0]
                if isinstance(op, (ast.In, ast.NotIn)) and dotted_name(a) == consumed and dotted_name(b) == kw:
                    return isinstance(op, ast.NotIn)
            return None

        g = CFG(f, may_raise=_no_raise)
        blocked: Set[Tuple[int, str]] = set()
        if consumed is not None:
            for n in g.nodes:
                if n.kind in ("if", "while") and n.part is not None:
                    for lab in edges_guaranteeing(n.part, absent):
                        blocked.add((n.id, lab))
        for meth, key_idx in expect:
            want_key = fparams[key_idx]
            sites = {n.id for n in g.nodes if n.ast is not None and n.kind == "stmt" and any(call_attr(c) == meth and dotted_name(c.func) == f"{f.args.args[0].arg}.{meth}" and c.args and dotted_name(c.args[0]) == want_key for c in calls_in(n.ast))}
            miss = g.must_pass([g.entry], [g.ret_exit], lambda n: n.id in sites, blocked_edges=blocked)
            tests = sorted({ast.unparse(n.part)[:50] for n in g.nodes if n.kind in ("if", "while") and n.part is not None and not edges_guaranteeing(n.part, absent)})
            R.check(bool(sites) and not miss, r, CFACT, f"{factory}._process_logic", f"self.{meth}({want_key}, ...) whenever the key was resolved",
                    f"the generated processor can finish without `{meth}({want_key})` although the consumed key was resolved" + (f" (guarded by `{tests[0]}`, which is not the presence test: a key that is present and holds None / 0 / False / '' / [] is neither renamed nor deleted, later nodes see the wrong context)" if tests else ""), f.lineno, miss[0][1] if miss else None)
            if meth == "_notify_context_update" and consumed is not None:
                vals = [c.args[1] for c in calls_in(f) if call_attr(c) == meth and len(c.args) == 2]
                R.check(bool(vals) and all(reads_consumed(v) for v in vals), r, CFACT, f"{factory}._process_logic", f"the value written under {want_key} is the resolved value of {consumed}", "the destination key does not receive the value resolved for the source key", f.lineno)

    analyse("_context_renamer_factory", 0, [("_notify_context_update", 1), ("_notify_context_deletion", 0)])
    analyse("_context_deleter_factory", 0, [("_notify_context_deletion", 0)])
    analyse("_context_template_factory", None, [("_notify_context_update", 1)])
