"""C01 - pipeline execution matches the documented dual-channel node semantics.

Seven mechanisms, each a necessary condition of the statement:
D1 single source of parameter resolution (who-may-resolve, first-match chain, configuration kept as given),
D2 run-time type gate (and no data substitution before it), D3 probe pass-through / keyed write,
D4 declared-key enforcement, D5 strictly sequential loop that aborts on first failure,
D6 slicers map element-wise in order, D7 shorthand table agreement, D8 IO adapters,
D9 the payload's own context/data reach parameter resolution and the processor,
D10 accepted context writes/deletes are carried out by every forwarding layer (validation only rejects),
D11 the generated rename:/delete:/template: processors act whenever the consumed key was resolved,
D12 nothing on the resolution / gate / observer / generated-processor path reads process-lifetime state (module-level
or class-level cells written at run time), except a table looked up by the identity of the objects its entries
were computed from.
D13 a payload-source node (found by role: the node class that uses the payload-source-only interface / that the node
factory derives from on its PayloadSource branch) buffers what the source injects and merges it into the run's context
behind `key in context -> KeyError`, D14 the template: processor renders with the placeholder grammar that named its
parameters (extraction side and rendering side of factory.py agree: string.Formatter on both), filling each field with
the value resolved under its name, D15 the logarithm that computes the exponents of a numpy.logspace range on the node
path is the one of logspace's base (log-scaled parameter sweeps hand the processor lo..hi).
D16 the processor entry points a node spreads the resolved parameters into (process / operate_context and generated
overrides, found as the methods of that name in the processor family) bind by name only what the node passes explicitly
and hand their ** mapping on unchanged (a new `index=None` keyword would swallow a context key called `index`),
D17 a generated wrapper processor forwards to the wrapped element every collection of names it advertises on the
element's behalf (name-set algebra over the factory's collections: advertised atoms vs. atoms the selection draws from).
The D1 first-match chain is decided from the truth table of the guards (sa/props/_chains.py) of the resolver's
normal form (`match` lowered, split-off helpers absorbed), not from the textual order of the `if` statements.
Anchors are found by role, not by name: the functions that resolve a node's parameters (fetcher / mapping builder,
method or module-level function, any name) are whatever the node bodies call in that position (`_Resolution`,
following repo.resolve_call); the functions that keep the node configuration are those that store
`<node>.processor_config`; the orchestrator's node list is the sequence whose elements the submitted callable runs,
and the loop is accepted in any spelling that visits every item once in order (`_traversal`: enumerate / zip with
lists built side by side / index loop / iter).
Rules that look inside a function body analyse its normal form (sa/normal.py: new private helpers inlined)
and speak about values, not spellings: a local is followed through the definitions that reach the point of
use (`_val`/`_vals`/`_is_param`/`_rooted_in_param`), a named condition counts as the condition it names
(`_edges`/`_only_through`), call arguments are bound by parameter name (`_call_args`).
"""
from __future__ import annotations

import ast
import re
from typing import Dict, List, Optional, Set, Tuple

from ..cfg import CFG, edges_guaranteeing, reaching_defs, returns_only_through
from ..engine import (
    AnalysisError,
    FuncNode,
    Repo,
    ancestors,
    assigned_value,
    call_attr,
    call_name,
    calls_in,
    dotted_name,
    kwarg,
    norm,
    qualname_of,
    stmt_of,
    walk_no_nested,
)
from ..report import Report
from ._chains import PARAMRES, _resolved, _single_defs, default_lookups, exit_values, extract_chain, is_default_lookup, sentinel_names
from ..pat import find, find1, match, name_of

from ..engine import mutation_sites, parent
from ..normal import nfunc

NODES = "semantiva/pipeline/nodes/nodes.py"
PAYP = "semantiva/pipeline/payload_processors.py"
OBS = "semantiva/context_processors/context_observer.py"
DPROC = "semantiva/data_processors/data_processors.py"
CPROC = "semantiva/context_processors/context_processors.py"
SLICE = "semantiva/data_processors/data_slicer_factory.py"
RESOLVERS = "semantiva/registry/builtin_resolvers.py"
IOF = "semantiva/data_processors/io_operation_factory.py"
ORCH = "semantiva/execution/orchestrator/orchestrator.py"
PIPELINE = "semantiva/pipeline/pipeline.py"


# ---------------------------------------------------------------------- value tracing
# The rules below speak about *values* ("the mapping handed to the processor", "the key parameter",
# "the payload's data"), not about the spelling of the statement that produces them: a local name is
# followed through the definitions that reach the point of use (CFG reaching definitions, tuple
# unpacking included), a named condition is read as the condition it names.
KEEP = ("_get_processor_parameters", "_fetch_parameter_value", "_process_single_item_with_context", "_process")


def _nf(repo: Repo, rel: str, qn: str) -> ast.AST:
    """Normal form of a function (new private helpers inlined, if/else of one statement merged);
    the helpers the rules know by name stay calls."""
    return nfunc(repo, rel, qn, keep=KEEP)


def _node_of(g: CFG, n: ast.AST) -> Optional[int]:
    """CFG node at which *n* (statement or expression) is evaluated."""
    cur: Optional[ast.AST] = n
    while cur is not None and cur is not g.func:
        ids = g.nodes_for(cur)
        if ids:
            return ids[0]
        cur = parent(cur)
    return None


def _fn_params(fn: ast.AST) -> Set[str]:
    a = fn.args
    out = {x.arg for x in list(a.posonlyargs) + list(a.args) + list(a.kwonlyargs)}
    if a.vararg:
        out.add(a.vararg.arg)
    if a.kwarg:
        out.add(a.kwarg.arg)
    return out


def _defines(n, name: str) -> bool:
    a = n.ast
    if a is None:
        return False
    if n.kind == "stmt" and isinstance(a, (ast.Assign, ast.AnnAssign, ast.AugAssign)):
        tgts = a.targets if isinstance(a, ast.Assign) else [a.target]
        return any(isinstance(x, ast.Name) and x.id == name and isinstance(x.ctx, ast.Store) for t in tgts for x in ast.walk(t))
    if n.kind == "for" and isinstance(a, ast.For):
        return any(isinstance(x, ast.Name) and x.id == name for x in ast.walk(a.target))
    if n.kind == "with" and isinstance(a, ast.With):
        return any(it.optional_vars is not None and any(isinstance(x, ast.Name) and x.id == name for x in ast.walk(it.optional_vars)) for it in a.items)
    if n.kind == "except" and isinstance(a, ast.ExceptHandler):
        return a.name == name
    return False


def _bound_values(g: CFG, name: str, use: int) -> Optional[List[Tuple[ast.AST, int]]]:
    """(expression, CFG node where it was evaluated) for every binding of local *name* that can
    reach node *use*; None when one of them is not a plain assignment (loop target, `with`/`except`
    name, augmented assignment, unpacking of a non-tuple).  A parameter whose entry value can
    still reach *use* contributes itself at the entry node.  [] = never bound here (global/builtin)."""
    out: List[Tuple[ast.AST, int]] = []
    defs = reaching_defs(g, name, use)
    for d in defs:
        v = _assigned_component(d.ast, name) if d.kind == "stmt" else None
        if v is None:
            return None
        out.append((v, d.id))
    if name in _fn_params(g.func) and use != g.entry:
        if not defs:
            return []
        all_defs = {n.id for n in g.nodes if _defines(n, name)}
        if use in g.reach([g.entry], blocked=all_defs - {use}):
            out.append((ast.Name(id=name, ctx=ast.Load()), g.entry))
    return out


def _val(g: CFG, e: ast.AST, use: int) -> Tuple[ast.AST, int]:
    """Follow a local name to the expression it stands for (while exactly one plain binding reaches)."""
    for _ in range(12):
        if isinstance(e, ast.NamedExpr):
            e = e.value
            continue
        if not isinstance(e, ast.Name):
            break
        b = _bound_values(g, e.id, use)
        if not b or len(b) != 1 or (isinstance(b[0][0], ast.Name) and b[0][0].id == e.id and b[0][1] == g.entry):
            break
        e, use = b[0]
    return e, use


def _vals(g: CFG, e: ast.AST, use: int, depth: int = 0) -> Optional[List[Tuple[ast.AST, int]]]:
    """Every expression *e* can stand for at *use* (all reaching bindings, both arms of a
    conditional expression); None when a binding cannot be followed."""
    if depth > 12:
        return None
    if isinstance(e, ast.NamedExpr):
        return _vals(g, e.value, use, depth + 1)
    if isinstance(e, ast.IfExp):
        a, b = _vals(g, e.body, use, depth + 1), _vals(g, e.orelse, use, depth + 1)
        return None if a is None or b is None else a + b
    if isinstance(e, ast.Name):
        bs = _bound_values(g, e.id, use)
        if bs is None:
            return None
        if not bs:
            return [(e, use)]
        out: List[Tuple[ast.AST, int]] = []
        for v, d in bs:
            if isinstance(v, ast.Name) and v.id == e.id and d == g.entry:
                out.append((v, d))
                continue
            r = _vals(g, v, d, depth + 1)
            if r is None:
                return None
            out += r
        return out
    return [(e, use)]


def _is_param(g: CFG, e: Optional[ast.AST], use: int, p: str) -> bool:
    """*e* necessarily denotes the value parameter *p* had on entry."""
    if e is None:
        return False
    vs = _vals(g, e, use)
    return bool(vs) and all(isinstance(v, ast.Name) and v.id == p and (u == g.entry or not reaching_defs(g, p, u)) for v, u in vs)


def _rooted_in_param(g: CFG, e: ast.AST, use: int, p: str, depth: int = 0) -> bool:
    """*e* is an attribute/item path into the object parameter *p* was bound to on entry
    (`p`, `p.maps[0]`, a local alias of either)."""
    if depth > 10:
        return False
    while isinstance(e, (ast.Attribute, ast.Subscript)):
        e = e.value
    if not isinstance(e, ast.Name):
        return False
    bs = _bound_values(g, e.id, use)
    if bs is None:
        return False
    if not bs:
        return e.id == p
    return all((isinstance(v, ast.Name) and v.id == p and d == g.entry) if (isinstance(v, ast.Name) and v.id == e.id and d == g.entry) else _rooted_in_param(g, v, d, p, depth + 1) for v, d in bs)


def _call_args(c: ast.Call, names: Tuple[str, ...]) -> Optional[Dict[str, ast.AST]]:
    """Arguments of *c* by parameter name (positional ones in the order *names*); None when the call
    uses * / ** spreading or an unknown keyword."""
    if any(isinstance(a, ast.Starred) for a in c.args) or len(c.args) > len(names):
        return None
    out: Dict[str, ast.AST] = dict(zip(names, c.args))
    for k in c.keywords:
        if k.arg is None or k.arg not in names or k.arg in out:
            return None
        out[k.arg] = k.value
    return out


def _same_bindings(g: CFG, v: ast.AST, at: int, use: int) -> bool:
    """The locals read by *v* have the same reaching bindings at *at* and at *use* (a condition
    named at *at* still says the same thing when tested at *use*)."""
    for nm in {x.id for x in ast.walk(v) if isinstance(x, ast.Name)}:
        if {d.id for d in reaching_defs(g, nm, at)} - {at} != {d.id for d in reaching_defs(g, nm, use)} - {at}:
            return False
    return True


def _edges(g: CFG, test: ast.AST, use: int, atom, depth: int = 0) -> Set[str]:
    """Like cfg.edges_guaranteeing, with `atom(expr, node)` and named conditions expanded."""
    pol = atom(test, use)
    if pol is True:
        return {"T"}
    if pol is False:
        return {"F"}
    if isinstance(test, ast.NamedExpr):
        return _edges(g, test.value, use, atom, depth)
    if isinstance(test, ast.Name) and depth < 6:
        b = _bound_values(g, test.id, use)
        if b and len(b) == 1 and b[0][1] != g.entry and _same_bindings(g, b[0][0], b[0][1], use):
            return _edges(g, b[0][0], b[0][1], atom, depth + 1)
        return set()
    if isinstance(test, ast.UnaryOp) and isinstance(test.op, ast.Not):
        return {"F" if x == "T" else "T" for x in _edges(g, test.operand, use, atom, depth)}
    if isinstance(test, ast.BoolOp):
        out: Set[str] = set()
        subs = [_edges(g, v, use, atom, depth) for v in test.values]
        for sub in subs:
            if isinstance(test.op, ast.And) and "T" in sub:
                out.add("T")
            if isinstance(test.op, ast.Or) and "F" in sub:
                out.add("F")
        if isinstance(test.op, ast.Or) and subs and all("T" in sub for sub in subs):
            out.add("T")
        if isinstance(test.op, ast.And) and subs and all("F" in sub for sub in subs):
            out.add("F")
        return out
    return set()


def _guard_edges(g: CFG, atom) -> Dict[int, Set[str]]:
    out: Dict[int, Set[str]] = {}
    for n in g.nodes:
        if n.kind in ("if", "while") and n.part is not None:
            es = _edges(g, n.part, n.id, atom)
            if es:
                out[n.id] = es
    return out


def _only_through(g: CFG, atom, targets: List[int]) -> Tuple[bool, List[str], int]:
    """*targets* are reachable from the entry only over a branch edge on which *atom* holds."""
    ge = _guard_edges(g, atom)
    seen = g.reach([g.entry], blocked_edges={(n, lab) for n, es in ge.items() for lab in es})
    for t in targets:
        if t in seen:
            return False, g.path_to(seen, t), len(ge)
    return True, [], len(ge)


# ---------------------------------------------------------------------- D1 helpers
# Who resolves a node's run-time parameters is found by ROLE, following the calls out of the node bodies:
#   fetch   = a call that denotes resolve_runtime_value(name=N, processor_cls=type(X.processor),
#             processor_config=X.processor_config, context=C) - written in place, or a call of a function of
#             nodes.py (method or module-level, any name) every return of which is such a fetch of its own parameters;
#   builder = a function of nodes.py (method or module-level, any name) that returns {n: fetch(X, n, C) for every
#             processing parameter name n of X.processor}.
# A function is examined as fetcher / builder because a node body uses it as one, not because of its name.
def _callee_binding(mod, c: ast.Call, F: ast.AST) -> Optional[Dict[str, ast.AST]]:
    """Arguments of call *c* by the parameter names of its target *F*; the receiver of a bound-method call
    (`x.m(..)` with *F* defined in a class, `x` not a class) is bound to F's first parameter."""
    a = F.args
    pos = [x.arg for x in list(a.posonlyargs) + list(a.args)]
    out: Dict[str, ast.AST] = {}
    deco = [dotted_name(d) for d in getattr(F, "decorator_list", [])]
    if isinstance(parent(F), ast.ClassDef) and "staticmethod" not in deco and isinstance(c.func, ast.Attribute):
        recv = c.func.value
        if not (isinstance(recv, ast.Name) and isinstance(mod.defs.get(recv.id), ast.ClassDef)):
            if not pos:
                return None
            out[pos[0]] = recv
            pos = pos[1:]
    rest = _call_args(c, tuple(pos) + tuple(x.arg for x in a.kwonlyargs))
    if rest is None:
        return None
    out.update(rest)
    return out


def _entry_param(g: CFG, e: Optional[ast.AST], use: int) -> Optional[str]:
    """The parameter of g.func whose entry value *e* necessarily denotes at *use*, else None."""
    if e is None:
        return None
    for p in _fn_params(g.func):
        if _is_param(g, e, use, p):
            return p
    return None


class _Resolution:
    def __init__(self, repo: Repo, R: Report, rule: str):
        self.repo, self.R, self.rule = repo, R, rule
        self.nmod = repo.module(NODES)
        self.rrv = repo.func(PARAMRES, "resolve_runtime_value")
        self.fetchers: Dict[int, Tuple[ast.AST, Optional[Tuple[str, str, str]]]] = {}  # id(def) -> (def, (node, name, context) parameters)
        self.builders: Dict[int, Tuple[ast.AST, Optional[Tuple[str, str]]]] = {}  # id(def) -> (def, (node, context) parameters)
        self._busy: Set[int] = set()
        self.direct = 0

    def targets(self, c: ast.Call) -> List[Tuple[object, ast.AST]]:
        try:
            return self.repo.resolve_call(self.nmod, c)
        except Exception:
            return []

    # -- fetch -------------------------------------------------------------------------------------
    def fetch(self, g: CFG, c: Optional[ast.AST], use: int) -> Tuple[Optional[Tuple[str, ast.AST, ast.AST, int]], str]:
        """(X, N, C, node at which N and C are read) when *c* denotes the single-source resolution of parameter N of
        node X against context C; else (None, why)."""
        c, use = _val(g, c, use) if c is not None else (None, use)
        if not isinstance(c, ast.Call):
            return None, f"`{ast.unparse(c)[:50] if c is not None else '?'}` is not a call of the resolver"
        tg = self.targets(c)
        if len(tg) == 1 and tg[0][1] is self.rrv:
            a = _callee_binding(tg[0][0], c, self.rrv)
            if not a or set(a) != {"name", "processor_cls", "processor_config", "context"}:
                return None, f"`{norm(c)[:60]}` does not pass name / processor_cls / processor_config / context"
            cfgv = dotted_name(_val(g, a["processor_config"], use)[0]) or ""
            x, _, attr = cfgv.rpartition(".")
            if attr != "processor_config" or not x or "." in x or reaching_defs(g, x, use) or x not in _fn_params(g.func):
                return None, f"the configuration handed to the resolver is `{cfgv or ast.unparse(a['processor_config'])[:40]}`, not the node's own processor_config"
            cls_txt = ast.unparse(_val(g, a["processor_cls"], use)[0])
            if cls_txt not in (f"{x}.processor.__class__", f"type({x}.processor)"):
                return None, f"the class handed to the resolver is `{cls_txt[:50]}`, not the class of the node's processor"
            self.direct += 1
            return (x, a["name"], a["context"], use), ""
        if tg and all(m is self.nmod and isinstance(F, FuncNode) for m, F in tg):
            got = None
            for _m, F in tg:
                shape = self.fetcher_shape(F)
                b = _callee_binding(self.nmod, c, F)
                if shape is None or b is None or not all(p in b for p in shape):
                    return None, f"`{norm(c)[:50]}` goes to {qualname_of(F)}, which is not the single-source resolver applied to the node's own configuration"
                x = b[shape[0]]
                if not (isinstance(x, ast.Name) and x.id in _fn_params(g.func) and not reaching_defs(g, x.id, use)):
                    return None, f"`{norm(c)[:50]}` resolves against the configuration of `{ast.unparse(x)[:30]}`, not of this node"
                got = (x.id, b[shape[1]], b[shape[2]], use)
            return got, ""
        return None, f"`{norm(c)[:60]}` is not the single-source resolver"

    def fetcher_shape(self, F: ast.AST) -> Optional[Tuple[str, str, str]]:
        """(node, name, context) parameters of *F* when every path of F returns the single-source resolution of
        parameter <name> of node <node> against <context>; reported once per function."""
        if id(F) in self.fetchers:
            return self.fetchers[id(F)][1]
        if id(F) in self._busy:
            return None
        self._busy.add(id(F))
        qn = qualname_of(F)
        f = _nf(self.repo, NODES, qn)
        g = CFG(f, may_raise=_no_raise)
        rets = [n for n in g.nodes if n.kind == "stmt" and isinstance(n.ast, ast.Return)]
        shape: Optional[Tuple[str, str, str]] = None
        ok = bool(rets) and not g.must_pass([g.entry], [g.ret_exit], lambda n: n.kind == "stmt" and isinstance(n.ast, ast.Return))
        why = "a path returns nothing"
        for rn in rets:
            if not ok:
                break
            got, why = self.fetch(g, rn.ast.value, rn.id) if rn.ast.value is not None else (None, "a path returns nothing")
            if got is None:
                ok = False
                break
            x, n_, c_, u = got
            this = (x, _entry_param(g, n_, u), _entry_param(g, c_, u))
            if this[1] is None or this[2] is None or len(set(this)) != 3 or (shape is not None and shape != this):
                ok, why = False, f"it resolves `{ast.unparse(n_)[:30]}` against `{ast.unparse(c_)[:30]}`, which are not the name / context it was called with"
                break
            shape = this  # type: ignore[assignment]
        self._busy.discard(id(F))
        if not ok:
            shape = None
        self.fetchers[id(F)] = (F, shape)
        self.R.check(ok, self.rule, NODES, qn, "return resolve_runtime_value(name, <node>.processor.__class__, <node>.processor_config, context)", f"a node resolves parameters by something other than the single-source resolver on its own configuration and the run context: {why}", F.lineno)
        return shape

    # -- the mapping handed to the processor -------------------------------------------------------------
    def _all_parameter_names(self, g: CFG, e: ast.AST, use: int, x: str) -> bool:
        """*e* iterates over every processing parameter name of the processor wrapped by node *x*, in declaration order."""
        v, u = _val(g, e, use)
        if isinstance(v, ast.Call) and isinstance(v.func, ast.Name) and v.func.id in ("list", "tuple") and len(v.args) == 1 and not v.keywords:
            v, u = _val(g, v.args[0], u)
        return isinstance(v, ast.Call) and ast.unparse(v) == f"{x}.processor.get_processing_parameter_names()"

    def _fetch_of(self, g: CFG, val: ast.AST, use: int, name_var: str) -> Tuple[Optional[Tuple[str, ast.AST, int]], str]:
        """(X, C, node) when *val* is fetch(X, <name_var>, C)."""
        got, why = self.fetch(g, val, use)
        if got is None:
            return None, f"the value stored under a parameter name is `{ast.unparse(val)[:50]}`, not the resolver's value for that name ({why})"
        x, n_, c_, u = got
        if not (isinstance(n_, ast.Name) and n_.id == name_var):
            return None, f"the value stored under a parameter name is resolved for `{ast.unparse(n_)[:30]}`, not for that name"
        return (x, c_, u), ""

    def kwargs(self, fn: ast.AST, g: CFG, e: ast.AST, use: int) -> Tuple[bool, str, Optional[str], List[Tuple[ast.AST, int]]]:
        """Is the mapping *e* (as seen at node *use*) exactly {n: fetch(X, n, C) for every processing parameter name n
        of X.processor}?  -> (ok, why not, X, [(C, node at which C is read)]).
        Accepted constructions: the result of a builder called on X, the dict comprehension, or an empty dict
        filled by one unconditional loop over the names that every path from the dict's creation to *use* goes
        through - and nothing else mutates the mapping."""
        vs = _vals(g, e, use)
        if not vs:
            return False, "it is built in a way the analysis cannot follow", None, []
        holders = {e.id} if isinstance(e, ast.Name) else set()
        for v, u in vs:
            holders |= _target_names(g, u)
        muts = mutation_sites(fn, holders) if holders else []
        xs: Set[str] = set()
        ctxs: List[Tuple[ast.AST, int]] = []
        for v, u in vs:
            tg = self.targets(v) if isinstance(v, ast.Call) else []
            if tg and all(m is self.nmod and isinstance(G, FuncNode) for m, G in tg):
                for _m, G in tg:
                    shape = self.builder_shape(G)
                    b = _callee_binding(self.nmod, v, G)
                    if shape is None or b is None or not all(p in b for p in shape):
                        return False, f"`{norm(v)[:50]}` goes to {qualname_of(G)}, which does not return the resolver's value for every processing parameter", None, []
                    x_ = b[shape[0]]
                    if not (isinstance(x_, ast.Name) and x_.id in _fn_params(g.func) and not reaching_defs(g, x_.id, u)):
                        return False, f"`{norm(v)[:50]}` resolves the parameters of `{ast.unparse(x_)[:30]}`, not of this node", None, []
                    xs.add(x_.id)
                    ctxs.append((b[shape[1]], u))
                allowed: List[ast.AST] = []
            elif isinstance(v, ast.DictComp):
                gen = v.generators[0]
                if not (len(v.generators) == 1 and not gen.ifs and not gen.is_async and isinstance(gen.target, ast.Name) and isinstance(v.key, ast.Name) and v.key.id == gen.target.id):
                    return False, "the comprehension filters / re-keys the parameter names", None, []
                got, why = self._fetch_of(g, v.value, u, gen.target.id)
                if got is None:
                    return False, why, None, []
                if not self._all_parameter_names(g, gen.iter, u, got[0]):
                    return False, f"it is built from `{ast.unparse(gen.iter)[:50]}`, not from every processing parameter name", None, []
                xs.add(got[0])
                ctxs.append((got[1], got[2]))
                allowed = []
            elif (isinstance(v, ast.Dict) and not v.keys) or (isinstance(v, ast.Call) and dotted_name(v.func) == "dict" and not v.args and not v.keywords):
                accs = _target_names(g, u)
                stores = [s for s, r in muts if r in accs]
                if len(accs) != 1 or len(stores) != 1:
                    return False, "the empty mapping is not filled by exactly one store per parameter name", None, []
                st = stores[0]
                loop = parent(st)
                acc = next(iter(accs))
                okst = isinstance(st, ast.Assign) and len(st.targets) == 1 and isinstance(st.targets[0], ast.Subscript) and isinstance(st.targets[0].value, ast.Name) and st.targets[0].value.id == acc and isinstance(st.targets[0].slice, ast.Name)
                if not (okst and isinstance(loop, ast.For) and st in loop.body and not loop.orelse and isinstance(loop.target, ast.Name) and loop.target.id == st.targets[0].slice.id):
                    return False, "the store of a resolved value is not the body of a plain loop over the parameter names", None, []
                if any(isinstance(x, (ast.Continue, ast.Break, ast.Return, ast.Raise, ast.If, ast.Try)) for x in walk_no_nested(loop)) :
                    return False, "the loop over the parameter names can skip a name (if / continue / break / try inside it)", None, []
                if sum(1 for x in walk_no_nested(loop) if isinstance(x, ast.Name) and x.id == loop.target.id and isinstance(x.ctx, ast.Store)) != 1:
                    return False, "the loop variable is rebound inside the loop over the parameter names", None, []
                st_node = _node_of(g, st)
                got, why = self._fetch_of(g, st.value, st_node, loop.target.id) if st_node is not None else (None, "the store is unreachable")
                if got is None:
                    return False, why, None, []
                heads = set(g.nodes_for(loop))
                if not heads or not self._all_parameter_names(g, loop.iter, min(heads), got[0]):
                    return False, f"the loop runs over `{ast.unparse(loop.iter)[:50]}`, not over every processing parameter name", None, []
                if g.must_pass([u], [use], lambda n: n.id in heads):
                    return False, "the filling loop is skipped on some path", None, []
                xs.add(got[0])
                ctxs.append((got[1], got[2]))
                allowed = [st]
            else:
                return False, f"it is `{ast.unparse(v)[:60]}`, which does not come from the resolver", None, []
            extra = [s for s, _r in muts if not any(s is a for a in allowed)]
            if extra:
                return False, f"the resolved parameters are modified afterwards (`{norm(stmt_of(extra[0]))[:50]}`)", None, []
        if len(xs) != 1:
            return False, f"the parameters are resolved for different nodes {sorted(xs)}", None, []
        return True, "", next(iter(xs)), ctxs

    def builder_shape(self, G: ast.AST) -> Optional[Tuple[str, str]]:
        """(node, context) parameters of *G* when every path of G returns {n: fetch(<node>, n, <context>) for every
        processing parameter name n}; reported once per function."""
        if id(G) in self.builders:
            return self.builders[id(G)][1]
        qn = qualname_of(G)
        if id(G) in self._busy:
            return None
        self._busy.add(id(G))
        f = _nf(self.repo, NODES, qn)
        g = CFG(f, may_raise=_no_raise)
        rets = [n for n in g.nodes if n.kind == "stmt" and isinstance(n.ast, ast.Return)]
        ok, why = bool(rets) and not g.must_pass([g.entry], [g.ret_exit], lambda n: n.kind == "stmt" and isinstance(n.ast, ast.Return)), "a path returns no mapping"
        shape: Optional[Tuple[str, str]] = None
        for rn in rets:
            if not ok:
                break
            ok, why, x, ctxs = self.kwargs(f, g, rn.ast.value, rn.id) if rn.ast.value is not None else (False, "a path returns no mapping", None, [])
            if ok:
                cps = {_entry_param(g, c_, u) for c_, u in ctxs}
                this = (x, next(iter(cps)) if len(cps) == 1 else None)
                if this[1] is None or this[0] == this[1] or (shape is not None and shape != this):
                    ok, why = False, "the context the values are resolved against is not the one the function was called with"
                else:
                    shape = this  # type: ignore[assignment]
        self._busy.discard(id(G))
        if not ok:
            shape = None
        self.builders[id(G)] = (G, shape)
        self.R.check(ok, self.rule, NODES, qn, "parameters[name] = <resolver>(name, context) for every processing parameter", f"some processing parameters bypass (or are skipped by) the resolver: {why}", G.lineno)
        return shape

    def resolution_context(self, g: CFG, c: ast.Call) -> Optional[ast.AST]:
        """The context argument of *c* when *c* calls a fetcher / builder found above or the resolver itself."""
        tg = self.targets(c)
        if len(tg) == 1 and tg[0][1] is self.rrv:
            return (_callee_binding(tg[0][0], c, self.rrv) or {}).get("context")
        for _m, F in tg:
            for table, idx in ((self.fetchers, 2), (self.builders, 1)):
                ent = table.get(id(F))
                if ent is not None and ent[1] is not None:
                    return (_callee_binding(self.nmod, c, F) or {}).get(ent[1][idx])
        return None


def _target_names(g: CFG, nid: int) -> Set[str]:
    a = g.nodes[nid].ast
    tg = a.targets if isinstance(a, ast.Assign) else [a.target] if isinstance(a, ast.AnnAssign) else []
    return {t.id for t in tg if isinstance(t, ast.Name)}


def _config_as_given(g: CFG, e: ast.AST, use: int, p: str, depth: int = 0) -> bool:
    """*e* is the constructor's configuration argument itself, a shallow copy of it, or an empty
    mapping chosen when the argument is missing."""
    if depth > 10:
        return False
    if isinstance(e, ast.IfExp):
        return {x.id for x in ast.walk(e.test) if isinstance(x, ast.Name)} <= {p, "isinstance", "dict"} and _config_as_given(g, e.body, use, p, depth + 1) and _config_as_given(g, e.orelse, use, p, depth + 1)
    if isinstance(e, ast.BoolOp) and isinstance(e.op, ast.Or):
        return all(_config_as_given(g, v, use, p, depth + 1) for v in e.values)
    if isinstance(e, ast.Dict):
        return not e.keys
    if isinstance(e, ast.Call):
        if isinstance(e.func, ast.Name) and e.func.id == "dict" and not e.keywords:
            return not e.args or (len(e.args) == 1 and _config_as_given(g, e.args[0], use, p, depth + 1))
        if isinstance(e.func, ast.Attribute) and e.func.attr == "copy" and not e.args and not e.keywords:
            return _config_as_given(g, e.func.value, use, p, depth + 1)
        return False
    if isinstance(e, ast.Name):
        bs = _bound_values(g, e.id, use)
        if bs is None:
            return False
        if not bs:
            return e.id == p
        return all((v.id == p) if (isinstance(v, ast.Name) and v.id == e.id and d == g.entry) else _config_as_given(g, v, d, p, depth + 1) for v, d in bs)
    return False


def _same_length_names(repo: Repo, mod, st: ast.AST, seq: str) -> Set[str]:
    """Locals that statement *st* binds together with *seq* to lists of the same length: `seq, other = f(..)` where every
    target of the call returns a tuple of lists that are only ever appended to side by side."""
    if not (isinstance(st, ast.Assign) and len(st.targets) == 1 and isinstance(st.targets[0], (ast.Tuple, ast.List)) and isinstance(st.value, ast.Call)):
        return set()
    names = [e.id if isinstance(e, ast.Name) else None for e in st.targets[0].elts]
    if seq not in names:
        return set()
    try:
        tg = repo.resolve_call(mod, st.value)
    except Exception:
        tg = []
    if not tg:
        return set()
    same = set(range(len(names)))
    i0 = names.index(seq)
    for _m, F in tg:
        rets = [n for n in walk_no_nested(F) if isinstance(n, ast.Return)]
        if len(rets) != 1 or not (isinstance(rets[0].value, ast.Tuple) and len(rets[0].value.elts) == len(names) and all(isinstance(e, ast.Name) for e in rets[0].value.elts)):
            return set()
        rn = [e.id for e in rets[0].value.elts]
        if len(set(rn)) != len(rn):
            return set()
        muts = mutation_sites(F, set(rn), include_nested=True)
        binds = {n_: [x for x in walk_no_nested(F) if isinstance(x, ast.Name) and x.id == n_ and isinstance(x.ctx, (ast.Store, ast.Del))] for n_ in rn}
        good = set()
        for j, n_ in enumerate(rn):
            # created empty once; grown only by `n.append(x)` statements that stand next to one for rn[i0]
            v = [_assigned_component(parent(b), n_) if isinstance(parent(b), (ast.Assign, ast.AnnAssign)) else None for b in binds[n_]]
            if len(v) != 1 or not (isinstance(v[0], ast.List) and not v[0].elts) or n_ in _fn_params(F):
                continue
            good.add(j)
        if i0 not in good:
            return set()

        def appends(n_: str) -> Optional[List[ast.AST]]:
            out = []
            for s_, r_ in muts:
                if r_ != n_:
                    continue
                st_ = stmt_of(s_)
                c_ = st_.value if isinstance(st_, ast.Expr) else None
                if not (isinstance(c_, ast.Call) and isinstance(c_.func, ast.Attribute) and c_.func.attr == "append" and isinstance(c_.func.value, ast.Name) and c_.func.value.id == n_ and len(c_.args) == 1 and not c_.keywords):
                    return None
                out.append(st_)
            return out

        base = appends(rn[i0])
        for j in sorted(good):
            mine = appends(rn[j])
            okj = base is not None and mine is not None and len(mine) == len(base)
            for a_, b_ in zip(base or [], mine or []):
                blk = next((getattr(parent(a_), fld) for fld in ("body", "orelse", "finalbody") if isinstance(getattr(parent(a_), fld, None), list) and a_ in getattr(parent(a_), fld)), None)
                if not okj or blk is None or b_ not in blk:
                    okj = False
                    break
                lo, hi = sorted((blk.index(a_), blk.index(b_)))
                if any(isinstance(x, (ast.Continue, ast.Break, ast.Return, ast.Try)) for s_ in blk[lo:hi + 1] for x in ast.walk(s_)):
                    okj = False
            if not okj:
                good.discard(j)
        same &= good
    return {names[j] for j in same if names[j] is not None and j != i0}


def _traversal(lp: ast.AST, seq: str, same_length: Set[str]):
    """Predicate `is_element(expr)` when `for <target> in <iter>` (a loop or a comprehension clause) visits every item of the local list *seq* exactly once,
    in list order (the expression denotes the item of the current iteration); None when it does not (or cannot be told).
    Understood: `seq`, `iter/list/tuple(seq)`, `enumerate(<t>[, start])`, `zip(<t>, other..)` where every other
    argument is at least as long (a list built side by side with seq, `range(len(seq))`, `itertools.count(..)`),
    and the index loop `for i in range(len(seq))` with `seq[i]` (or a local bound to it first thing in the body)."""
    def plain(e: ast.AST) -> bool:
        if isinstance(e, ast.Call) and isinstance(e.func, ast.Name) and e.func.id in ("iter", "list", "tuple") and len(e.args) == 1 and not e.keywords:
            return plain(e.args[0])
        return isinstance(e, ast.Name) and e.id == seq

    def all_indices(e: ast.AST) -> bool:
        if not (isinstance(e, ast.Call) and isinstance(e.func, ast.Name) and e.func.id == "range" and not e.keywords and 1 <= len(e.args) <= 2):
            return False
        if len(e.args) == 2 and not (isinstance(e.args[0], ast.Constant) and e.args[0].value == 0):
            return False
        n = e.args[-1]
        return isinstance(n, ast.Call) and isinstance(n.func, ast.Name) and n.func.id == "len" and len(n.args) == 1 and not n.keywords and plain(n.args[0])

    def long_enough(e: ast.AST) -> bool:
        if isinstance(e, ast.Name):
            return e.id in same_length
        if all_indices(e):
            return True
        return isinstance(e, ast.Call) and (dotted_name(e.func) or "") in ("itertools.count", "count") and not e.keywords and all(isinstance(a, ast.Constant) for a in e.args)

    def elem(it: ast.AST, target: ast.AST) -> Optional[ast.AST]:
        """the sub-target bound to the items of seq"""
        if plain(it):
            return target
        if isinstance(it, ast.Call) and isinstance(it.func, ast.Name) and not any(isinstance(a, ast.Starred) for a in it.args):
            if it.func.id == "enumerate" and it.args and len(it.args) + len(it.keywords) <= 2 and all(k.arg == "start" for k in it.keywords) and isinstance(target, (ast.Tuple, ast.List)) and len(target.elts) == 2:
                return elem(it.args[0], target.elts[1])
            if it.func.id == "zip" and it.args and all(k.arg == "strict" for k in it.keywords) and isinstance(target, (ast.Tuple, ast.List)) and len(target.elts) == len(it.args) and not any(isinstance(t, ast.Starred) for t in target.elts):
                hits = [(a, t) for a, t in zip(it.args, target.elts) if elem(a, t) is not None]
                if len(hits) >= 1 and all(long_enough(a) or any(a is h for h, _t in hits) for a in it.args):
                    return hits[0][1]
        return None

    t = elem(lp.iter, lp.target)
    if isinstance(t, ast.Name):
        return lambda e, t=t: isinstance(e, ast.Name) and e.id == t.id
    # index loop
    idx = lp.target if isinstance(lp.target, ast.Name) else None
    it = lp.iter
    if idx is not None and all_indices(it):
        def item(e: ast.AST) -> bool:
            return isinstance(e, ast.Subscript) and isinstance(e.value, ast.Name) and e.value.id == seq and isinstance(e.slice, ast.Name) and e.slice.id == idx.id
        named = set()
        for st in getattr(lp, "body", []):
            if isinstance(st, (ast.Assign, ast.AnnAssign)) and st.value is not None and item(st.value):
                tg = st.targets if isinstance(st, ast.Assign) else [st.target]
                if len(tg) == 1 and isinstance(tg[0], ast.Name):
                    named.add(tg[0].id)
                    continue
            break
        stores: Dict[str, int] = {}
        for st in getattr(lp, "body", []) + getattr(lp, "orelse", []):
            for x in ast.walk(st):
                if isinstance(x, ast.Name) and isinstance(x.ctx, (ast.Store, ast.Del)):
                    stores[x.id] = stores.get(x.id, 0) + 1
        named = {n for n in named if stores.get(n) == 1}
        return lambda e: item(e) or (isinstance(e, ast.Name) and e.id in named)
    return None


def _node_bodies(nmod) -> List[Tuple[str, ast.AST]]:
    """The per-class bodies of the node protocol hook `_PayloadProcessor` drives (overrides of the hook through which
    `_DataNode._process` / `_ContextProcessorNode._process` run the wrapped processor)."""
    return [(q, n) for q, n in nmod.defs.items() if isinstance(n, FuncNode) and n.name == "_process_single_item_with_context"]


def _is_processor_call(c: ast.Call, fn: ast.AST) -> bool:
    """`<first parameter>.processor.process(..)` / `.operate_context(..)`"""
    return bool(fn.args.args) and isinstance(c.func, ast.Attribute) and c.func.attr in ("process", "operate_context") and dotted_name(c.func.value) == f"{fn.args.args[0].arg}.processor"


def _unreached_processor_calls(repo: Repo, nmod) -> None:
    """Every place of nodes.py that runs a wrapped processor is analysed: it is a node body, or a helper that the
    normal form of a node body absorbed (no call of it is left there)."""
    bodies = {id(n): q for q, n in _node_bodies(nmod)}
    runners = {id(f): f for f in ast.walk(nmod.tree) if isinstance(f, FuncNode) and id(f) not in bodies and any(_is_processor_call(c, f) for c in calls_in(f))}
    if not runners:
        return
    called: Set[int] = set()
    for m, f, _path in repo.call_graph_closure([(nmod, n) for _q, n in _node_bodies(nmod)]).values():
        called.add(id(f))
    for q, _n in _node_bodies(nmod):
        for c in calls_in(_nf(repo, NODES, q)):
            for _m, t in (repo.resolve_call(nmod, c) if not _is_processor_call(c, _n) else []):
                if id(t) in runners:
                    raise AnalysisError(f"{q}: the wrapped processor is run inside {qualname_of(t)}, which the normal form could not absorb")
    lost = [qualname_of(f) for i, f in runners.items() if i not in called]
    if lost:
        raise AnalysisError(f"nodes.py: {lost[0]} runs a wrapped processor but is not reached from any node body")


def run(repo: Repo, R: Report) -> None:
    R.assume(
        "processors do what their declared metadata says (the statement's own premise)",
        "ContextType.set_value/get_value/keys are a plain mapping",
    )
    R.undecided("equality of a run's result with a reference interpreter for all programs and inputs (the statement as a whole); behaviour of user processors and IO back ends")
    nmod = repo.module(NODES)

    # ------------------------------------------------------------------ D1
    r_res = R.rule("C01-D1-single-source-of-resolution", "every node resolves run-time parameters through resolve_runtime_value with its own, unmodified node configuration and the run context; the chain there is config, then context, then default, else KeyError", 10)
    # every invocation of the wrapped processor gets {name: single-source resolution of name} for every processing
    # parameter name; the functions that do the resolution are found (and reported) by following the calls
    res = _Resolution(repo, R, r_res)
    n_proc = 0
    for qn, f0 in _node_bodies(nmod):
        f = _nf(repo, NODES, qn)
        if not f.args.args:
            continue
        g = CFG(f, may_raise=_no_raise)
        sp = f.args.args[0].arg
        proc_calls = [c for c in calls_in(f) if isinstance(c.func, ast.Attribute) and c.func.attr in ("process", "operate_context") and dotted_name(c.func.value) == f"{sp}.processor"]
        for c in proc_calls:
            n_proc += 1
            star = [k.value for k in c.keywords if k.arg is None]
            use = _node_of(g, c)
            ok, why = bool(star) and use is not None, "no resolved parameters are passed"
            for s_ in star:
                if ok:
                    ok, why, x, _ctxs = res.kwargs(f, g, s_, use)
                    if ok and x != sp:
                        ok, why = False, f"the parameters are resolved for `{x}`, not for this node"
            explicit = sorted(k.arg for k in c.keywords if k.arg is not None and k.arg not in ("context", "context_observer", "data"))
            if ok and explicit:
                ok, why = False, f"parameter(s) {explicit} are passed explicitly next to the resolved ones"
            R.check(ok, r_res, NODES, qn, norm(c)[:80], f"the processor is invoked with keyword arguments that do not come from the resolver: {why}", c.lineno)
    if not n_proc:
        raise AnalysisError("nodes.py: no node body invokes its processor with resolved parameters (6 confirmed by reading)")
    _unreached_processor_calls(repo, nmod)
    # configuration kept as given: every function of nodes.py that stores <node>.processor_config (found by the store,
    # not by its name) stores the configuration argument it was given
    n_cfg = 0
    for qn, f0 in [(q, n) for q, n in nmod.defs.items() if isinstance(n, FuncNode)]:
        if not any(isinstance(x, ast.Attribute) and x.attr == "processor_config" and isinstance(x.ctx, (ast.Store, ast.Del)) for x in walk_no_nested(f0)):
            continue
        init = _nf(repo, NODES, qn)
        g = CFG(init, may_raise=_no_raise)
        pnames = [a.arg for a in init.args.posonlyargs + init.args.args + init.args.kwonlyargs]
        stores = [n for n in g.nodes if n.kind == "stmt" and isinstance(n.ast, (ast.Assign, ast.AnnAssign, ast.AugAssign)) and any(isinstance(t, ast.Attribute) and t.attr == "processor_config" for t in (n.ast.targets if isinstance(n.ast, ast.Assign) else [n.ast.target]))]
        owners = {dotted_name(t.value) for n in stores for t in (n.ast.targets if isinstance(n.ast, ast.Assign) else [n.ast.target]) if isinstance(t, ast.Attribute) and t.attr == "processor_config"}
        # the configuration parameter: the one whose value ends up in the attribute
        cands = [p_ for p_ in pnames if p_ not in owners and stores and all(isinstance(n.ast, (ast.Assign, ast.AnnAssign)) and n.ast.value is not None and _config_as_given(g, n.ast.value, n.id, p_) for n in stores)]
        cfg_p = cands[0] if cands else next((p_ for p_ in pnames if p_ == "processor_config"), pnames[-1] if pnames else "processor_config")
        ok = bool(stores) and bool(cands) and len(owners) == 1 and next(iter(owners)) in pnames
        own = next(iter(owners)) if len(owners) == 1 else "self"
        later = [n for n in ast.walk(init) if (isinstance(n, ast.Call) and isinstance(n.func, ast.Attribute) and dotted_name(n.func.value) == f"{own}.processor_config" and n.func.attr in ("pop", "update", "clear", "setdefault", "popitem")) or (isinstance(n, (ast.Delete,)) and f"{own}.processor_config" in ast.unparse(n))]
        later += [s_ for s_, _r in mutation_sites(init, {cfg_p})]
        n_cfg += 1
        R.check(ok and not later, r_res, NODES, qn, "<node>.processor_config = processor_config (or {})", "the node configuration is transformed before use (entries dropped / rewritten): a configured value can lose its precedence over the context", f0.lineno)
    if not n_cfg:
        raise AnalysisError("nodes.py: no function stores <node>.processor_config (2 confirmed by reading)")
    rrv = repo.func(PARAMRES, "resolve_runtime_value")
    # normal form: `match` lowered to if/elif, a split-off private helper absorbed; the default look-up (found by role:
    # the helper the resolver hands the processor class and the parameter's name, whatever it is called and wherever
    # it lives) stays the call the chain extraction classifies as the default channel
    pmod = repo.module(PARAMRES)
    lookups = _default_lookup_helpers(repo, pmod, rrv)
    rrv_n = nfunc(repo, PARAMRES, "resolve_runtime_value", keep=tuple(lookups))
    chain = extract_chain(rrv_n)
    want = [("config", "config"), ("context", "context"), ("default", "default"), ("always", "raise:KeyError")]
    R.check(chain == want, r_res, PARAMRES, "resolve_runtime_value", f"first-match chain {chain}", f"run-time precedence is not [config, context, default, KeyError]; got {chain}", rrv.lineno)
    # the values returned are the ones looked up under `name`
    # (role-based: every returned value is classified by the channel it reads, locals substituted)
    exits = exit_values(rrv_n)
    forms = {
        "config": ("processor_config[name]",),
        "context": ("context.get_value(name)", "context[name]"),
    }

    def plain_default_lookup(v: ast.AST) -> bool:
        """`<helper>(<processor class>, <name>)`: exactly the two, each bound to the helper parameter that plays its
        role (the class is the one the helper asks for metadata / attributes, the name is a plain key)."""
        if not is_default_lookup(v) or len(v.args) + len(v.keywords) != 2:
            return False
        if {dotted_name(a) for a in list(v.args) + [k.value for k in v.keywords]} != {"processor_cls", "name"}:
            return False
        try:
            tg = repo.resolve_call(pmod, v)
        except Exception:
            tg = []
        if len(tg) != 1 or not isinstance(tg[0][1], FuncNode):
            return not v.keywords and dotted_name(v.args[0]) == "processor_cls"
        H = tg[0][1]
        b = _call_args(v, tuple(a.arg for a in H.args.posonlyargs + H.args.args + H.args.kwonlyargs))
        if not b or len(b) != 2:
            return False
        role = {dotted_name(e): p_ for p_, e in b.items()}
        receivers = {x.value.id for x in ast.walk(H) if isinstance(x, ast.Attribute) and isinstance(x.value, ast.Name)}
        return role.get("processor_cls") in receivers and role.get("name") not in receivers

    bad_exit = next((f"`{ast.unparse(v)[:60]}` ({lab})" for lab, v in exits if not (plain_default_lookup(v) if lab == "default" else ast.unparse(v) in forms.get(lab, ()))), None)
    ok = bad_exit is None and {lab for lab, _v in exits} == set(forms) | {"default"}
    R.check(ok, r_res, PARAMRES, "resolve_runtime_value", "returns config[name] / context.get_value(name) / <default look-up>(cls, name)", f"a channel returns something other than the value stored under the parameter's own name: {bad_exit or sorted({lab for lab, _v in exits})}", rrv.lineno)

    # ------------------------------------------------------------------ D2
    r_gate = R.rule("C01-D2-type-gate", "a data node runs only after issubclass(type(data), processor.input_data_type()) held for the data it is given (else TypeError), and the payload handed to the node is the caller's (only None is normalised)", 4)
    proc0 = repo.func(NODES, "_DataNode._process")
    proc = _nf(repo, NODES, "_DataNode._process")
    g = CFG(proc, may_raise=_no_raise)
    payload_p = proc.args.args[1].arg if len(proc.args.args) > 1 else "payload"
    calls = [n for n in g.nodes if n.ast is not None and n.kind == "stmt" and any(call_attr(c) == "_process_single_item_with_context" for c in calls_in(n.ast))]
    if not calls:
        raise AnalysisError("_DataNode._process: call of _process_single_item_with_context not found")

    def gate_atom(e: ast.AST, use: int) -> Optional[bool]:
        """issubclass(type(<payload.data>), <processor input type>) / isinstance(<payload.data>, <processor input type>)"""
        if isinstance(e, ast.Call) and isinstance(e.func, ast.Name) and e.func.id in ("issubclass", "isinstance") and len(e.args) == 2 and not e.keywords:
            a, b = e.args
            subj: Optional[ast.AST] = a
            if e.func.id == "issubclass":
                ta, tu = _val(g, a, use)
                subj = ta.args[0] if isinstance(ta, ast.Call) and isinstance(ta.func, ast.Name) and ta.func.id == "type" and len(ta.args) == 1 else None
                use_s = tu
            else:
                use_s = use
            tv, _tu = _val(g, b, use)
            type_ok = isinstance(tv, ast.Call) and not tv.args and not tv.keywords and isinstance(tv.func, ast.Attribute) and tv.func.attr == "input_data_type" and ast.unparse(tv.func.value) in ("self.processor", "self", "type(self.processor)", "self.processor.__class__")
            if subj is not None and type_ok and _is_run_input(g, subj, use_s, payload_p, "data"):
                return True
        return None

    holds, path, guards = _only_through(g, gate_atom, [n.id for n in calls])
    R.check(holds and guards > 0, r_gate, NODES, "_DataNode._process", "issubclass(type(data), input_type) dominates the node body", "a data node can run on data that is not an instance of its processor's declared input type", proc0.lineno, path)
    # on the other edge of the gate every path ends in `raise TypeError`
    ge = _guard_edges(g, gate_atom)
    ok = bool(ge)
    for nid, es in ge.items():
        starts = [t for t, lab in g.succ[nid] if lab in ({"T", "F"} - es)]
        seen = g.reach(starts)
        raises = [g.nodes[x].ast for x in seen if g.nodes[x].kind == "stmt" and isinstance(g.nodes[x].ast, ast.Raise)]
        ok = ok and bool(starts) and g.ret_exit not in seen and bool(raises) and all(rz.exc is not None and dotted_name(rz.exc.func if isinstance(rz.exc, ast.Call) else rz.exc) == "TypeError" for rz in raises)
    R.check(ok, r_gate, NODES, "_DataNode._process", "rejected data raises TypeError", "incompatible data does not raise TypeError at this node", proc0.lineno)
    ok = True
    c0 = None
    for cn in calls:
        for c0 in [c for c in calls_in(cn.ast) if call_attr(c) == "_process_single_item_with_context"]:
            av, au = _val(g, c0.args[0], cn.id) if c0.args else (kwarg(c0, "payload"), cn.id)
            if isinstance(av, ast.Name):
                ok = ok and _is_param(g, av, au, payload_p)
            elif isinstance(av, ast.Call) and call_attr(av) == "Payload":
                pa = _call_args(av, ("data", "context")) or {}
                ok = ok and "data" in pa and _is_run_input(g, pa["data"], au, payload_p, "data")
            else:
                ok = False
    R.check(ok, r_gate, NODES, "_DataNode._process", norm(c0)[:80] if c0 is not None else "_process_single_item_with_context(...)", "the data that was type-checked is not the data handed to the node", proc0.lineno)
    pp0 = repo.func(PAYP, "_PayloadProcessor.process")
    pp = _nf(repo, PAYP, "_PayloadProcessor.process")
    g = CFG(pp, may_raise=_no_raise)
    pp_payload = pp.args.args[1].arg if len(pp.args.args) > 1 else "payload"

    def none_atom(e: ast.AST, use: int) -> Optional[bool]:
        """`payload is None` / `payload.data is None` (the data may be named)"""
        if isinstance(e, ast.Compare) and len(e.ops) == 1 and isinstance(e.ops[0], (ast.Is, ast.IsNot)) and isinstance(e.comparators[0], ast.Constant) and e.comparators[0].value is None:
            if dotted_name(_val(g, e.left, use)[0]) in (pp_payload, f"{pp_payload}.data"):
                return isinstance(e.ops[0], ast.Is)
        return None

    bad_stmt: List[ast.AST] = []

    def substitutions(v: ast.AST, use: int, guarded: bool, st: ast.AST) -> None:
        """Payload(<something else than the caller's data>, ...) assigned to the payload outside a `... is None` arm"""
        if isinstance(v, ast.IfExp):
            es = _edges(g, v.test, use, none_atom)
            substitutions(v.body, use, guarded or "T" in es, st)
            substitutions(v.orelse, use, guarded or "F" in es, st)
        elif isinstance(v, ast.Call) and call_attr(v) == "Payload":
            pa = _call_args(v, ("data", "context")) or {}
            d0 = pa.get("data")
            if d0 is not None and dotted_name(_val(g, d0, use)[0]) == f"{pp_payload}.data":
                return
            if not guarded and not _only_through(g, none_atom, [use])[0]:
                bad_stmt.append(st)

    for n in g.nodes:
        if n.kind == "stmt" and isinstance(n.ast, (ast.Assign, ast.AnnAssign)) and n.ast.value is not None and _defines(n, pp_payload):
            v = _assigned_component(n.ast, pp_payload)
            if v is not None:
                substitutions(v, n.id, False, n.ast)
    R.check(not bad_stmt, r_gate, PAYP, "_PayloadProcessor.process", "data is replaced only when it is None", f"`{norm(bad_stmt[0])[:70]}` substitutes the caller's data before the node sees it: a node that must reject the data silently runs (and later nodes too)" if bad_stmt else "", pp0.lineno)

    # ------------------------------------------------------------------ D3
    r_probe = R.rule("C01-D3-probe-and-operation-dataflow", "probe nodes return the input data unchanged and write the probe result under self.context_key on every path; operation nodes return the processor result as data", 6)
    r_stay = R.rule("C01-D24-probe-result-stays-under-its-key", "what a probe node leaves under its context key is the probe result: every other write the node body makes into the run's context (published sweep sequences, injected keys - helpers of the module absorbed) is reachable only behind `key != self.context_key`, and nothing but the processor's result is written under the context key itself", 2)
    def returned_payloads(f: ast.AST, g: CFG) -> Optional[List[Tuple[Dict[str, ast.AST], int]]]:
        """(arguments by name, node) of the Payload(...) built for every value the function returns; None when
        a path returns something else / nothing."""
        out: List[Tuple[Dict[str, ast.AST], int]] = []
        rets = [n for n in g.nodes if n.kind == "stmt" and isinstance(n.ast, ast.Return)]
        if not rets or g.must_pass([g.entry], [g.ret_exit], lambda n: n.kind == "stmt" and isinstance(n.ast, ast.Return)):
            return None
        for rn in rets:
            vs = _vals(g, rn.ast.value, rn.id) if rn.ast.value is not None else None
            if not vs:
                return None
            for v, u in vs:
                pa = _call_args(v, ("data", "context")) if isinstance(v, ast.Call) and call_attr(v) == "Payload" else None
                if not pa or set(pa) != {"data", "context"}:
                    return None
                out.append((pa, u))
        return out

    def is_process_result(g: CFG, e: ast.AST, use: int, depth: int = 0) -> bool:
        """*e* is computed from the value self.processor.process(...) returned (directly, through locals, or
        as the element of a loop over it)."""
        if depth > 8:
            return False
        for x in ast.walk(e):
            if isinstance(x, ast.Call) and dotted_name(x.func) == "self.processor.process":
                return True
        for nm in sorted({x.id for x in ast.walk(e) if isinstance(x, ast.Name)}):
            bs = _bound_values(g, nm, use)
            if bs is None:
                for d in reaching_defs(g, nm, use):
                    if d.kind == "for" and isinstance(d.ast, ast.For) and is_process_result(g, d.ast.iter, d.id, depth + 1):
                        return True
                continue
            if bs and all(not (isinstance(v, ast.Name) and v.id == nm and d == g.entry) and is_process_result(g, v, d, depth + 1) for v, d in bs):
                return True
        return False

    for qn in ("_ProbeContextInjectorNode._process_single_item_with_context", "_DataOperationContextInjectorProbeNode._process_single_item_with_context", "_ProbeResultCollectorNode._process_single_item_with_context"):
        f0 = repo.func(NODES, qn)
        f = _nf(repo, NODES, qn)
        gg = CFG(f, may_raise=_no_raise)
        pl = f.args.args[1].arg if len(f.args.args) > 1 else "payload"
        rp = returned_payloads(f, gg)
        ok = bool(rp) and all(_is_run_input(gg, pa["data"], u, pl, "data") for pa, u in rp)
        R.check(ok, r_probe, NODES, qn, "return Payload(<payload.data>, context)", "a probe node changes the data it passes on (e.g. returns the probe result)", f0.lineno)
        if "Collector" in qn:
            continue

        def is_keyed_write(n, gg=gg) -> bool:
            if n.ast is None or n.kind != "stmt":
                return False
            for c in calls_in(n.ast):
                if call_attr(c) != "update_context":
                    continue
                a = _call_args(c, ("context", "key", "value", "index"))
                if a and "key" in a and "value" in a and dotted_name(_val(gg, a["key"], n.id)[0]) == "self.context_key" and is_process_result(gg, a["value"], n.id):
                    return True
            return False

        # collection branch writes inside a loop: count the loop header as the write
        def covers(n, gg=gg) -> bool:
            if is_keyed_write(n):
                return True
            if n.kind == "for" and any(is_keyed_write(m) for m in gg.nodes if m.ast is not None and any(a is n.ast for a in ancestors(m.ast))):
                return True
            return False

        bad = gg.must_pass([gg.entry], [gg.ret_exit], covers)
        R.check(not bad and any(is_keyed_write(n) for n in gg.nodes), r_probe, NODES, qn, "update_context(context, self.context_key, <probe result>) on every path", "the probe result is not stored under the node's context key on some path (literal key, skipped when falsy, ...)", f0.lineno, bad[0][1] if bad else None)
        # ... and stays there: every other write the node body makes into the run's context goes to a key that is
        # provably not the node's context key (the body is read in normal form: a helper the writes were moved into
        # is absorbed, so the guard has to be where the write is)
        me = f.args.args[0].arg if f.args.args else "self"

        def context_writes(n, gg=gg, pl=pl) -> List[Tuple[ast.Call, Optional[ast.AST]]]:
            """(call, key expression) of every call in statement *n* that writes into the run's context"""
            out_: List[Tuple[ast.Call, Optional[ast.AST]]] = []
            if n.ast is None or n.kind != "stmt":
                return out_
            for c in calls_in(n.ast):
                if call_attr(c) == "update_context":
                    a = _call_args(c, ("context", "key", "value", "index"))
                    out_.append((c, a.get("key") if a else None))
                elif isinstance(c.func, ast.Attribute) and c.func.attr in ("set_value", "set_item_value", "__setitem__", "setdefault") and _is_run_input(gg, c.func.value, n.id, pl, "context"):
                    ks = [x for x in c.args if not isinstance(x, ast.Starred)]
                    out_.append((c, ks[1] if c.func.attr == "set_item_value" and len(ks) > 1 else (ks[0] if ks and c.func.attr != "set_item_value" else None)))
            return out_

        n_other = 0
        for n in gg.nodes:
            for c, key in context_writes(n):
                if is_keyed_write(n) and key is not None and dotted_name(_val(gg, key, n.id)[0]) == f"{me}.context_key":
                    continue
                n_other += 1
                kv = _val(gg, key, n.id)[0] if key is not None else None
                if kv is not None and dotted_name(kv) == f"{me}.context_key":
                    R.violation(r_stay, NODES, qn, norm(c)[:80], "something other than the processor's result is written under the node's context key: later nodes read that instead of the probe result", c.lineno)
                    continue
                if kv is not None and isinstance(kv, ast.Constant):
                    # a literal key differs from the configured context key only by accident
                    kv = None

                def other_key(e: ast.AST, use: int, kv=kv, at=n.id, gg=gg, me=me) -> Optional[bool]:
                    if kv is None or not (isinstance(e, ast.Compare) and len(e.ops) == 1 and isinstance(e.ops[0], (ast.NotEq, ast.Eq))):
                        return None
                    a_, b_ = _val(gg, e.left, use)[0], _val(gg, e.comparators[0], use)[0]
                    for x, y in ((a_, b_), (b_, a_)):
                        if dotted_name(x) == f"{me}.context_key" and ast.dump(y) == ast.dump(kv) and _same_bindings(gg, kv, use, at):
                            return isinstance(e.ops[0], ast.NotEq)
                    return None

                holds, path, _guards = _only_through(gg, other_key, [n.id])
                R.check(holds, r_stay, NODES, qn, f"`{norm(c)[:70]}` only for a key != {me}.context_key", f"`{norm(c)[:70]}` can write under the node's own context key after the probe result was stored there (no `key != {me}.context_key` in front of it): for a sequence / injected key named like the context key the probe result is overwritten and every later node that reads the key sees the other value", c.lineno, path)
        if not n_other:
            R.ok(r_stay, NODES, qn, "no other context write in the node body")
    f0 = repo.func(NODES, "_DataNode._process_single_item_with_context")
    f = _nf(repo, NODES, "_DataNode._process_single_item_with_context")
    gg = CFG(f, may_raise=_no_raise)
    rp = returned_payloads(f, gg)
    ok = bool(rp)
    for pa, u in rp or []:
        vs = _vals(gg, pa["data"], u)
        ok = ok and bool(vs) and all(isinstance(v, ast.Call) and dotted_name(v.func) == "self.processor.process" for v, _u in vs)
    R.check(ok, r_probe, NODES, "_DataNode._process_single_item_with_context", "return Payload(self.processor.process(data, **parameters), context)", "an operation node does not replace the data with the processor's result", f0.lineno)

    # ------------------------------------------------------------------ D4
    r_keys = R.rule("C01-D4-declared-key-enforcement", "context writes/deletes are accepted only for declared keys: the validating observer and DataOperation._notify_context_update test membership before writing; context-processor nodes hand the processor a validating observer built from its own created/suppressed keys; the observer is reset after the call", 7)
    # the two allowed-key sets are found by role, not by name: the attributes of the validating observer in which its
    # constructor stores (a set / tuple / list of) its created-keys resp. suppressed-keys argument
    vinit0 = repo.func(OBS, "_ValidatingContextObserver.__init__")
    vinit = _nf(repo, OBS, "_ValidatingContextObserver.__init__")
    gg = CFG(vinit, may_raise=_no_raise)
    v_self = vinit.args.args[0].arg if vinit.args.args else "self"
    attr_roles: Dict[str, Set[int]] = {}
    if len(vinit.args.args) >= 3:
        for sn in gg.nodes:
            if sn.kind != "stmt" or not isinstance(sn.ast, (ast.Assign, ast.AnnAssign)) or sn.ast.value is None:
                continue
            for t in (sn.ast.targets if isinstance(sn.ast, ast.Assign) else [sn.ast.target]):
                if isinstance(t, ast.Attribute) and dotted_name(t.value) == v_self:
                    v, u = _val(gg, sn.ast.value, sn.id)
                    conv = isinstance(v, ast.Call) and isinstance(v.func, ast.Name) and v.func.id in ("set", "frozenset", "list", "tuple") and len(v.args) == 1 and not v.keywords
                    role = next((idx for idx in (1, 2) if conv and _is_param(gg, v.args[0], u, vinit.args.args[idx].arg)), 0)
                    attr_roles.setdefault(t.attr, set()).add(role)
    allowed_attr = {idx: sorted(a_ for a_, rs in attr_roles.items() if rs == {idx}) for idx in (1, 2)}
    # an attribute a declared-key argument flows into together with anything else is not "the declared keys"
    mixed = sorted(a_ for a_, rs in attr_roles.items() if len(rs) > 1 and rs & {1, 2})
    ok = bool(allowed_attr[1]) and bool(allowed_attr[2]) and not mixed
    R.check(ok, r_keys, OBS, "_ValidatingContextObserver.__init__", "allowed sets = the constructor arguments", "the allowed key sets are not the declared created / suppressed keys", vinit0.lineno)
    for meth, idx in (("update", 1), ("delete", 2)):
        f0 = repo.func(OBS, f"_ValidatingContextObserver.{meth}")
        f = _nf(repo, OBS, f"_ValidatingContextObserver.{meth}")
        gg = CFG(f, may_raise=_no_raise)
        m_self = f.args.args[0].arg if f.args.args else "self"
        allowed = tuple(f"{m_self}.{a_}" for a_ in allowed_attr[idx])
        shown = allowed[0] if allowed else f"<the {'created' if idx == 1 else 'suppressed'}-keys set>"
        supers = [n.id for n in gg.nodes if n.ast is not None and n.kind == "stmt" and any(isinstance(c.func, ast.Attribute) and c.func.attr == meth and isinstance(c.func.value, ast.Call) and call_attr(c.func.value) == "super" for c in calls_in(n.ast))]

        def member(e: ast.AST, use: int, allowed=allowed, f=f, gg=gg) -> Optional[bool]:
            if isinstance(e, ast.Compare) and len(e.ops) == 1 and isinstance(e.ops[0], (ast.In, ast.NotIn)) and _is_param(gg, e.left, use, f.args.args[1].arg) and dotted_name(_val(gg, e.comparators[0], use)[0]) in allowed:
                return isinstance(e.ops[0], ast.In)
            return None

        holds, path, guards = _only_through(gg, member, supers)
        R.check(holds and guards > 0 and bool(supers), r_keys, OBS, f"_ValidatingContextObserver.{meth}", f"key in {shown} dominates super().{meth}", f"an undeclared key can be {'written' if meth == 'update' else 'deleted'} through the validating observer", f0.lineno, path)
    ncu0 = repo.func(DPROC, "DataOperation._notify_context_update")
    ncu = _nf(repo, DPROC, "DataOperation._notify_context_update")
    gg = CFG(ncu, may_raise=_no_raise)
    writes = [n.id for n in gg.nodes if n.ast is not None and n.kind == "stmt" and any(call_attr(c) in ("set_value", "update", "update_context", "set_item_value", "__setitem__") for c in calls_in(n.ast))]
    writes += [n.id for n in gg.nodes if n.kind == "stmt" and isinstance(n.ast, ast.Assign) and any(isinstance(t, ast.Subscript) for t in n.ast.targets)]

    def declared(e: ast.AST, use: int) -> Optional[bool]:
        if isinstance(e, ast.Compare) and len(e.ops) == 1 and isinstance(e.ops[0], (ast.In, ast.NotIn)) and _is_param(gg, e.left, use, ncu.args.args[1].arg):
            cv = _val(gg, e.comparators[0], use)[0]
            if isinstance(cv, ast.Call) and isinstance(cv.func, ast.Name) and cv.func.id in ("set", "frozenset", "list", "tuple") and len(cv.args) == 1:
                cv = _val(gg, cv.args[0], use)[0]
            if isinstance(cv, ast.Call) and isinstance(cv.func, ast.Attribute) and cv.func.attr == "context_keys" and not cv.args:
                return isinstance(e.ops[0], ast.In)
        return None

    holds, path, guards = _only_through(gg, declared, writes)
    R.check(holds and guards > 0 and bool(writes), r_keys, DPROC, "DataOperation._notify_context_update", "key in self.context_keys() dominates the write", "a data operation can write a context key it did not declare", ncu0.lineno, path)
    cpn0 = repo.func(NODES, "_ContextProcessorNode._process_single_item_with_context")
    cpn = _nf(repo, NODES, "_ContextProcessorNode._process_single_item_with_context")
    gg = CFG(cpn, may_raise=_no_raise)
    cpn_payload = cpn.args.args[1].arg if len(cpn.args.args) > 1 else "payload"
    oc = next((c for c in calls_in(cpn) if call_attr(c) == "operate_context"), None)
    ok = False
    observer_ctor_nodes: Set[int] = set()
    if oc is not None:
        ob = kwarg(oc, "context_observer")
        use = _node_of(gg, oc)
        vals = _vals(gg, ob, use) if ob is not None and use is not None else None
        ok = bool(vals) and all(isinstance(v, ast.Call) and call_attr(v) == "_ValidatingContextObserver" for v, _u in vals)
        for v, u in vals or []:
            if not ok:
                break
            observer_ctor_nodes.add(u)
            a = _call_args(v, ("context_keys", "suppressed_keys", "logger")) or {}
            for pname, getter in (("context_keys", "get_created_keys"), ("suppressed_keys", "get_suppressed_keys")):
                leaves = _vals(gg, a[pname], u) if pname in a else None
                empty = lambda x: isinstance(x, (ast.List, ast.Tuple)) and not x.elts
                from_decl = lambda x, getter=getter: isinstance(x, ast.Call) and isinstance(x.func, ast.Attribute) and x.func.attr == getter and not x.args and ast.unparse(x.func.value) in ("self", "self.processor", "type(self)", "self.__class__", "type(self.processor)", "self.processor.__class__")
                ok = ok and bool(leaves) and all(empty(x) or from_decl(x) for x, _u in leaves) and any(from_decl(x) for x, _u in leaves)
    R.check(ok, r_keys, NODES, "_ContextProcessorNode._process_single_item_with_context", "operate_context(context_observer=_ValidatingContextObserver(created keys, suppressed keys))", "a context processor runs with an observer that does not restrict it to its declared created / suppressed keys", cpn0.lineno)
    # the observer handed to the processor is bound to the run's context before the processor runs
    bound = False
    if oc is not None and observer_ctor_nodes:
        oc_node = _node_of(gg, oc)
        binders = []
        for n in gg.nodes:
            if n.kind == "stmt" and isinstance(n.ast, ast.Assign) and len(n.ast.targets) == 1 and isinstance(n.ast.targets[0], ast.Attribute) and n.ast.targets[0].attr == "observer_context" and isinstance(n.ast.targets[0].value, ast.Name):
                tv = _vals(gg, n.ast.targets[0].value, n.id)
                if tv and all(u in observer_ctor_nodes for _v, u in tv) and _is_run_input(gg, n.ast.value, n.id, cpn_payload, "context"):
                    binders.append(n.id)
        bound = bool(binders) and oc_node is not None and not gg.must_pass([gg.entry], [oc_node], lambda n: n.id in binders)
    R.check(bound, r_keys, NODES, "_ContextProcessorNode._process_single_item_with_context", "validating_observer.observer_context = context", "the observer is not bound to the run's context", cpn0.lineno)
    op = repo.func(CPROC, "ContextProcessor.operate_context")
    opn = nfunc(repo, CPROC, "ContextProcessor.operate_context")
    gg = CFG(opn)  # with exception edges: the reset has to happen when the processor fails, too
    op_self = opn.args.args[0].arg if opn.args.args else "self"
    # the statement through which the processor's logic runs: the `_process_logic` call, or (the call moved into a helper
    # of another module) the statement that hands the resolved-parameter mapping on
    op_kw = opn.args.kwarg.arg if opn.args.kwarg is not None else None
    runs_logic = _hands_on_predicate(repo, repo.module(CPROC), gg, op_kw) if op_kw else (lambda n: False)
    logic = [n.id for n in gg.nodes if n.ast is not None and n.kind == "stmt" and (any(call_attr(c) == "_process_logic" for c in calls_in(n.ast)) or runs_logic(n))]

    obs_attrs = {f"{op_self}.{a_}" for a_ in _observer_attrs(repo)}

    def is_reset(n) -> bool:
        """`self.<observer attribute> = None` (the helper that does it is inlined by the normal form); the attribute is
        found by role: the one operate_context stores its `context_observer` argument in"""
        if n.kind != "stmt" or not isinstance(n.ast, (ast.Assign, ast.AnnAssign)) or n.ast.value is None:
            return False
        tg = n.ast.targets if isinstance(n.ast, ast.Assign) else [n.ast.target]
        v = _val(gg, n.ast.value, n.id)[0]
        return any(dotted_name(t) in obs_attrs for t in tg) and isinstance(v, ast.Constant) and v.value is None

    after = [t for l_ in logic for t, _lab in gg.succ[l_]]
    after = [t for t in after if not is_reset(gg.nodes[t])]
    resets = [n.id for n in gg.nodes if is_reset(n)]
    missed = gg.must_pass(after, [gg.ret_exit, gg.exc_exit], is_reset) if logic else []
    direct_exit = [t for l_ in logic for t, _lab in gg.succ[l_] if t in (gg.ret_exit, gg.exc_exit)]
    R.check(bool(logic) and bool(resets) and not missed and not direct_exit, r_keys, CPROC, "ContextProcessor.operate_context", "observer reset on every way out of _process_logic (normal and failing)", "the observer stays attached after the processor ran (a later write goes through a stale observer)", op.lineno, missed[0][1] if missed else None)
    gq = CFG(opn, may_raise=_no_raise)
    rets = [n for n in gq.nodes if n.kind == "stmt" and isinstance(n.ast, ast.Return)]
    ctx_p = next((a_.arg for a_ in opn.args.kwonlyargs + opn.args.args if a_.arg == "context"), "context")
    ok = bool(rets) and all(n.ast.value is not None and _is_param(gq, n.ast.value, n.id, ctx_p) for n in rets) and not gq.must_pass([gq.entry], [gq.ret_exit], lambda n: n.kind == "stmt" and isinstance(n.ast, ast.Return))
    R.check(ok, r_keys, CPROC, "ContextProcessor.operate_context", "return context", "operate_context does not return the run's context object", op.lineno)

    # ------------------------------------------------------------------ D5
    r_seq = R.rule("C01-D5-sequential-abort", "execute visits the instantiated nodes once each in list order, feeds each node the data/context produced by the previous one, and no handler inside the loop swallows a failure", 5)
    ex = repo.func(ORCH, "SemantivaOrchestrator.execute")
    omod = repo.module(ORCH)
    loops = [n for n in walk_no_nested(ex) if isinstance(n, ast.For) and any(call_attr(c) == "_submit_and_wait" for c in calls_in(n))]
    if len(loops) != 1:
        raise AnalysisError("execute(): node loop not found")
    lp = loops[0]
    gx = CFG(ex, may_raise=lambda p: set())
    lp_heads = gx.nodes_for(lp)
    # the node list S is found by role: the sequence whose elements the loop runs (`<element>.process(..)` in the
    # submitted callable); the loop has to bind the element to every item of S, in order, once.
    runs = [c for c in ast.walk(lp) if isinstance(c, ast.Call) and isinstance(c.func, ast.Attribute) and c.func.attr == "process" and (c.args or kwarg(c, "payload") is not None) and any(isinstance(a, FuncNode + (ast.Lambda,)) and any(x is lp for x in ancestors(a)) for a in ancestors(c))]
    trav = None
    for seq in sorted({x.id for x in ast.walk(lp.iter) if isinstance(x, ast.Name)}):
        d = [n for n in reaching_defs(gx, seq, lp_heads[0])] if lp_heads else []
        d = [n for n in d if not any(a is lp for a in ancestors(n.ast))]
        lens = _same_length_names(repo, omod, d[0].ast, seq) if len(d) == 1 and d[0].kind == "stmt" else set()
        t = _traversal(lp, seq, lens)
        if t is not None and runs and all(t(c.func.value) for c in runs):
            trav = (seq, t, d[0].ast if len(d) == 1 else None)
    ok = trav is not None and len(runs) >= 1
    if ok:
        NODES_VAR, is_elem, nodes_def = trav
        idx_names = {x.id for x in ast.walk(lp.target) if isinstance(x, ast.Name)} | {NODES_VAR}
        ok = not any(isinstance(x, ast.Name) and x.id in idx_names and isinstance(x.ctx, (ast.Store, ast.Del)) for st in lp.body + lp.orelse for x in walk_no_nested(st)) and not any(any(a is lp for a in ancestors(s_)) for s_, _r in mutation_sites(ex, {NODES_VAR}, include_nested=True))
    else:
        NODES_VAR, is_elem, nodes_def = "__missing__", (lambda e: False), None
    R.check(ok, r_seq, ORCH, "SemantivaOrchestrator.execute", norm(lp), "nodes are not visited in list order exactly once", lp.lineno)
    # S is what the node factory produced for the resolved spec: bound once, by a call that reaches the node factory
    ok = False
    if nodes_def is not None and isinstance(nodes_def, (ast.Assign, ast.AnnAssign)) and isinstance(nodes_def.value, ast.Call):
        tg = repo.resolve_call(omod, nodes_def.value)
        ok = bool(tg) and all(any(m.rel == NODEFACT for m, _f, _p in repo.call_graph_closure([t_]).values()) for t_ in tg)
        ok = ok and not any(not any(a is lp for a in ancestors(s_)) and (getattr(s_, "lineno", 0) > nodes_def.lineno) for s_, _r in mutation_sites(ex, {NODES_VAR}))
    R.check(ok, r_seq, ORCH, "SemantivaOrchestrator.execute", "nodes, node_defs = self._instantiate_nodes(resolved_spec, logger)", "the node list is not the instantiated spec in order", ex.lineno)
    nc = next((n for n in ast.walk(lp) if isinstance(n, FuncNode + (ast.Lambda,)) and any(call_attr(c) == "process" for c in ast.walk(n) if isinstance(c, ast.Call))), None)
    payload_p = next((a.arg for a in ex.args.args if a.arg == "payload"), "payload")
    def run_var(attr: str) -> str:
        """the local that carries the run's data / context: bound to <payload>.<attr> before the loop (single or tuple assignment)"""
        for n in walk_no_nested(ex):
            if isinstance(n, (ast.Assign, ast.AnnAssign)) and not any(a is lp for a in ancestors(n)):
                for x in ast.walk(n):
                    if isinstance(x, ast.Name) and isinstance(x.ctx, ast.Store):
                        v = _assigned_component(n, x.id)
                        if v is not None and ast.unparse(v) == f"{payload_p}.{attr}":
                            return x.id
        return "__missing__"

    DATA, CONTEXT = run_var("data"), run_var("context")
    ok = False
    if nc is not None:
        for c in ast.walk(nc):
            if isinstance(c, ast.Call) and call_attr(c) == "process" and isinstance(c.func, ast.Attribute) and is_elem(c.func.value) and (c.args or kwarg(c, "payload") is not None):
                a0 = c.args[0] if c.args else kwarg(c, "payload")
                if isinstance(a0, ast.Name):
                    one = assigned_value(nc, a0.id)
                    a0 = one[0] if len(one) == 1 else a0
                pa = _call_args(a0, ("data", "context")) if isinstance(a0, ast.Call) and call_attr(a0) == "Payload" else None
                ok = ok or bool(pa and dotted_name(pa.get("data")) == DATA and dotted_name(pa.get("context")) == CONTEXT and not any(isinstance(x, ast.Name) and x.id in (DATA, CONTEXT) and isinstance(x.ctx, ast.Store) for x in ast.walk(nc)))
    R.check(ok, r_seq, ORCH, "SemantivaOrchestrator.execute", "node.process(Payload(data, context))", "a node is not run on the current data/context pair", lp.lineno)
    g = CFG(ex, may_raise=lambda p: set())
    sub = next(n for n in g.nodes if n.ast is not None and n.kind == "stmt" and any(call_attr(c) == "_submit_and_wait" for c in calls_in(n.ast)))
    heads = g.nodes_for(lp)
    res_var = next((t.id for t in sub.ast.targets if isinstance(t, ast.Name)), None) if isinstance(sub.ast, ast.Assign) else None

    def from_result(v: ast.AST) -> bool:
        src_names = {x.id for x in ast.walk(v) if isinstance(x, ast.Name)}
        return res_var in src_names or any(res_var in {x.id for x in ast.walk(w) if isinstance(x, ast.Name)} for nm in src_names for w in assigned_value(ex, nm))

    ok = res_var is not None
    for var in (DATA, CONTEXT):
        # the statement(s) inside the loop that rebind the carried local from this node's result
        upd = [n.id for n in g.nodes if n.kind == "stmt" and isinstance(n.ast, (ast.Assign, ast.AnnAssign)) and n.ast.value is not None and _defines(n, var) and any(a is lp for a in ancestors(n.ast)) and from_result(_assigned_component(n.ast, var) or n.ast.value)]
        saved = {h: g.succ[h] for h in heads}
        for h in heads:
            g.succ[h] = []
        try:
            bad = g.must_pass([t for t, lab in g.succ[sub.id] if lab == "n"], heads, lambda n: n.id in upd)
        finally:
            for h, v in saved.items():
                g.succ[h] = v
        ok = ok and bool(upd) and not bad
    R.check(ok, r_seq, ORCH, "SemantivaOrchestrator.execute", "data, context = <result of this node> before the next iteration", "the next node does not receive this node's output (data/context not carried forward)", lp.lineno)
    handlers = [h for n in ast.walk(lp) if isinstance(n, ast.Try) and any(call_attr(c) == "_submit_and_wait" for st in n.body for c in calls_in(st)) for h in n.handlers]
    ok = bool(handlers) and all(isinstance(h.body[-1], ast.Raise) and not any(isinstance(x, (ast.Continue, ast.Break, ast.Return)) for x in ast.walk(h)) for h in handlers)
    R.check(ok, r_seq, ORCH, "SemantivaOrchestrator.execute", "handlers around node execution re-raise", "a node failure is swallowed inside the loop: later nodes still run", lp.lineno)

    # ------------------------------------------------------------------ D6
    r_sl = R.rule("C01-D6-slicers", "generated slicing processors iterate their input directly, call the wrapped processor once per element with the same extra arguments, and append results in that order", 2)
    r_fresh = R.rule("C01-D20-slicers-build-a-fresh-result", "a generated slicing processor collects the element results in a collection it creates itself (not the collection it was given, a copy that shares its storage, or an object kept on the processor), never mutates its input, and returns that collection: the input collection may still be referenced by the context (an identity-preserving probe stored it under its key) or by the caller", 2)
    create = repo.func(SLICE, "_SlicingDataProcessorFactory.create")
    procs = [n for n in ast.walk(create) if isinstance(n, FuncNode) and n.name == "process"]
    if len(procs) != 2:
        raise AnalysisError(f"slicer factory: {len(procs)} process overrides found (2 confirmed by reading)")
    for p in procs:
        data_p = p.args.args[1].arg if len(p.args.args) > 1 else "data"
        va, kwa = (p.args.vararg.arg if p.args.vararg else None), (p.args.kwarg.arg if p.args.kwarg else None)
        loops = [n for n in walk_no_nested(p) if isinstance(n, ast.For)]
        comps = [n for n in walk_no_nested(p) if isinstance(n, (ast.ListComp, ast.GeneratorExp, ast.SetComp, ast.DictComp))]
        rebound = any(isinstance(x, ast.Name) and x.id == data_p and isinstance(x.ctx, (ast.Store, ast.Del)) for x in walk_no_nested(p))
        ok = len(loops) + len(comps) == 1 and not rebound

        def mapped_call(scope: ast.AST, is_item) -> Optional[ast.Call]:
            sc = [c for c in calls_in(scope) if isinstance(c.func, ast.Attribute) and c.func.attr == "process" and isinstance(c.func.value, ast.Call) and call_attr(c.func.value) == "super"]
            if len(sc) != 1 or is_item is None or not sc[0].args or not is_item(sc[0].args[0]):
                return None
            stars = [dotted_name(a.value) for a in sc[0].args[1:] if isinstance(a, ast.Starred)]
            dstars = [dotted_name(k.value) for k in sc[0].keywords if k.arg is None]
            if stars != [va] or dstars != [kwa] or len(sc[0].args) != 2 or len(sc[0].keywords) != 1:
                return None
            return sc[0]

        if ok and loops:
            lp_ = loops[0]
            is_item = _traversal(lp_, data_p, set())
            sc0 = mapped_call(lp_, is_item)
            bound = {x.id for x in ast.walk(lp_.target) if isinstance(x, ast.Name)}
            ok = sc0 is not None and not lp_.orelse and not any(isinstance(x, (ast.If, ast.IfExp, ast.Continue, ast.Break, ast.Return, ast.Try, ast.While)) for x in ast.walk(lp_)) and not any(isinstance(x, ast.Name) and x.id in bound and isinstance(x.ctx, (ast.Store, ast.Del)) for st in lp_.body for x in ast.walk(st))
            if ok:
                # the element result is what gets appended (directly or through one local)
                holder = {t.id for st in lp_.body if isinstance(st, ast.Assign) and st.value is sc0 for t in st.targets if isinstance(t, ast.Name)}
                apps = [c for c in calls_in(lp_) if call_attr(c) == "append" and len(c.args) == 1]
                ok = len(apps) == 1 and (apps[0].args[0] is sc0 or (isinstance(apps[0].args[0], ast.Name) and apps[0].args[0].id in holder))
        elif ok:
            cp = comps[0]
            gen = cp.generators[0]
            sc0 = mapped_call(cp, _traversal(gen, data_p, set())) if len(cp.generators) == 1 and not gen.ifs and not gen.is_async else None
            ok = sc0 is not None and isinstance(cp, (ast.ListComp, ast.GeneratorExp)) and cp.elt is sc0
        R.check(ok, r_sl, SLICE, qualname_of(p), "for item in data: out.append(super().process(item, *args, **kwargs))", "a slicer does not map the wrapped processor over the elements in order with the resolved parameters", p.lineno)
        _slicer_result_is_fresh(R, r_fresh, p, data_p, loops[0] if ok and loops else None, apps[0] if ok and loops else None, comps[0] if ok and comps else None, shape_known=ok)

    # ------------------------------------------------------------------ D7
    r_sh = R.rule("C01-D7-shorthand-table", "each registered shorthand prefix is handled by the resolver whose pattern starts with that prefix, and the pattern's groups feed the matching factory arguments in order", 4)
    rmod = repo.module(RESOLVERS)
    regs = {}
    reg_fn = repo.func(RESOLVERS, "register_builtin_resolvers")
    for c in calls_in(reg_fn):
        if call_name(c) == "NameResolverRegistry.register_resolver" and len(c.args) == 2 and isinstance(c.args[0], ast.Constant):
            regs[c.args[0].value] = dotted_name(c.args[1])
    patterns = {}
    for st in rmod.tree.body:
        if isinstance(st, ast.Assign) and isinstance(st.value, ast.Call) and call_name(st.value) == "re.compile" and st.value.args and isinstance(st.value.args[0], ast.Constant):
            patterns[dotted_name(st.targets[0])] = st.value.args[0].value
    facs = _shorthand_factories(repo)
    fname = lambda pfx: facs[pfx][1].name if pfx in facs else _OLD_FACTORY_NAMES[pfx]
    expected = {"rename:": (fname("rename:"), ["src", "dst"]), "delete:": (fname("delete:"), ["key"]), "template:": (fname("template:"), ["template", "out"]), "slice:": ("slice", ["proc", "collection"])}
    for prefix, (factory, groups) in expected.items():
        fn_name = regs.get(prefix)
        f = rmod.defs.get(fn_name or "")
        ok = isinstance(f, FuncNode)
        if ok:
            used = [dotted_name(c.func.value) for c in calls_in(f) if call_attr(c) == "match" and isinstance(c.func, ast.Attribute)]
            pat = patterns.get(used[0]) if used else None
            ok = pat is not None and pat.startswith("^" + prefix)
            fc = [c for c in ast.walk(f) if isinstance(c, ast.Call) and call_attr(c) == factory]
            got = []
            by_signature = False
            if fc:
                # arguments in the order of the factory's own parameters (keyword arguments may be written in any order)
                arg_list = list(fc[-1].args) + [k.value for k in fc[-1].keywords]
                try:
                    tg = repo.resolve_call(rmod, fc[-1])
                except Exception:
                    tg = []
                if len(tg) == 1 and isinstance(tg[0][1], FuncNode):
                    pnames = tuple(a.arg for a in tg[0][1].args.args)
                    bound_args = _call_args(fc[-1], pnames)
                    if bound_args is not None:
                        arg_list = [bound_args[pn] for pn in pnames if pn in bound_args]
                        by_signature = True
                for a in arg_list:
                    for g2 in ast.walk(a):
                        if isinstance(g2, ast.Call) and call_attr(g2) == "group" and g2.args and isinstance(g2.args[0], ast.Constant):
                            got.append(g2.args[0].value)
                            break
                    else:
                        # slice: groups flow through locals
                        for nm in {x.id for x in ast.walk(a) if isinstance(x, ast.Name)}:
                            for v in assigned_value(f, nm):
                                for g2 in ast.walk(v):
                                    if isinstance(g2, ast.Call) and call_attr(g2) == "group" and g2.args and isinstance(g2.args[0], ast.Constant):
                                        got.append(g2.args[0].value)
            ok = ok and got == groups
            if ok and prefix == "template:" and not by_signature:
                kws = [k.arg for k in fc[-1].keywords]
                ok = kws == ["template", "output_key"]
        R.check(ok, r_sh, RESOLVERS, fn_name or prefix, f"{prefix} -> {factory}({', '.join(groups)})", f"shorthand {prefix} is not resolved by its own pattern with the groups in the documented argument order", getattr(f, "lineno", 0))

    # ------------------------------------------------------------------ D8
    r_io = R.rule("C01-D8-io-adapters", "sink adapters return the data they were given after sending it; source adapters return what the source produced and ignore their input", 4)
    iof = repo.func(IOF, "_IOOperationFactory.create_data_operation")
    logics = [n for n in ast.walk(iof) if isinstance(n, FuncNode) and n.name.startswith("_process_logic")]
    n_seen = 0
    for lf in logics:
        calls_io = [c for c in calls_in(lf) if call_attr(c) in ("send_data", "_send_data", "send_payload", "_send_payload", "get_data", "_get_data", "get_payload", "_get_payload")]
        if not calls_io:
            continue
        n_seen += 1
        kind = "sink" if any("send" in call_attr(c) for c in calls_io) else "source"
        rets = [n for n in walk_no_nested(lf) if isinstance(n, ast.Return) and n.value is not None]
        data_param = lf.args.args[1].arg if len(lf.args.args) > 1 else "data"
        if kind == "sink":
            ok = bool(rets) and all(dotted_name(r.value) == data_param for r in rets) and not any(isinstance(n, ast.Assign) and any(dotted_name(t) == data_param for t in n.targets) for n in ast.walk(lf))
            R.check(ok, r_io, IOF, qualname_of(lf), f"sink adapter returns `{data_param}` unchanged", "a sink adapter returns something other than the data it received", lf.lineno)
        else:
            ok = bool(rets)
            for r in rets:
                names = {x.id for x in ast.walk(r.value) if isinstance(x, ast.Name)}
                ok = ok and data_param not in names
            R.check(ok, r_io, IOF, qualname_of(lf), "source adapter returns the loaded value, not its input", "a source adapter passes its input through", lf.lineno)
    if n_seen < 4:
        raise AnalysisError(f"IO adapter templates: {n_seen} _process_logic bodies recognised (4 confirmed by reading)")

    _rule_run_inputs(repo, R, nmod, res)
    _rule_forwarding(repo, R)
    _rule_shorthand_processors(repo, R)
    _rule_no_process_state(repo, R)
    _rule_payload_source_merge(repo, R, nmod)
    _rule_template_rendering(repo, R)
    _rule_log_ranges(repo, R)
    _rule_entry_points_pass_names(repo, R, nmod)
    _rule_wrappers_forward_advertised(repo, R)
    _rule_payload_source_adapter(repo, R)
    _rule_write_then_delete(repo, R)
    _rule_generated_closures(repo, R)
    _rule_product_order(repo, R)
    _rule_declaration_not_rewritten(repo, R)
    _rule_default_tables(repo, R)


# ---------------------------------------------------------------------- D25
def _global_id(mod, e: ast.AST) -> Optional[str]:
    """Package-wide identity of a module-level object named by *e* in *mod* (through `from .. import`), else None."""
    d = dotted_name(e)
    if not d:
        return None
    head, _, rest = d.partition(".")
    tgt = mod.imports.get(head)
    if tgt:
        return tgt + ("." + rest if rest else "")
    if not rest and (head in mod.defs or any(isinstance(st, (ast.Assign, ast.AnnAssign)) and any(dotted_name(t) == head for t in (st.targets if isinstance(st, ast.Assign) else [st.target])) for st in mod.tree.body)):
        return f"{mod.dotted}.{head}"
    return None


def _rule_default_tables(repo: Repo, R: Report) -> None:
    """Interface between the resolver and the tables it reads defaults from.  The resolver decides `there is a default`
    by identity with one module-level sentinel object; the default look-up returns `<record>.default` of the processor's
    `parameters` metadata.  Every place that fills such a record from an inspected signature therefore has to translate
    the signature's own `no default` marker (inspect.Parameter.empty) into that sentinel - exactly there."""
    r = R.rule("C01-D25-declared-defaults-speak-the-resolver-s-sentinel", "wherever a parameter record of the `parameters` metadata (the record class the default look-up of resolve_runtime_value reads `.default` from) is filled from an inspected signature, its default is `<p>.default` exactly where `<p>.default is not inspect.Parameter.empty` and the resolver's no-default sentinel (the object the resolver compares the looked-up default with by identity) exactly where it is: a record that carries inspect.Parameter.empty makes an unresolvable parameter resolve to that marker (the node runs instead of raising KeyError), a record that carries the sentinel for a parameter with a default makes `default` placement raise", 3)
    pmod = repo.module(PARAMRES)
    rrv = repo.func(PARAMRES, "resolve_runtime_value")
    keep = tuple(_default_lookup_helpers(repo, pmod, rrv))
    rrv_n = nfunc(repo, PARAMRES, "resolve_runtime_value", keep=keep)
    lookups = default_lookups(rrv_n)
    sent_ids = {_global_id(pmod, ast.parse(s_, mode="eval").body) for s_ in sentinel_names(rrv_n)} - {None}
    # the record class: what the look-up helper tests its table entry against before it returns `.default`
    rec_ids: Set[str] = set()
    for c in lookups:
        try:
            tg = repo.resolve_call(pmod, c)
        except Exception:
            tg = []
        for hm, H in tg:
            if not isinstance(H, FuncNode):
                continue
            for x in ast.walk(H):
                if isinstance(x, ast.Call) and isinstance(x.func, ast.Name) and x.func.id == "isinstance" and len(x.args) == 2:
                    for k in (x.args[1].elts if isinstance(x.args[1], ast.Tuple) else [x.args[1]]):
                        gid = _global_id(hm, k)
                        if gid and isinstance((repo.resolve_name(hm, k, x) or (None, None))[1], ast.ClassDef):
                            rec_ids.add(gid)
    if not sent_ids or not rec_ids:
        raise AnalysisError(f"resolve_runtime_value: no-default sentinel ({sorted(sent_ids)}) / parameter record class ({sorted(rec_ids)}) not identified by role")

    def is_empty_marker(e: ast.AST) -> bool:
        d = dotted_name(e) or ""
        return d.split(".")[-1] in ("empty", "_empty") and "." in d

    n_sites = 0
    for m, qn, F in repo.all_functions():
        sites = [c for c in walk_no_nested(F) if isinstance(c, ast.Call) and _global_id(m, c.func) in rec_ids]
        if not sites:
            continue
        try:
            f = nfunc(repo, m.rel, qn)
        except Exception:
            f = F
        sites = [c for c in walk_no_nested(f) if isinstance(c, ast.Call) and _global_id(m, c.func) in rec_ids]
        g = CFG(f, may_raise=_no_raise)
        for c in sites:
            a = _call_args(c, ("default", "annotation"))
            use = _node_of(g, c)
            if not a or "default" not in a or use is None:
                continue
            plain = _vals(g, a["default"], use)
            if not plain:
                continue
            subjects = {ast.dump(v.value) for v, _u in plain if isinstance(v, ast.Attribute) and v.attr == "default"}
            if not subjects:
                continue  # not filled from a signature (a literal default, a copied record)
            repo.consulted.add(m.rel)
            n_sites += 1
            subj = sorted(subjects)[0]

            def has_default(e: ast.AST, u: int, subj=subj) -> Optional[bool]:
                if isinstance(e, ast.Compare) and len(e.ops) == 1 and isinstance(e.ops[0], (ast.Is, ast.IsNot, ast.Eq, ast.NotEq)):
                    for x, y in ((e.left, e.comparators[0]), (e.comparators[0], e.left)):
                        if isinstance(x, ast.Attribute) and x.attr == "default" and ast.dump(x.value) == subj and is_empty_marker(y):
                            return isinstance(e.ops[0], (ast.IsNot, ast.NotEq))
                return None

            no_default = lambda e, u: (None if has_default(e, u) is None else not has_default(e, u))

            def leaves(e: ast.AST, u: int, pol: Optional[bool], depth: int = 0) -> List[Tuple[ast.AST, Optional[bool]]]:
                """(value, True: only reached where the parameter has a default / False: only where it has none / None)"""
                if depth > 10:
                    return [(e, pol)]
                if isinstance(e, ast.IfExp):
                    yes, no = _edges(g, e.test, u, has_default), _edges(g, e.test, u, no_default)
                    pb = pol if pol is not None else (True if "T" in yes else False if "T" in no else None)
                    po = pol if pol is not None else (True if "F" in yes else False if "F" in no else None)
                    return leaves(e.body, u, pb, depth + 1) + leaves(e.orelse, u, po, depth + 1)
                if isinstance(e, ast.Name):
                    bs = _bound_values(g, e.id, u)
                    if bs:
                        out_: List[Tuple[ast.AST, Optional[bool]]] = []
                        for v, d in bs:
                            if isinstance(v, ast.Name) and v.id == e.id and d == g.entry:
                                out_.append((v, pol))
                                continue
                            pd = pol
                            if pd is None and d != g.entry:
                                pd = True if _only_through(g, has_default, [d])[0] else False if _only_through(g, no_default, [d])[0] else None
                            out_ += leaves(v, d, pd, depth + 1)
                        return out_
                return [(e, pol)]

            bad: Optional[str] = None
            if len(subjects) > 1:
                bad = "the default is read from more than one signature parameter"
            for v, pol in ([] if bad else leaves(a["default"], use, None)):
                if isinstance(v, ast.Attribute) and v.attr == "default" and ast.dump(v.value) == subj:
                    if pol is not True:
                        bad = f"`{ast.unparse(v)}` is stored as the declared default without `{ast.unparse(v)} is not inspect.Parameter.empty` in front of it: for a parameter without a default the record carries inspect.Parameter.empty, which is not the resolver's sentinel - the resolver hands that marker to the processor instead of raising KeyError for the unresolvable parameter"
                        break
                elif _global_id(m, v) in sent_ids:
                    if pol is not False:
                        bad = f"the no-default sentinel `{ast.unparse(v)}` is stored although the signature parameter may have a default (not decided by `<p>.default is inspect.Parameter.empty`): a parameter left to its default raises KeyError at this node"
                        break
                elif is_empty_marker(v):
                    bad = f"`{ast.unparse(v)}` is stored as the declared default: it is not the resolver's sentinel"
                    break
                elif pol is False:
                    bad = f"`{ast.unparse(v)[:50]}` is stored for a parameter without a default instead of the resolver's no-default sentinel: the resolver takes it for a declared default, an unresolvable parameter does not raise KeyError"
                    break
            R.check(bad is None, r, m.rel, qn, f"`{norm(c)[:60]}`: default = <p>.default if <p>.default is not inspect.Parameter.empty else <sentinel>", bad or "", c.lineno)
    if not n_sites:
        raise AnalysisError("no parameter record filled from an inspected signature found (3 confirmed by reading: DataOperation / ContextProcessor _retrieve_parameter_details, _IOOperationFactory.create_data_operation)")


# ---------------------------------------------------------------------- D9
_OLD_FACTORY_NAMES = {"rename:": "_context_renamer_factory", "delete:": "_context_deleter_factory", "template:": "_context_template_factory"}


def _shorthand_factories(repo: Repo) -> Dict[str, Tuple[str, ast.AST]]:
    """prefix -> (module path, function) of the factory that generates the processor class of a rename: / delete: /
    template: shorthand, found by role: the package function the resolver registered for the prefix returns the result
    of, and that defines (nested) a method asking for a context write / deletion.  Where the role cannot be followed
    the name confirmed by reading (in factory.py) is the fallback."""
    out: Dict[str, Tuple[str, ast.AST]] = {}
    writers, deleters = _notifier_names(repo)
    if repo.has_module(RESOLVERS):
        rmod = repo.module(RESOLVERS)
        regs: Dict[str, str] = {}
        for F in [n for n in ast.walk(rmod.tree) if isinstance(n, FuncNode)]:
            for c in calls_in(F):
                if call_attr(c) == "register_resolver" and len(c.args) == 2 and isinstance(c.args[0], ast.Constant) and isinstance(c.args[0].value, str):
                    regs.setdefault(c.args[0].value, dotted_name(c.args[1]) or "")
        for prefix in _OLD_FACTORY_NAMES:
            f = rmod.defs.get(regs.get(prefix, ""))
            if not isinstance(f, FuncNode):
                continue
            cands: List[Tuple[str, ast.AST]] = []
            for c in calls_in(f):
                try:
                    tg = repo.resolve_call(rmod, c)
                except Exception:
                    tg = []
                for m, F in tg:
                    if isinstance(F, FuncNode) and any(isinstance(n, FuncNode) and n is not F and any(call_attr(x) in writers | deleters for x in calls_in(n)) for n in ast.walk(F)):
                        if not any(F is y for _r, y in cands):
                            cands.append((m.rel, F))
            if len(cands) == 1:
                out[prefix] = cands[0]
    for prefix, nm in _OLD_FACTORY_NAMES.items():
        if prefix not in out and repo.has_module(CFACT) and isinstance(repo.module(CFACT).defs.get(nm), FuncNode):
            out[prefix] = (CFACT, repo.module(CFACT).defs[nm])
    return out


def _default_lookup_helpers(repo: Repo, pmod, rrv: ast.AST) -> List[str]:
    """Names of the helpers that look a parameter's declared default up, by role: what the resolver calls with the
    processor class and the parameter's name, and every private function of the resolver's module that can return a
    module-level object some identity test (`is` / `is not`) of the module compares against - the no-default sentinel.
    These stay calls in the resolver's normal form (any other private helper the chain was split into is absorbed)."""
    out = {(dotted_name(c.func) or "").split(".")[-1] for c in default_lookups(rrv)}
    ident = {dotted_name(x) for n in ast.walk(pmod.tree) if isinstance(n, ast.Compare) and any(isinstance(o, (ast.Is, ast.IsNot)) for o in n.ops) for x in [n.left] + list(n.comparators) if isinstance(x, ast.Name)}
    for H in pmod.tree.body:
        if isinstance(H, FuncNode) and H is not rrv and H.name.startswith("_"):
            bound = _fn_params(H) | {x.id for x in walk_no_nested(H) if isinstance(x, ast.Name) and isinstance(x.ctx, (ast.Store, ast.Del))}
            if any(isinstance(n, ast.Return) and isinstance(n.value, ast.Name) and n.value.id in ident and n.value.id not in bound for n in walk_no_nested(H)):
                out.add(H.name)
    return sorted(x for x in out if x)


def _observer_attrs(repo: Repo) -> Set[str]:
    """Attribute(s) of a context processor that hold the active observer, by role: whatever
    `ContextProcessor.operate_context` (normal form: setter helpers inlined) stores its `context_observer`
    argument in."""
    opn = nfunc(repo, CPROC, "ContextProcessor.operate_context")
    if not opn.args.args:
        return set()
    g = CFG(opn, may_raise=_no_raise)
    me = opn.args.args[0].arg
    out: Set[str] = set()
    for n in g.nodes:
        if n.kind == "stmt" and isinstance(n.ast, (ast.Assign, ast.AnnAssign)) and n.ast.value is not None:
            for t in (n.ast.targets if isinstance(n.ast, ast.Assign) else [n.ast.target]):
                if isinstance(t, ast.Attribute) and dotted_name(t.value) == me and _is_param(g, n.ast.value, n.id, "context_observer"):
                    out.add(t.attr)
    if not out:
        raise AnalysisError("ContextProcessor.operate_context: the attribute that receives the `context_observer` argument was not found")
    return out


def _no_raise(_part: ast.AST) -> Set[str]:
    return set()


def _assigned_component(st: ast.AST, name: str) -> Optional[ast.AST]:
    """The expression bound to *name* by assignment statement *st* (`a = e`, `a, b = e1, e2`, `a: T = e`)."""
    if isinstance(st, ast.AnnAssign):
        return st.value if isinstance(st.target, ast.Name) and st.target.id == name else None
    if not isinstance(st, ast.Assign):
        return None
    for t in st.targets:
        if isinstance(t, ast.Name) and t.id == name:
            return st.value
        if isinstance(t, (ast.Tuple, ast.List)) and isinstance(st.value, (ast.Tuple, ast.List)) and len(t.elts) == len(st.value.elts):
            for te, ve in zip(t.elts, st.value.elts):
                if isinstance(te, ast.Name) and te.id == name:
                    return ve
    return None


def _is_run_input(g: CFG, e: ast.AST, use: int, payload_p: str, attr: str, depth: int = 0) -> bool:
    """Does expression *e*, evaluated at CFG node *use*, necessarily denote `<payload>.<attr>` of the
    payload the method was called with?  Locals are followed through their reaching definitions;
    `self.<x>` is accepted when every store to it in the method stores the run input and one of
    them dominates the use."""
    if depth > 8:
        return False
    dn = dotted_name(e)
    if dn == f"{payload_p}.{attr}":
        return not reaching_defs(g, payload_p, use)  # the parameter itself, not a rebound local
    if isinstance(e, ast.Name):
        defs = reaching_defs(g, e.id, use)
        if not defs:
            return False
        for d in defs:
            v = _assigned_component(d.ast, e.id) if d.kind == "stmt" else None
            if v is None or not _is_run_input(g, v, d.id, payload_p, attr, depth + 1):
                return False
        return True
    if dn and dn.startswith("self.") and dn.count(".") == 1:
        stores = [n for n in g.nodes if n.kind == "stmt" and isinstance(n.ast, ast.Assign) and any(dotted_name(t) == dn for t in n.ast.targets)]
        if not stores or not all(_is_run_input(g, s.ast.value, s.id, payload_p, attr, depth + 1) for s in stores):
            return False
        return any(g.dominated_by_node(use, s.id) for s in stores if s.id != use)
    return False


def _rule_run_inputs(repo: Repo, R: Report, nmod, res: "_Resolution") -> None:
    r = R.rule("C01-D9-run-inputs-reach-the-processor", "in every node body the context handed to parameter resolution (and to operate_context) is the context of the payload the node was given, and the data handed to the processor is that payload's data", 10)
    for qn, f0 in _node_bodies(nmod):
        if len(f0.args.args) < 2:
            continue
        f = _nf(repo, NODES, qn)
        sp, payload_p = f.args.args[0].arg, f.args.args[1].arg
        g = CFG(f, may_raise=_no_raise)
        for c in calls_in(f):
            wanted: List[Tuple[Optional[ast.AST], str, str]] = []
            recv, meth = (dotted_name(c.func.value), c.func.attr) if isinstance(c.func, ast.Attribute) else (None, None)
            if recv == f"{sp}.processor" and meth == "process":
                wanted.append((c.args[0] if c.args else kwarg(c, "data"), "data", "the processor is run on"))
            elif recv == f"{sp}.processor" and meth == "operate_context":
                wanted.append((kwarg(c, "context") or (c.args[0] if c.args else None), "context", "the context processor operates on"))
            else:
                # a call that resolves parameters (builder / fetcher found by D1, or the resolver itself)
                e = res.resolution_context(g, c)
                if e is not None:
                    wanted.append((e, "context", "parameters are resolved against"))
            for e, attr, what in wanted:
                use = _node_of(g, c)
                ok = e is not None and use is not None and _is_run_input(g, e, use, payload_p, attr)
                R.check(ok, r, NODES, qn, norm(c)[:90], f"{what} `{ast.unparse(e) if e is not None else '?'}`, which is not (provably) `{payload_p}.{attr}` of the payload this node received: values placed in the pipeline context (initial context, keys written by earlier nodes) are invisible to this node / it works on other data", c.lineno)


# ---------------------------------------------------------------------- D10
def _rule_forwarding(repo: Repo, R: Report) -> None:
    r = R.rule("C01-D10-accepted-writes-and-deletes-are-carried-out", "between a processor's _notify_context_update/_notify_context_deletion and the context mapping no layer skips the operation: every normally-returning path of each forwarding method performs the forwarding call with the caller's key (validation may only reject by raising), so a declared write happens and deleting an absent key fails at this node", 8)

    def forwarded(rel: str, qn: str, is_fwd, what: str, bad: str) -> None:
        f0 = repo.func(rel, qn)
        f = _nf(repo, rel, qn)
        g = CFG(f, may_raise=_no_raise)
        fwd = {n.id for n in g.nodes if n.ast is not None and n.kind == "stmt" and is_fwd(f, g, n.ast, n.id)}
        miss = g.must_pass([g.entry], [g.ret_exit], lambda n: n.id in fwd)
        R.check(bool(fwd) and not miss, r, rel, qn, what, bad, f0.lineno, miss[0][1] if miss else None)
        # a handler around the forwarding call that does not re-raise turns the prescribed failure into a skip
        for t in [n for n in walk_no_nested(f) if isinstance(n, ast.Try)]:
            if any(is_fwd(f, g, st, _node_of(g, st)) for b in t.body for st in ast.walk(b) if isinstance(st, ast.stmt) and not isinstance(st, (ast.If, ast.For, ast.While, ast.With, ast.Try))):
                for h in t.handlers:
                    if not (h.body and isinstance(h.body[-1], ast.Raise)):
                        R.violation(r, rel, qn, norm(h)[:80], f"the failure of the forwarded operation is caught and not re-raised ({what}): the node completes although the operation failed, later nodes run", h.lineno)

    def all_args(c: ast.Call) -> List[ast.AST]:
        return list(c.args) + [k.value for k in c.keywords if k.arg is not None]

    def first_arg(c: ast.Call, pname: str) -> Optional[ast.AST]:
        return c.args[0] if c.args and not isinstance(c.args[0], ast.Starred) else kwarg(c, pname)

    # validating observer -> base observer
    for meth in ("update", "delete"):
        def is_super(f, g, st, use, meth=meth) -> bool:
            return use is not None and any(isinstance(c.func, ast.Attribute) and c.func.attr == meth and isinstance(c.func.value, ast.Call) and call_attr(c.func.value) == "super" and _is_param(g, first_arg(c, "key"), use, f.args.args[1].arg) for c in calls_in(st))
        forwarded(OBS, f"_ValidatingContextObserver.{meth}", is_super, f"every accepted key reaches super().{meth}(key, ...)",
                  f"a declared key is accepted but the {meth} is skipped on some path (extra condition after the membership test): " + ("deleting a key that is not in the context no longer raises KeyError at this node, the node completes and later nodes run" if meth == "delete" else "a declared write is silently dropped"))
    # base observer -> static helpers on the bound context
    for meth, helper in (("update", "update_context"), ("delete", "delete_context")):
        def is_helper(f, g, st, use, helper=helper) -> bool:
            for c in calls_in(st):
                if use is None or call_attr(c) != helper:
                    continue
                a = _call_args(c, ("context", "key", "value", "index") if helper == "update_context" else ("context", "key", "index"))
                if a and "context" in a and "key" in a and dotted_name(_val(g, a["context"], use)[0]) == "self.observer_context" and _is_param(g, a["key"], use, f.args.args[1].arg):
                    return True
            return False
        forwarded(OBS, f"_ContextObserver.{meth}", is_helper, f"{helper}(self.observer_context, key, ...) on every path", f"the observer does not apply the {meth} to its bound context on some path")
    # static helpers -> the mapping
    for helper, muts in (("update_context", ("set_value", "set_item_value")), ("delete_context", ("delete_value", "delete_item_value"))):
        def is_mut(f, g, st, use, muts=muts) -> bool:
            if use is None:
                return False
            ctx_p, key_p = f.args.args[0].arg, f.args.args[1].arg
            for c in calls_in(st):
                if isinstance(c.func, ast.Attribute) and c.func.attr in muts and _is_param(g, c.func.value, use, ctx_p) and any(_is_param(g, a, use, key_p) for a in all_args(c)):
                    return True
            tg: List[ast.AST] = []
            if isinstance(st, ast.Assign) and muts[0] == "set_value":
                tg = list(st.targets)
            if isinstance(st, ast.Delete) and muts[0] == "delete_value":
                tg = list(st.targets)
            # an item store / del on (a part of) the context object, however the part is named
            return any(isinstance(t, ast.Subscript) and _is_param(g, t.slice, use, key_p) and _rooted_in_param(g, t.value, use, ctx_p) for t in tg)
        forwarded(OBS, f"_ContextObserver.{helper}", is_mut, f"every path mutates `context` under `key` ({'/'.join(muts)} or item store)", f"{helper} returns normally on some path without touching the context")
    # context processor -> its observer
    obs_attr_names = _observer_attrs(repo)
    for meth, obs_meth in (("_notify_context_update", "update"), ("_notify_context_deletion", "delete")):
        def is_obs(f, g, st, use, obs_meth=obs_meth) -> bool:
            return use is not None and any(isinstance(c.func, ast.Attribute) and c.func.attr == obs_meth and dotted_name(_val(g, c.func.value, use)[0]) in {f"{f.args.args[0].arg}.{a_}" for a_ in obs_attr_names} and _is_param(g, first_arg(c, "key"), use, f.args.args[1].arg) for c in calls_in(st))
        forwarded(CPROC, f"ContextProcessor.{meth}", is_obs, f"self._context_observer.{obs_meth}(key, ...) on every path", f"a context processor's {obs_meth} request is dropped on some path instead of being forwarded to the (validating) observer")


# ---------------------------------------------------------------------- D11
CFACT = "semantiva/context_processors/factory.py"


def _rule_shorthand_processors(repo: Repo, R: Report) -> None:
    r = R.rule("C01-D11-shorthand-processors-act-on-presence", "the processors generated for rename:/delete:/template: perform their declared write/delete whenever the consumed key was resolved (the only condition allowed in front of it is the presence test `key in kwargs`; a test on the resolved *value*, `kwargs.get(key) is not None` included, skips a key that is present and holds None / 0 / ''), on the declared keys, with the resolved value", 4)

    facs = _shorthand_factories(repo)

    def logic_of(prefix: str) -> Tuple[str, ast.AST, ast.AST]:
        if prefix not in facs:
            raise AnalysisError(f"{prefix} the factory that generates the shorthand's processor was not found")
        rel, fac = facs[prefix]
        repo.consulted.add(rel)
        fns = [n for n in ast.walk(fac) if isinstance(n, FuncNode) and n is not fac and any(call_attr(c) in ("_notify_context_update", "_notify_context_deletion") for c in calls_in(n))]
        if len(fns) != 1 or fns[0].args.kwarg is None:
            raise AnalysisError(f"{fac.name}: generated _process_logic(self, **kwargs) not found")
        return rel, fac, fns[0]

    def analyse(prefix: str, consumed_idx: Optional[int], expect: List[Tuple[str, int]]) -> None:
        CFACT, fac, f = logic_of(prefix)
        factory = fac.name
        fparams = [a.arg for a in fac.args.args]
        kw = f.args.kwarg.arg
        defs = _single_defs(f)
        consumed = fparams[consumed_idx] if consumed_idx is not None else None

        def reads_consumed(e: ast.AST) -> bool:
            e = _resolved(e, defs)
            if isinstance(e, ast.Call) and isinstance(e.func, ast.Attribute) and e.func.attr == "get" and dotted_name(e.func.value) == kw and len(e.args) == 1 and not e.keywords:
                return dotted_name(e.args[0]) == consumed
            return isinstance(e, ast.Subscript) and dotted_name(e.value) == kw and dotted_name(e.slice) == consumed

        def absent(e: ast.AST) -> Optional[bool]:
            """True: *e* says the consumed key was not resolved; False: it says it was."""
            if isinstance(e, ast.Name) and e.id in defs:
                return absent(defs[e.id])
            if isinstance(e, ast.Compare) and len(e.ops) == 1:
                op, a, b = e.ops[0], e.left, e.comparators[0]
                if isinstance(op, (ast.In, ast.NotIn)) and dotted_name(a) == consumed and dotted_name(b) == kw:
                    return isinstance(op, ast.NotIn)
            return None

        g = CFG(f, may_raise=_no_raise)
        blocked: Set[Tuple[int, str]] = set()
        if consumed is not None:
            for n in g.nodes:
                if n.kind in ("if", "while") and n.part is not None:
                    for lab in edges_guaranteeing(n.part, absent):
                        blocked.add((n.id, lab))
        for meth, key_idx in expect:
            want_key = fparams[key_idx]
            def key_arg(c: ast.Call) -> Optional[ast.AST]:
                a = _call_args(c, ("key", "value"))
                return _resolved(a["key"], defs) if a and "key" in a else None

            sites = {n.id for n in g.nodes if n.ast is not None and n.kind == "stmt" and any(call_attr(c) == meth and dotted_name(c.func) == f"{f.args.args[0].arg}.{meth}" and dotted_name(key_arg(c)) == want_key for c in calls_in(n.ast))}
            miss = g.must_pass([g.entry], [g.ret_exit], lambda n: n.id in sites, blocked_edges=blocked)
            tests = sorted({ast.unparse(n.part)[:50] for n in g.nodes if n.kind in ("if", "while") and n.part is not None and not edges_guaranteeing(n.part, absent)})
            R.check(bool(sites) and not miss, r, CFACT, f"{factory}._process_logic", f"self.{meth}({want_key}, ...) whenever the key was resolved",
                    f"the generated processor can finish without `{meth}({want_key})` although the consumed key was resolved" + (f" (guarded by `{tests[0]}`, which is not the presence test: a key that is present and holds None / 0 / False / '' / [] is neither renamed nor deleted, later nodes see the wrong context)" if tests else ""), f.lineno, miss[0][1] if miss else None)
            if meth == "_notify_context_update" and consumed is not None:
                vals = [a["value"] for a in (_call_args(c, ("key", "value")) for c in calls_in(f) if call_attr(c) == meth) if a and "value" in a]
                R.check(bool(vals) and all(reads_consumed(v) for v in vals), r, CFACT, f"{factory}._process_logic", f"the value written under {want_key} is the resolved value of {consumed}", "the destination key does not receive the value resolved for the source key", f.lineno)

    analyse("rename:", 0, [("_notify_context_update", 1), ("_notify_context_deletion", 0)])
    analyse("delete:", 0, [("_notify_context_deletion", 0)])
    analyse("template:", None, [("_notify_context_update", 1)])


# ---------------------------------------------------------------------- D12
NODEFACT = "semantiva/pipeline/nodes/_pipeline_node_factory.py"
CTYPES = "semantiva/context_processors/context_types.py"
SWEEP = "semantiva/data_processors/parametric_sweep_factory.py"
COMPONENT = "semantiva/core/semantiva_component.py"
# every function of these files is part of what a node computes (resolution, gate, observers, generated processors)
_NODE_PATH_FILES = (NODES, NODEFACT, PAYP, OBS, DPROC, CPROC, CTYPES, SLICE, IOF, CFACT, SWEEP)
_STATE_EXEMPT = ("semantiva/registry/", "semantiva/logger/", "semantiva/exceptions/")  # name -> class tables, logging
_SINKS = {"append", "extend", "add", "update", "insert", "appendleft", "discard", "remove", "__setitem__"}
_EVICT = {"clear", "pop", "popitem"}


def _scope_locals(f: ast.AST) -> Set[str]:
    """Names local to *f* or to a function it is nested in (parameters, stores, imports), `global` ones excluded."""
    out: Set[str] = set()
    for fn in [f] + [a for a in ancestors(f) if isinstance(a, FuncNode)]:
        loc = set(_fn_params(fn))
        globs: Set[str] = set()
        for n in walk_no_nested(fn):
            if isinstance(n, (ast.Global, ast.Nonlocal)):
                globs |= set(n.names)
            elif isinstance(n, ast.Name) and isinstance(n.ctx, (ast.Store, ast.Del)):
                loc.add(n.id)
            elif isinstance(n, ast.ExceptHandler) and n.name:
                loc.add(n.name)
            elif isinstance(n, (ast.Import, ast.ImportFrom)):
                loc |= {(al.asname or al.name).split(".")[0] for al in n.names}
            elif isinstance(n, FuncNode + (ast.ClassDef,)) and n is not fn:
                loc.add(n.name)
        out |= loc - globs
    return out


def _owner_class(recv: str, f: ast.AST, mod, local: Set[str]) -> Optional[str]:
    """Class (existing once per process) whose attribute `recv.X` designates inside *f*."""
    static = {c.name: c for c in ast.walk(mod.tree) if isinstance(c, ast.ClassDef) and not any(isinstance(a, FuncNode) for a in ancestors(c))}
    if recv in ("cls", "self"):
        for a in ancestors(f):
            if isinstance(a, ast.ClassDef):
                return a.name if static.get(a.name) is a else None
            if isinstance(a, FuncNode):
                return None
        return None
    return recv if recv in static and recv not in local else None


def _cell_occurrences(repo: Repo, mod, f: ast.AST, cells_of) -> List[Tuple[ast.AST, Tuple[str, ...], str, Tuple[ast.AST, str], object]]:
    """(occurrence, cell key, label, (write site, writer), module owning the cell) for every mention in *f* of a process-lifetime state
    cell of its module (or of one imported by name from another module of the package)."""
    cells = cells_of(mod)
    imported: Dict[str, Tuple[str, object]] = {}
    for alias, target in mod.imports.items():
        head, _, nm = target.rpartition(".")
        origin = repo.by_dotted.get(head)
        if origin is not None and origin is not mod and nm and ("name", nm) in cells_of(origin):
            imported[alias] = (nm, origin)
    if not cells and not imported:
        return []
    local = _scope_locals(f)
    out = []
    for n in walk_no_nested(f):
        if isinstance(n, ast.Name) and n.id not in local:
            if ("name", n.id) in cells:
                out.append((n, ("name", n.id), n.id, cells[("name", n.id)], mod))
            elif n.id in imported:
                nm, origin = imported[n.id]
                out.append((n, ("name", nm), n.id, cells_of(origin)[("name", nm)], origin))
        elif isinstance(n, ast.Attribute) and isinstance(n.value, ast.Name):
            owner = _owner_class(n.value.id, f, mod, local)
            if owner is not None and ("attr", owner, n.attr) in cells:
                out.append((n, ("attr", owner, n.attr), f"{owner}.{n.attr}", cells[("attr", owner, n.attr)], mod))
    return out


def _cell_access(n: ast.AST) -> Tuple[str, Optional[ast.AST], Optional[ast.AST]]:
    """How the occurrence *n* of a state cell is used: ('write', K, V) item store / sink mutator whose result is
    discarded, ('evict', ..) clear / pop / del, ('lookup', K, V) `C[K]`, `C.get(K)`, `K in C`, `C.setdefault(K, V)`,
    ('read', ..) anything else (iteration, len, rebinding, aliasing, passing it on)."""
    par = parent(n)
    if isinstance(getattr(n, "ctx", None), (ast.Store, ast.Del)):
        return ("read" if isinstance(par, ast.AugAssign) else "rebind"), None, (par.value if isinstance(par, (ast.Assign, ast.AnnAssign)) else None)
    if isinstance(par, ast.Subscript) and par.value is n:
        pp = parent(par)
        if isinstance(par.ctx, ast.Store):
            if isinstance(pp, ast.AugAssign):
                return "read", par.slice, None
            return "write", par.slice, (pp.value if isinstance(pp, (ast.Assign, ast.AnnAssign)) else None)
        if isinstance(par.ctx, ast.Del):
            return "evict", par.slice, None
        return "lookup", par.slice, None
    if isinstance(par, ast.Compare) and len(par.ops) == 1 and isinstance(par.ops[0], (ast.In, ast.NotIn)) and par.comparators[0] is n:
        return "lookup", par.left, None
    if isinstance(par, ast.Attribute) and par.value is n and isinstance(parent(par), ast.Call) and parent(par).func is par:
        c = parent(par)
        plain = not c.keywords and not any(isinstance(a, ast.Starred) for a in c.args)
        if par.attr in _EVICT and isinstance(parent(c), ast.Expr):
            return "evict", None, None
        if par.attr == "get" and plain and 1 <= len(c.args) <= 2:
            return "lookup", c.args[0], None
        if par.attr == "setdefault" and plain and len(c.args) == 2:
            return "lookup", c.args[0], c.args[1]
        if par.attr in _SINKS and isinstance(parent(c), ast.Expr):
            return "write", None, None
    return "read", None, None


def _identity_key(g: CFG, k: Optional[ast.AST], use: int, depth: int = 0) -> Optional[Set[str]]:
    """Parameters whose *objects* (entry values; `type(p)` / `p.__class__` included) make up the key *k*, when the
    key is nothing but those objects - so two entries coincide only for the same objects; else None
    (a string / name / id() derived from them can coincide for different objects)."""
    if k is None or depth > 6:
        return None
    vs = _vals(g, k, use)
    if not vs:
        return None
    out: Set[str] = set()
    for v, u in vs:
        if isinstance(v, ast.Tuple) and v.elts:
            for e in v.elts:
                sub = _identity_key(g, e, u, depth + 1)
                if sub is None:
                    return None
                out |= sub
            continue
        if isinstance(v, ast.Call) and isinstance(v.func, ast.Name) and v.func.id == "type" and len(v.args) == 1 and not v.keywords:
            v = v.args[0]
        elif isinstance(v, ast.Attribute) and v.attr == "__class__":
            v = v.value
        if isinstance(v, ast.Name) and v.id in _fn_params(g.func) and _is_param(g, v, u, v.id):
            out.add(v.id)
        else:
            return None
    return out


def _value_inputs(f: ast.AST, st: ast.AST, v: ast.AST) -> Set[str]:
    """Names the value *v* stored by statement *st* of *f* is computed from (flow-insensitive closure over the
    local bindings, plus the tests of the branches / loops the store sits in)."""
    seen: Set[str] = set()
    todo: List[ast.AST] = [v]
    for a in ancestors(st):
        if a is f:
            break
        if isinstance(a, (ast.If, ast.While)):
            todo.append(a.test)
        elif isinstance(a, ast.For):
            todo.append(a.iter)
    binders: Dict[str, List[ast.AST]] = {}
    for n in walk_no_nested(f):
        if isinstance(n, (ast.Assign, ast.AnnAssign, ast.AugAssign)) and n.value is not None:
            for t in (n.targets if isinstance(n, ast.Assign) else [n.target]):
                for x in ast.walk(t):
                    if isinstance(x, ast.Name) and isinstance(x.ctx, ast.Store):
                        binders.setdefault(x.id, []).append(n.value)
        elif isinstance(n, ast.NamedExpr) and isinstance(n.target, ast.Name):
            binders.setdefault(n.target.id, []).append(n.value)
        elif isinstance(n, (ast.For, ast.comprehension)):
            for x in ast.walk(n.target):
                if isinstance(x, ast.Name):
                    binders.setdefault(x.id, []).append(n.iter)
        elif isinstance(n, ast.With):
            for it in n.items:
                for x in ast.walk(it.optional_vars) if it.optional_vars is not None else []:
                    if isinstance(x, ast.Name):
                        binders.setdefault(x.id, []).append(it.context_expr)
    while todo:
        e = todo.pop()
        for x in ast.walk(e):
            if isinstance(x, ast.Name) and x.id not in seen:
                seen.add(x.id)
                todo.extend(binders.get(x.id, []))
    return seen


def _rule_no_process_state(repo: Repo, R: Report) -> None:
    from .c04_rest import process_state_cells

    r = R.rule("C01-D12-no-process-state-on-the-node-path", "what a node resolves, checks and writes is a function of its processor class, its configuration and the payload: no function on the resolution / gate / observer / generated-processor path reads a module-level name or class attribute written at run time (memo, cache, counter, lazily filled class attribute), unless it is a table looked up only by the identity of the objects its entries were computed from", 10)
    roots: List[Tuple[object, ast.AST]] = []
    for rel in _NODE_PATH_FILES:
        m = repo.module(rel)
        roots += [(m, f) for f in ast.walk(m.tree) if isinstance(f, FuncNode)]
    roots.append((repo.module(PARAMRES), repo.func(PARAMRES, "resolve_runtime_value")))
    roots.append((repo.module(COMPONENT), repo.func(COMPONENT, "_SemantivaComponent.get_metadata")))
    clo = repo.call_graph_closure(roots, stop=lambda m, n: m.rel.startswith(_STATE_EXEMPT))
    todo: Dict[int, Tuple[object, ast.AST]] = {}
    for m, f, _path in clo.values():
        if m.rel.startswith(_STATE_EXEMPT) or not isinstance(f, FuncNode):
            continue
        for sub in ast.walk(f):
            if isinstance(sub, FuncNode):
                todo.setdefault(id(sub), (m, sub))

    def cells_of(mod):
        return process_state_cells(repo, mod)

    def memo_defect(mod, key: Tuple[str, ...]) -> Optional[str]:
        """None when every use of the cell anywhere in its module is a lookup / store / eviction keyed by the identity
        of parameters and every stored value is computed from those parameters only; else what is wrong."""
        cached = getattr(mod, "_c01_memo", None)
        if cached is None:
            cached = mod._c01_memo = {}  # type: ignore[attr-defined]
        if key in cached:
            return cached[key]
        why: Optional[str] = None
        n_lookups = 0
        for f in [x for x in ast.walk(mod.tree) if isinstance(x, FuncNode)]:
            occ = [o for o in _cell_occurrences(repo, mod, f, cells_of) if o[1] == key and o[4] is mod]
            if not occ or why:
                continue
            g = CFG(f, may_raise=_no_raise)
            for n, _k, label, _w, _o in occ:
                kind, k, v = _cell_access(n)
                if kind == "evict":
                    continue
                if kind in ("read", "rebind") or k is None:
                    why = f"`{norm(stmt_of(n))[:70]}` in {qualname_of(f)} uses it as a whole (not an entry looked up by a key)"
                    break
                use = _node_of(g, n)
                ident = _identity_key(g, k, use) if use is not None else None
                if ident is None:
                    kv = _val(g, k, use)[0] if use is not None else k
                    why = f"its entries are keyed by `{ast.unparse(kv)[:70]}` ({qualname_of(f)}), which is derived from the object and not the object itself: two different objects (e.g. two generated classes with the same __qualname__ / __name__) share one entry, the first one looked up decides what the later one gets"
                    break
                n_lookups += kind == "lookup"
                if v is not None:
                    inputs = _value_inputs(f, stmt_of(n), v)
                    local = _scope_locals(f)
                    other_state = sorted(x for x in inputs if x not in local and ("name", x) in cells_of(mod) and ("name", x) != key)
                    extra = sorted((inputs & _fn_params(f)) - ident)
                    if extra or other_state:
                        why = f"the entry stored by `{norm(stmt_of(n))[:60]}` in {qualname_of(f)} under {sorted(ident)} also depends on {extra + other_state}: a later lookup with the same key and another {'/'.join(extra + other_state)} gets the earlier value"
                        break
        cached[key] = why
        return why

    per_file: Dict[str, List[int]] = {}
    for m, f in sorted(todo.values(), key=lambda t: (t[0].rel, getattr(t[1], "lineno", 0))):
        cnt = per_file.setdefault(m.rel, [0, 0])
        cnt[0] += 1
        reported: Set[str] = set()
        for n, key, label, (site, writer), origin in _cell_occurrences(repo, m, f, cells_of):
            kind, _k, _v = _cell_access(n)
            if kind in ("write", "evict", "rebind") or label in reported:
                continue
            why = memo_defect(origin, key)
            if why is None:
                continue
            reported.add(label)
            cnt[1] += 1
            R.violation(r, m.rel, qualname_of(f), norm(stmt_of(n))[:110], f"`{label}` is process-lifetime mutable state (written by `{norm(site)[:70]}` in {writer}) and is read on the path that decides what a node computes; {why}. What was resolved / run earlier in the process (another node, an earlier or failed run) then decides this node's parameters, checks or writes, so the run no longer equals the documented semantics applied to its own configuration and payload", getattr(n, "lineno", 0))
    for rel, (nf, nbad) in sorted(per_file.items()):
        if not nbad:
            R.ok(r, rel, f"{nf} function(s)", "no process-lifetime state read on the node path", "", 0)


# ---------------------------------------------------------------------- D13
DATAIO = "semantiva/data_io/data_io.py"


def _payload_source_node_classes(repo: Repo, nmod) -> List[ast.ClassDef]:
    """Node classes of nodes.py that wrap a payload source, found by role: (1) they use a part of the interface that
    only the payload-source protocol of data_io.py has (`<node>.processor.<name>`), or (2) the node factory derives the
    class it instantiates on its `issubclass(<processor>, PayloadSource)` branch from them."""
    out: Dict[int, ast.ClassDef] = {}
    node_classes = [c for c in nmod.tree.body if isinstance(c, ast.ClassDef)]
    if repo.has_module(DATAIO):
        dmod = repo.module(DATAIO)
        io = [c for c in dmod.tree.body if isinstance(c, ast.ClassDef)]
        src = [c for c in io if c.name == "PayloadSource"]
        if src:
            others = {st.name for c in io if c is not src[0] for st in c.body if isinstance(st, FuncNode)}
            own = {st.name for st in src[0].body if isinstance(st, FuncNode) and not st.name.startswith("__")} - others
            for c in node_classes:
                if any(isinstance(x, ast.Attribute) and x.attr in own and (dotted_name(x.value) or "").endswith(".processor") for x in ast.walk(c)):
                    out[id(c)] = c
    if repo.has_module(NODEFACT):
        fmod = repo.module(NODEFACT)
        for f in [x for x in ast.walk(fmod.tree) if isinstance(x, FuncNode)]:
            for br in [x for x in walk_no_nested(f) if isinstance(x, ast.If)]:
                m = match("issubclass(_X_, _K_)", br.test)
                if not m or (dotted_name(m["_K_"]) or "").split(".")[-1] != "PayloadSource":
                    continue
                for c in [c for st in br.body for c in calls_in(st)]:
                    try:
                        tg = repo.resolve_call(fmod, c)
                    except Exception:
                        tg = []
                    for _m, t in tg:
                        for c2 in calls_in(t) if isinstance(t, FuncNode) else []:
                            b = kwarg(c2, "base_cls")
                            hit = nmod.defs.get(dotted_name(b) or "") if b is not None else None
                            if isinstance(hit, ast.ClassDef):
                                out[id(hit)] = hit
    return sorted(out.values(), key=lambda c: c.lineno)


def _rule_payload_source_merge(repo: Repo, R: Report, nmod) -> None:
    r = R.rule("C01-D13-payload-source-keys-are-merged-with-a-clash-test", "a payload-source node lets the wrapped source write into a buffer of the node, not into the run's context, and afterwards merges every buffered key into the payload's context behind the test `key in context` -> KeyError (the keys a source injects never silently replace a key that the initial context or an earlier node put there; the run fails at the source node instead), on every path, and returns the source's data with that context", 4)
    classes = _payload_source_node_classes(repo, nmod)
    if not classes:
        raise AnalysisError("nodes.py: no node class wraps a payload source (1 confirmed by reading: it reads processor.injected_context_keys and is the base class the node factory uses for PayloadSource)")
    done: Set[int] = set()
    for cls in classes:
        hit = repo.method(nmod, cls, "_process_single_item_with_context")
        if hit is None or hit[0] is not nmod or id(hit[1]) in done:
            if hit is None or hit[0] is not nmod:
                raise AnalysisError(f"{cls.name}: node body not found in nodes.py")
            continue
        done.add(id(hit[1]))
        f0 = hit[1]
        qn = qualname_of(f0)
        f = _nf(repo, NODES, qn)
        if len(f.args.args) < 2:
            raise AnalysisError(f"{qn}: (self, payload) expected")
        sp, pl = f.args.args[0].arg, f.args.args[1].arg
        g = CFG(f, may_raise=_no_raise)
        inh = "" if qn.startswith(cls.name + ".") else f"{cls.name} (the payload-source node) runs the inherited body {qn}: "
        run_ctx = lambda e, use: e is not None and use is not None and _is_run_input(g, e, use, pl, "context")

        def is_buffer(e: Optional[ast.AST], use: int) -> bool:
            return e is not None and dotted_name(_val(g, e, use)[0]) == f"{sp}.observer_context"

        proc_nodes = [n.id for n in g.nodes if n.kind == "stmt" and n.ast is not None and any(isinstance(c.func, ast.Attribute) and c.func.attr == "process" and dotted_name(c.func.value) == f"{sp}.processor" for c in calls_in(n.ast))]
        if not proc_nodes:
            raise AnalysisError(f"{qn}: the wrapped source is not run here")
        # (a) the object the wrapped operation writes to (<node>.observer_context: the node is its context observer) is
        #     not the run's context
        direct: List[ast.AST] = []
        for n in g.nodes:
            if n.kind != "stmt" or n.ast is None:
                continue
            if isinstance(n.ast, (ast.Assign, ast.AnnAssign)) and n.ast.value is not None:
                tg = n.ast.targets if isinstance(n.ast, ast.Assign) else [n.ast.target]
                if any(dotted_name(t) == f"{sp}.observer_context" for t in tg) and run_ctx(n.ast.value, n.id):
                    direct.append(n.ast)
            for c in calls_in(n.ast):
                if isinstance(c.func, ast.Name) and c.func.id == "setattr" and len(c.args) == 3 and dotted_name(c.args[0]) == sp and isinstance(c.args[1], ast.Constant) and c.args[1].value == "observer_context" and run_ctx(c.args[2], n.id):
                    direct.append(n.ast)
        R.check(not direct, r, NODES, qn, "the source writes into the node's own buffer (<node>.observer_context is not the run's context)",
                f"{inh}`{norm(direct[0])[:70]}` hands the wrapped source the pipeline context itself: DataOperation._notify_context_update stores the injected keys there with no test, so a key that is already present (initial context, rename:/template:/probe of an earlier node) is silently overwritten and later nodes run on it, where the node semantics prescribe KeyError at the source node" if direct else "", getattr(direct[0], "lineno", f0.lineno) if direct else f0.lineno)

        # (b) the merge: loops over the buffer's items that store each one into the run's context
        loops = []  # (head node id, For, key name, value predicate)
        for n in g.nodes:
            if n.kind != "for" or not isinstance(n.ast, ast.For):
                continue
            it, iu = _val(g, n.ast.iter, n.id)
            tgt = n.ast.target
            if isinstance(it, ast.Call) and isinstance(it.func, ast.Attribute) and it.func.attr == "items" and not it.args and is_buffer(it.func.value, iu) and isinstance(tgt, (ast.Tuple, ast.List)) and len(tgt.elts) == 2 and all(isinstance(e, ast.Name) for e in tgt.elts):
                kname, vname = tgt.elts[0].id, tgt.elts[1].id
                loops.append((n.id, n.ast, kname, (lambda e, use, vname=vname: isinstance(e, ast.Name) and e.id == vname)))
            else:
                if isinstance(it, ast.Call) and isinstance(it.func, ast.Attribute) and it.func.attr == "keys" and not it.args:
                    it = it.func.value
                if is_buffer(it, iu) and isinstance(tgt, ast.Name):
                    kname = tgt.id

                    def looked_up(e, use, kname=kname) -> bool:
                        v = _val(g, e, use)[0]
                        if isinstance(v, ast.Call) and isinstance(v.func, ast.Attribute) and v.func.attr == "get_value" and len(v.args) == 1 and not v.keywords:
                            return is_buffer(v.func.value, use) and isinstance(v.args[0], ast.Name) and v.args[0].id == kname
                        return isinstance(v, ast.Subscript) and is_buffer(v.value, use) and isinstance(v.slice, ast.Name) and v.slice.id == kname
                    loops.append((n.id, n.ast, kname, looked_up))
        heads = {h for h, _l, _k, _v in loops}

        def in_loop(a: ast.AST, lp: ast.AST) -> bool:
            return any(x is lp for x in ancestors(a))

        def only_loop_binding(name: str, use: int, head: int) -> bool:
            return {d.id for d in reaching_defs(g, name, use)} == {head}

        def store_of(n, head: int, lp: ast.AST, kname: str, is_value) -> bool:
            """statement *n* stores <value of the current item> under <key of the current item> into the run's context"""
            if n.kind != "stmt" or n.ast is None or not in_loop(n.ast, lp):
                return False
            for c in calls_in(n.ast):
                a = None
                if isinstance(c.func, ast.Attribute) and c.func.attr == "set_value" and run_ctx(c.func.value, n.id):
                    a = _call_args(c, ("key", "value"))
                elif call_attr(c) == "update_context":
                    a = _call_args(c, ("context", "key", "value"))
                    if a is not None and not run_ctx(a.get("context"), n.id):
                        a = None
                if a and isinstance(a.get("key"), ast.Name) and a["key"].id == kname and only_loop_binding(kname, n.id, head) and a.get("value") is not None and is_value(a["value"], n.id):
                    return True
            if isinstance(n.ast, ast.Assign):
                for t in n.ast.targets:
                    if isinstance(t, ast.Subscript) and run_ctx(t.value, n.id) and isinstance(t.slice, ast.Name) and t.slice.id == kname and only_loop_binding(kname, n.id, head) and is_value(n.ast.value, n.id):
                        return True
            return False

        writes: Dict[int, int] = {}  # write node -> loop head
        for h, lp, kname, is_value in loops:
            for n in g.nodes:
                if store_of(n, h, lp, kname, is_value):
                    writes[n.id] = h
        # every normal path from the source's run to the return goes through a merge loop, and no iteration of
        # the loop gets back to its head (or out) without the store
        starts = [t for p in proc_nodes for t, lab in g.succ[p] if t not in heads]
        skipped = g.must_pass(starts, [g.ret_exit], lambda n: n.id in heads) if starts else []
        dropped = []
        for h in heads:
            body_starts = [t for t, lab in g.succ[h] if lab == "T" and t not in writes]
            dropped += g.must_pass(body_starts, [h, g.ret_exit], lambda n: n.id in writes) if body_starts else []
        ok = bool(loops) and bool(writes) and not skipped and not dropped and all(any(w == h for w in writes.values()) for h in heads)
        R.check(ok, r, NODES, qn, "for key, value in <node>.observer_context.items(): context.set_value(key, value) on every path after the source ran",
                inh + "the keys the source injected are not all carried from the node's buffer into the payload's context (no merge loop over the buffer, a path around it, or an iteration that stores nothing)", f0.lineno, (skipped or dropped)[0][1] if (skipped or dropped) else None)

        # (c) the store is reached only when the key is not in the run's context yet; otherwise KeyError, at once
        def no_clash_for(kname: str):
            def atom(e: ast.AST, use: int) -> Optional[bool]:
                if isinstance(e, ast.Compare) and len(e.ops) == 1 and isinstance(e.ops[0], (ast.In, ast.NotIn)) and isinstance(e.left, ast.Name) and e.left.id == kname:
                    c = _val(g, e.comparators[0], use)[0]
                    if isinstance(c, ast.Call) and isinstance(c.func, ast.Attribute) and c.func.attr == "keys" and not c.args:
                        c = c.func.value
                    if run_ctx(c, use):
                        return isinstance(e.ops[0], ast.NotIn)
                return None
            return atom

        ok, path = bool(writes), []
        for h, lp, kname, _is_value in loops:
            atom = no_clash_for(kname)
            mine = [w for w, hh in writes.items() if hh == h]
            ge = {nid: es for nid, es in _guard_edges(g, atom).items() if g.nodes[nid].ast is not None and in_loop(g.nodes[nid].ast, lp)}
            seen = g.reach([t for t, lab in g.succ[h] if lab == "T"], blocked_edges={(nid, lab) for nid, es in ge.items() for lab in es})
            for w in mine:
                if w in seen:
                    ok, path = False, path or g.path_to(seen, w)
            ok = ok and bool(ge)
            for nid, es in ge.items():
                other = [t for t, lab in g.succ[nid] if lab in ({"T", "F"} - es)]
                reach = g.reach(other)
                raises = [g.nodes[x].ast for x in reach if g.nodes[x].kind == "stmt" and isinstance(g.nodes[x].ast, ast.Raise)]
                ok = ok and bool(other) and g.ret_exit not in reach and h not in reach and bool(raises) and all(rz.exc is not None and dotted_name(rz.exc.func if isinstance(rz.exc, ast.Call) else rz.exc) == "KeyError" for rz in raises)
        R.check(ok, r, NODES, qn, "if key in context.keys(): raise KeyError(..) in front of the store",
                inh + "an injected key that is already in the payload's context is not refused with KeyError at this node (test missing, not in front of the store, or the clash is skipped / logged instead of raised): the source overwrites or silently drops it and the run continues", f0.lineno, path)

        # (d) what the node returns: the source's data with the run's (merged) context
        rets = [n for n in g.nodes if n.kind == "stmt" and isinstance(n.ast, ast.Return)]
        ok = bool(rets) and not g.must_pass([g.entry], [g.ret_exit], lambda n: n.kind == "stmt" and isinstance(n.ast, ast.Return))
        for rn in rets:
            vs = _vals(g, rn.ast.value, rn.id) if rn.ast.value is not None else None
            ok = ok and bool(vs)
            for v, u in vs or []:
                pa = _call_args(v, ("data", "context")) if isinstance(v, ast.Call) and call_attr(v) == "Payload" else None
                if not pa or set(pa) != {"data", "context"}:
                    ok = False
                    continue
                dv = _vals(g, pa["data"], u)
                ok = ok and bool(dv) and all(isinstance(x, ast.Call) and dotted_name(x.func) == f"{sp}.processor.process" for x, _u in dv) and run_ctx(pa["context"], u)
        R.check(ok, r, NODES, qn, "return Payload(<source result>, <payload's context>)", "the payload-source node does not return the source's data together with the run's context", f0.lineno)


# ---------------------------------------------------------------------- D14
_RE_METHODS = {"sub", "subn", "findall", "finditer", "split", "match", "search", "fullmatch"}
_TEXT_METHODS = {"replace", "split", "rsplit", "partition", "rpartition", "find", "index", "count", "translate", "strip", "lstrip", "rstrip", "removeprefix", "removesuffix", "splitlines", "join"}


def _is_formatter(g: CFG, e: ast.AST, use: int) -> bool:
    """*e* denotes a `string.Formatter()` instance"""
    v = _val(g, e, use)[0]
    return isinstance(v, ast.Call) and (dotted_name(v.func) or "").split(".")[-1] == "Formatter" and not v.args and not v.keywords


def _grammar_uses(g: CFG, fn: ast.AST, subject_is) -> List[Tuple[Tuple[str, ...], ast.Call, Optional[ast.AST]]]:
    """How *fn* takes the text `subject` apart / fills it in: (grammar, call, mapping argument of a rendering call).
    ('format',) = the replacement-field grammar of str.format (string.Formatter: `{{` and `}}` are literal braces),
    ('regex', <pattern>) = a regular expression, ('text', <method>) = plain string surgery."""
    out: List[Tuple[Tuple[str, ...], ast.Call, Optional[ast.AST]]] = []
    for c in calls_in(fn):
        use = _node_of(g, c)
        if use is None or not isinstance(c.func, ast.Attribute):
            continue
        a, recv = c.func.attr, c.func.value
        pos = [x for x in c.args if not isinstance(x, ast.Starred)]
        star2 = [k.value for k in c.keywords if k.arg is None]
        if a == "parse" and len(pos) == 1 and subject_is(pos[0], use) and _is_formatter(g, recv, use):
            out.append((("format",), c, None))
        elif a == "vformat" and len(pos) == 3 and subject_is(pos[0], use) and _is_formatter(g, recv, use):
            out.append((("format",), c, pos[2]))
        elif a == "format" and len(pos) == 1 and len(c.args) == 1 and subject_is(pos[0], use) and _is_formatter(g, recv, use):
            out.append((("format",), c, star2[0] if len(star2) == 1 and len(c.keywords) == 1 else None))
        elif a == "format" and subject_is(recv, use):
            out.append((("format",), c, star2[0] if len(star2) == 1 and len(c.keywords) == 1 and not c.args else None))
        elif a == "format_map" and subject_is(recv, use):
            out.append((("format",), c, pos[0] if len(pos) == 1 and len(c.args) == 1 and not c.keywords else None))
        elif a in _RE_METHODS and dotted_name(recv) == "re" and len(pos) >= 2 and any(subject_is(x, use) for x in pos[1:]):
            out.append((("regex", ast.unparse(_val(g, pos[0], use)[0])), c, None))
        elif a in _RE_METHODS and dotted_name(recv) != "re" and any(subject_is(x, use) for x in pos) and not subject_is(recv, use):
            out.append((("regex", ast.unparse(_val(g, recv, use)[0])), c, None))
        elif a in _TEXT_METHODS and subject_is(recv, use):
            out.append((("text", a), c, None))
    return out


def _rule_template_rendering(repo: Repo, R: Report) -> None:
    r = R.rule("C01-D14-template-rendered-by-the-grammar-that-named-its-parameters", "the processor generated for template: renders the template with the same placeholder grammar that extracted the node's parameter names from it (string.Formatter / str.format: `{{` and `}}` are literal braces, `{name}` a field), filling every field with the value resolved for that name: what the loader accepted as literal text stays literal text, and what it turned into a parameter is what gets substituted", 2)
    facs = _shorthand_factories(repo)
    if "template:" not in facs:
        raise AnalysisError("template: the factory that generates the shorthand's processor was not found")
    CFACT, fac0 = facs["template:"]
    cmod = repo.module(CFACT)
    fac = fac0
    logics = [n for n in ast.walk(fac) if isinstance(n, FuncNode) and n is not fac and n.args.kwarg is not None and any(call_attr(c) == "_notify_context_update" for c in calls_in(n))]
    names_fns = [n for n in ast.walk(fac) if isinstance(n, FuncNode) and n.name == "get_processing_parameter_names"]
    if len(logics) != 1 or len(names_fns) != 1:
        raise AnalysisError("_context_template_factory: generated _process_logic(self, **kwargs) / get_processing_parameter_names not found")
    logic, names_fn = logics[0], names_fns[0]
    gf = CFG(fac, may_raise=_no_raise)
    fparams = _fn_params(fac)
    # the parameter names of the generated processor: a closure variable of the factory ...
    def unwrap(e: ast.AST) -> ast.AST:
        while isinstance(e, ast.Call) and isinstance(e.func, ast.Name) and e.func.id in ("list", "tuple") and len(e.args) == 1 and not e.keywords:
            e = e.args[0]
        return e
    rets = [unwrap(n.value) for n in walk_no_nested(names_fn) if isinstance(n, ast.Return) and n.value is not None]
    if len(rets) != 1 or not isinstance(rets[0], ast.Name) or rets[0].id in _fn_params(names_fn):
        raise AnalysisError("_context_template_factory: get_processing_parameter_names does not return a variable of the factory")
    names_var = rets[0].id
    use_f = _node_of(gf, names_fn)
    src, su = _val(gf, ast.Name(id=names_var, ctx=ast.Load()), use_f) if use_f is not None else (None, 0)
    # ... computed from the template text: which factory parameter, and by which grammar
    cands = sorted({x.id for x in ast.walk(src) if isinstance(x, ast.Name) and x.id in fparams and _is_param(gf, x, su, x.id)}) if src is not None else []
    if len(cands) != 1:
        raise AnalysisError("_context_template_factory: the template text the parameter names are extracted from is not identified")
    tpl = cands[0]
    uses = _grammar_uses(gf, fac, lambda e, use: _is_param(gf, e, use, tpl))
    seen_fn: Set[int] = set()

    def through(mod, fn_g: CFG, fn: ast.AST, subject_is, depth: int = 0) -> None:
        """helpers (of this module) the text is handed to"""
        for c in calls_in(fn):
            use = _node_of(fn_g, c)
            if use is None or depth > 3:
                continue
            try:
                tg = repo.resolve_call(mod, c)
            except Exception:
                tg = []
            for m, G in tg:
                if m is not mod or not isinstance(G, FuncNode) or id(G) in seen_fn:
                    continue
                b = _callee_binding(mod, c, G)
                for q, arg in (b or {}).items():
                    if subject_is(arg, use):
                        seen_fn.add(id(G))
                        gg = CFG(G, may_raise=_no_raise)
                        sub = lambda e, u, gg=gg, q=q: _is_param(gg, e, u, q)
                        uses.extend(_grammar_uses(gg, G, sub))
                        through(mod, gg, G, sub, depth + 1)

    through(cmod, gf, fac, lambda e, use: _is_param(gf, e, use, tpl))
    extraction = sorted({u[0] for u in uses})
    if not extraction:
        raise AnalysisError("_context_template_factory: how the placeholder names are taken out of the template is not recognised (string.Formatter().parse confirmed by reading)")
    # the rendering side: the value written by the generated processor
    gl = CFG(logic, may_raise=_no_raise)
    kw = logic.args.kwarg.arg
    lparams = _fn_params(logic)

    def is_template(e: ast.AST, use: int) -> bool:
        v, u = _val(gl, e, use)
        return isinstance(v, ast.Name) and v.id == tpl and v.id not in lparams and not reaching_defs(gl, tpl, u)

    renders = _grammar_uses(gl, logic, is_template)
    written: List[Tuple[ast.AST, int, ast.Call]] = []
    for c in calls_in(logic):
        if call_attr(c) == "_notify_context_update":
            a = _call_args(c, ("key", "value"))
            use = _node_of(gl, c)
            if a and "value" in a and use is not None:
                for v, u in _vals(gl, a["value"], use) or [(a["value"], use)]:
                    written.append((v, u, c))
    if not written:
        raise AnalysisError("_context_template_factory: the generated processor writes nothing")
    bad: Optional[str] = None
    bad_line = logic.lineno
    mappings: List[Tuple[ast.AST, int]] = []
    for v, u, c in written:
        mine = [x for x in renders if x[1] is v]
        if len(mine) != 1:
            other = [x for x in renders if any(y is x[1] for y in ast.walk(v))]
            how = f" ({'/'.join(other[0][0])})" if other else ""
            bad, bad_line = bad or f"the text written is `{ast.unparse(v)[:70]}`{how}, not the template filled in by str.format / format_map / string.Formatter", getattr(v, "lineno", logic.lineno)
            continue
        gram, call, mapping = mine[0]
        if len(extraction) != 1 or gram != extraction[0]:
            bad, bad_line = bad or (f"the parameter names are extracted with {' / '.join('/'.join(x) for x in extraction)}, the text is rendered with {'/'.join(gram)} (`{ast.unparse(call)[:70]}`): the two do not agree on what a placeholder is "
                                    "(`{{` / `}}` are literal braces for string.Formatter but not for a `\\{name\\}` pattern), so literal braces of an accepted template come out doubled, or literal text `{{name}}` is taken for a parameter that was never resolved and the node raises KeyError where it should write"), getattr(call, "lineno", logic.lineno)
            continue
        if gram == ("format",):
            if mapping is None:
                bad, bad_line = bad or f"`{ast.unparse(call)[:70]}` does not fill the fields from one mapping of the resolved values", getattr(call, "lineno", logic.lineno)
            else:
                mappings.append((mapping, _node_of(gl, call) or u))
    R.check(bad is None, r, CFACT, "_context_template_factory._process_logic", "rendered = template.format(**values): same grammar as the placeholder extraction", bad or "", bad_line)

    # every field is filled with the value resolved under its own name
    def resolved_under(name: str, e: ast.AST) -> bool:
        if isinstance(e, ast.Call) and isinstance(e.func, ast.Name) and e.func.id == "str" and len(e.args) == 1 and not e.keywords:
            e = e.args[0]
        return isinstance(e, ast.Subscript) and dotted_name(e.value) == kw and isinstance(e.slice, ast.Name) and e.slice.id == name

    ok, why = True, ""
    for m_, u in mappings:
        for v, vu in _vals(gl, m_, u) or [(m_, u)]:
            if isinstance(v, ast.Name) and v.id == kw:
                continue
            good = False
            if isinstance(v, ast.DictComp) and len(v.generators) == 1 and not v.generators[0].ifs:
                gen = v.generators[0]
                it = unwrap(_val(gl, gen.iter, vu)[0])
                if isinstance(gen.target, ast.Name) and isinstance(v.key, ast.Name) and v.key.id == gen.target.id:
                    over_names = isinstance(it, ast.Name) and it.id == names_var and it.id not in lparams
                    over_kw = (isinstance(it, ast.Name) and it.id == kw) or (isinstance(it, ast.Call) and isinstance(it.func, ast.Attribute) and it.func.attr == "keys" and dotted_name(it.func.value) == kw)
                    good = (over_names or over_kw) and resolved_under(gen.target.id, v.value)
                elif isinstance(gen.target, (ast.Tuple, ast.List)) and len(gen.target.elts) == 2 and all(isinstance(e, ast.Name) for e in gen.target.elts):
                    k_, v_ = gen.target.elts[0].id, gen.target.elts[1].id
                    val = v.value.args[0] if isinstance(v.value, ast.Call) and isinstance(v.value.func, ast.Name) and v.value.func.id == "str" and len(v.value.args) == 1 and not v.value.keywords else v.value
                    good = isinstance(it, ast.Call) and isinstance(it.func, ast.Attribute) and it.func.attr == "items" and dotted_name(it.func.value) == kw and isinstance(v.key, ast.Name) and v.key.id == k_ and isinstance(val, ast.Name) and val.id == v_
            if not good:
                ok, why = False, why or f"`{ast.unparse(v)[:70]}`"
    R.check(ok and (bool(mappings) or bad is not None), r, CFACT, "_context_template_factory._process_logic", "values = {name: str(kwargs[name]) for name in required_keys}", f"a field of the template is not filled with the value resolved for the parameter of the same name: {why}", logic.lineno)


# ---------------------------------------------------------------------- D15
def _rule_log_ranges(repo: Repo, R: Report) -> None:
    """The values a sweep node hands to its processor for a log-scaled range are base ** exponent: the two sides of the
    numpy boundary have to agree on the base (np.logspace raises `base`, default 10, to exponents that the caller computes
    with a logarithm)."""
    r = R.rule("C01-D15-log-range-exponents-match-the-base", "wherever the node path builds a logarithmic range with numpy.logspace(start, stop, .., base=B), the logarithm that computes the exponents start / stop is the logarithm to base B (log10 for the default base 10): the swept parameter values the processor sees run from lo to hi, not from B**log_other(lo) to B**log_other(hi)", 1)

    def log_base(mod, c: ast.Call):
        """base of the logarithm call *c* (10, 2, 'e', a constant, '?' for log1p & co), None when it is not one"""
        dn = dotted_name(c.func) or ""
        head, _, fn_ = dn.rpartition(".")
        target = mod.imports.get(head, head) if head else mod.imports.get(dn, "")
        if not head and target.startswith(("numpy.", "math.")):
            target, fn_ = target.rsplit(".", 1)
        if target in ("np", "numpy", "math") and fn_.startswith("log"):
            if fn_ == "log10":
                return 10
            if fn_ == "log2":
                return 2
            if fn_ == "log":
                if target == "math" and len(c.args) == 2:
                    return base_of(mod, c.args[1])
                return "e"
            return "?"
        return None

    def base_of(mod, e: Optional[ast.AST]):
        if e is None:
            return 10
        if isinstance(e, ast.Constant) and isinstance(e.value, (int, float)) and not isinstance(e.value, bool):
            return int(e.value) if float(e.value).is_integer() else e.value
        dn = dotted_name(e) or ""
        head, _, nm = dn.rpartition(".")
        if nm == "e" and mod.imports.get(head, head) in ("np", "numpy", "math"):
            return "e"
        return None

    n_seen = 0
    for rel in _NODE_PATH_FILES:
        if not repo.has_module(rel):
            continue
        mod = repo.module(rel)
        if "logspace" not in mod.source:
            continue
        for qn, f0 in sorted(mod.defs.items()):
            if not isinstance(f0, FuncNode) or "logspace" not in (ast.get_source_segment(mod.source, f0) or "logspace"):
                continue
            try:
                f = nfunc(repo, rel, qn)
            except Exception:
                f = f0
            g = CFG(f, may_raise=_no_raise)
            for c in calls_in(f):
                dn = dotted_name(c.func) or ""
                if dn.rpartition(".")[2] != "logspace" and mod.imports.get(dn, "") != "numpy.logspace":
                    continue
                use = _node_of(g, c)
                b = _call_args(c, ("start", "stop", "num", "endpoint", "base", "dtype", "axis"))
                if use is None or b is None or "start" not in b or "stop" not in b:
                    raise AnalysisError(f"{qn}: arguments of `{norm(c)[:60]}` cannot be bound")
                n_seen += 1
                base = base_of(mod, _val(g, b["base"], use)[0] if "base" in b else None)
                bad: Optional[Tuple[ast.Call, object]] = None
                for role in ("start", "stop"):
                    for leaf, _u in _vals(g, b[role], use) or [(b[role], use)]:
                        for x in ast.walk(leaf):
                            lb = log_base(mod, x) if isinstance(x, ast.Call) else None
                            if lb is not None and base is not None and lb != base:
                                bad = bad or (x, lb)
                names = {10: "the decimal logarithm", 2: "the binary logarithm", "e": "the natural logarithm"}
                R.check(bad is None, r, rel, qn, f"{dn}(log_B(lo), log_B(hi), ..) with B = the base of logspace",
                        f"`{ast.unparse(bad[0])[:50]}` computes an exponent with {names.get(bad[1], 'another logarithm')} while `{norm(c)[:70]}` raises base {base} to it: a log-scaled range lo..hi is materialised as {base}**log(lo)..{base}**log(hi) in the wrong units (e.g. lo=1, hi=100, 3 steps gives 1, 200.7, 40287.5 instead of 1, 10, 100), and the wrapped processor and <var>_values see those values" if bad else "", c.lineno)
    if not n_seen:
        # no logspace left: a log range built by numpy.geomspace(lo, hi, ..) needs no exponents at all
        geo = [rel for rel in _NODE_PATH_FILES if repo.has_module(rel) and "geomspace" in repo.module(rel).source]
        if not geo:
            raise AnalysisError("no numpy.logspace / numpy.geomspace call on the node path (2 logspace calls in _materialize_sequences confirmed by reading)")
        R.ok(r, geo[0], "<module>", "log ranges are built by geomspace(lo, hi, ..): no exponents to agree on")


# ---------------------------------------------------------------------- D16
NAMES_API = "get_processing_parameter_names"


def _processor_entry_layers(repo: Repo, meth: str) -> List[Tuple[object, str, ast.AST]]:
    """Every definition of the processor entry point *meth* (what a node body calls on `<node>.processor` with the resolved
    parameters spread into it): a method of that name in a class of the processor family - a class whose MRO declares the
    parameter-name interface the resolution iterates over, or a generated class deriving from a processor class that is a
    parameter of the enclosing factory (dynamic base) and extending the entry point through `super().<meth>(..)`."""
    out: List[Tuple[object, str, ast.AST]] = []
    for mod, qn, C in repo.all_classes():
        fns = [st for st in C.body if isinstance(st, FuncNode) and st.name == meth]
        if not fns:
            continue
        family = repo.method(mod, C, NAMES_API) is not None
        if not family:
            outer: Set[str] = set()
            for a in ancestors(C):
                if isinstance(a, FuncNode):
                    outer |= _fn_params(a)
            dynamic = any(isinstance(b, ast.Name) and b.id in outer for b in C.bases)
            family = dynamic and any(isinstance(c.func, ast.Attribute) and c.func.attr == meth and isinstance(c.func.value, ast.Call) and call_attr(c.func.value) == "super" for f in fns for c in calls_in(f))
        if family:
            out += [(mod, f"{qn}.{meth}", f) for f in fns]
    return out


def _rule_entry_points_pass_names(repo: Repo, R: Report, nmod) -> None:
    """Interface between a node body and the processor base classes: the node spreads the mapping {parameter name: resolved
    value} into the entry point (`process(data, **parameters)`, `operate_context(context=.., context_observer=..,
    **parameters)`); parameter names are chosen by the processor author / for the generated rename:/delete:/template:
    processors by the pipeline author (they are context keys).  Every name has to come out at `_process_logic` again."""
    r = R.rule("C01-D16-resolved-parameters-pass-the-entry-point-under-their-own-name", "the processor entry points a node calls with the resolved parameters spread into them (process / operate_context and every generated override) bind by name only what the node passes explicitly, collect everything else in their ** mapping and hand that mapping on unchanged: a named parameter of the entry point that the node does not pass (e.g. `index=None`) captures a processing parameter - for rename:/delete:/template: a context key - of that name, which then never reaches _process_logic", 2)
    sites: Dict[str, List[Tuple[str, ast.Call]]] = {}
    for qn, _f0 in _node_bodies(nmod):
        f = _nf(repo, NODES, qn)
        if not f.args.args:
            continue
        sp = f.args.args[0].arg
        for c in calls_in(f):
            if isinstance(c.func, ast.Attribute) and dotted_name(c.func.value) == f"{sp}.processor" and any(k.arg is None for k in c.keywords):
                sites.setdefault(c.func.attr, []).append((qn, c))
    if not sites:
        raise AnalysisError("nodes.py: no node body spreads resolved parameters into a processor entry point (6 confirmed by reading)")
    for meth in sorted(sites):
        layers = _processor_entry_layers(repo, meth)
        if not layers:
            raise AnalysisError(f"no definition of the processor entry point `{meth}` found in the processor family")
        for mod, qn, F0 in layers:
            repo.module(mod.rel)
            try:
                F = nfunc(repo, mod.rel, qn)
            except Exception:
                F = F0
            g = CFG(F, may_raise=_no_raise)
            a = F.args
            deco = [dotted_name(d) for d in getattr(F, "decorator_list", [])]
            pos = [x.arg for x in list(a.posonlyargs) + list(a.args)]
            if "staticmethod" not in deco:
                pos = pos[1:]
            posonly = {x.arg for x in a.posonlyargs}
            kwonly = [x.arg for x in a.kwonlyargs]
            # (a) names the entry point binds itself although some node call does not pass them
            captured: List[Tuple[str, str, ast.Call]] = []
            for nqn, c in sites[meth]:
                if any(isinstance(x, ast.Starred) for x in c.args):
                    continue
                passed = set(pos[:len(c.args)]) | {k.arg for k in c.keywords if k.arg is not None}
                captured += [(p, nqn, c) for p in pos[len(c.args):] + kwonly if p not in passed and p not in posonly]
            kw = a.kwarg.arg if a.kwarg is not None else None
            if captured:
                p, nqn, c = captured[0]
                R.violation(r, mod.rel, qn, f"def {F0.name}({ast.unparse(a)[:90]})", f"parameter `{p}` of the entry point is not passed by `{norm(c)[:70]}` ({nqn}): a resolved processing parameter called `{p}` (for the generated rename:/delete:/template: processors any context key of that name) is bound to it instead of landing in the ** mapping, so the processor's logic never receives it - the key is not renamed / deleted / substituted although it is present", F0.lineno)
                continue
            if kw is None:
                R.violation(r, mod.rel, qn, f"def {F0.name}({ast.unparse(a)[:90]})", "the entry point has no ** mapping: the resolved parameters a node spreads into it cannot reach the processor's logic", F0.lineno)
                continue
            # (b) the mapping is handed on as it came in, on every normally-returning path
            ok, why, path = _mapping_handed_on(repo, mod, F, kw)
            R.check(ok, r, mod.rel, qn, f"{F0.name}(<what the node passes>, **{kw}) -> <logic>(.., **{kw})", f"the resolved parameters do not reach the processor's logic as resolved: {why}", F0.lineno, path)


def _mapping_handed_on(repo: Repo, mod, F: ast.AST, pname: str, depth: int = 0) -> Tuple[bool, str, Optional[List[str]]]:
    """Every normally-returning path of *F* (a normal form) hands the mapping held by parameter *pname* on as it came in:
    spread into a call (`g(.., **pname)`), or passed whole to a function of the package that in turn hands it on (a helper
    in this or another module); nothing in *F* adds to / removes from / rebinds it first."""
    muts = mutation_sites(F, {pname})
    if muts:
        return False, f"`{norm(stmt_of(muts[0][0]))[:60]}` changes the mapping before it is handed on", None
    g = CFG(F, may_raise=_no_raise)
    is_fwd = _hands_on_predicate(repo, mod, g, pname, depth)

    def covers(n) -> bool:
        if is_fwd(n):
            return True
        return n.kind == "for" and any(is_fwd(m) for m in g.nodes if m.ast is not None and any(x is n.ast for x in ancestors(m.ast)))

    comp_fwd = any(k.arg is None and isinstance(k.value, ast.Name) and k.value.id == pname for cp in walk_no_nested(F) if isinstance(cp, (ast.ListComp, ast.GeneratorExp)) for c in ast.walk(cp.elt) if isinstance(c, ast.Call) for k in c.keywords)
    if comp_fwd:
        return True, "", None
    miss = g.must_pass([g.entry], [g.ret_exit], covers)
    if not any(is_fwd(n) for n in g.nodes) or miss:
        return False, "a path returns without handing the ** mapping on", (miss[0][1] if miss else None)
    return True, "", None


def _hands_on_predicate(repo: Repo, mod, g: CFG, pname: str, depth: int = 0):
    """`is_fwd(cfg node)`: the statement spreads the mapping parameter *pname* of g.func into a call, or passes it whole to
    a package function that hands it on."""
    memo: Dict[int, bool] = {}

    def whole(c: ast.Call, use: int) -> bool:
        """*c* passes the mapping as one argument to a package function that hands it on"""
        vals = [a_ for a_ in c.args if not isinstance(a_, ast.Starred)] + [k.value for k in c.keywords if k.arg is not None]
        if depth >= 3 or not any(isinstance(v, ast.Name) and _is_param(g, v, use, pname) for v in vals):
            return False
        try:
            tg = repo.resolve_call(mod, c)
        except Exception:
            tg = []
        if not tg:
            return False
        for tm, G0 in tg:
            if not isinstance(G0, FuncNode):
                return False
            b = _callee_binding(tm, c, G0)
            q = next((p_ for p_, v in (b or {}).items() if isinstance(v, ast.Name) and _is_param(g, v, use, pname)), None)
            if q is None:
                return False
            try:
                G = nfunc(repo, tm.rel, qualname_of(G0))
            except Exception:
                G = G0
            if not _mapping_handed_on(repo, tm, G, q, depth + 1)[0]:
                return False
        return True

    def is_fwd(n) -> bool:
        if n.ast is None or n.kind != "stmt":
            return False
        if n.id not in memo:
            memo[n.id] = any(any(k.arg is None and _is_param(g, k.value, n.id, pname) for k in c.keywords) or whole(c, n.id) for c in calls_in(n.ast))
        return memo[n.id]

    return is_fwd


# ---------------------------------------------------------------------- D17
# Name-set algebra for generated wrapper processors.  A wrapper class made by a factory function advertises processing
# parameter names (what the node resolves) and, in its logic, selects from the resolved mapping what it hands to the
# wrapped element.  Both sides are written in terms of the factory's name collections (closure variables, class
# attributes assigned from them).  A collection that is built element by element (or by something that is not a
# union / conversion of other collections) is an ATOM; everything else is evaluated to a union of atoms.
_TOP = None  # "any name" / not followed
_CONVERT = {"set", "list", "tuple", "sorted", "frozenset", "iter", "reversed"}
_ELEMWISE = {"append", "add", "insert", "setdefault", "appendleft"}
_BULK = {"extend", "update"}
_SHRINK = {"pop", "popitem", "remove", "discard", "clear", "difference_update", "intersection_update"}


class _NameSets:
    def __init__(self, fac: ast.AST):
        self.fac = fac
        self.params = _fn_params(fac)
        self.values: Dict[str, List[Optional[ast.AST]]] = {}
        self.elem: Dict[str, List[ast.AST]] = {}
        self.bulk: Dict[str, List[ast.AST]] = {}
        self.dep1: Dict[str, Set[str]] = {}
        self.inexact = False
        self._busy: Set[str] = set()
        for n in walk_no_nested(fac):
            if isinstance(n, (ast.Assign, ast.AnnAssign)) and getattr(n, "value", None) is not None:
                tgts = n.targets if isinstance(n, ast.Assign) else [n.target]
                for t in tgts:
                    for x in ast.walk(t):
                        if isinstance(x, ast.Name) and isinstance(x.ctx, ast.Store):
                            self.values.setdefault(x.id, []).append(_assigned_component(n, x.id))
                            self.dep1.setdefault(x.id, set()).update(y.id for y in ast.walk(n.value) if isinstance(y, ast.Name))
                    if isinstance(t, ast.Subscript) and isinstance(t.value, ast.Name):
                        self.elem.setdefault(t.value.id, []).append(t.slice)
                        self.dep1.setdefault(t.value.id, set()).update(y.id for y in ast.walk(n) if isinstance(y, ast.Name) and y is not t.value)
            elif isinstance(n, ast.AugAssign) and isinstance(n.target, ast.Name):
                self.bulk.setdefault(n.target.id, []).append(n.value)
                self.dep1.setdefault(n.target.id, set()).update(y.id for y in ast.walk(n.value) if isinstance(y, ast.Name))
            elif isinstance(n, (ast.For, ast.comprehension)):
                for x in ast.walk(n.target):
                    if isinstance(x, ast.Name):
                        self.values.setdefault(x.id, []).append(None)
                        self.dep1.setdefault(x.id, set()).update(y.id for y in ast.walk(n.iter) if isinstance(y, ast.Name))
            elif isinstance(n, ast.Call) and isinstance(n.func, ast.Attribute) and isinstance(n.func.value, ast.Name):
                v = n.func.value.id
                if n.func.attr in _ELEMWISE:
                    self.elem.setdefault(v, []).extend(n.args)
                elif n.func.attr in _BULK:
                    self.bulk.setdefault(v, []).extend(n.args)
                else:
                    continue
                self.dep1.setdefault(v, set()).update(y.id for a_ in n.args for y in ast.walk(a_) if isinstance(y, ast.Name))
        for cp in ast.walk(fac):
            if isinstance(cp, (ast.ListComp, ast.SetComp, ast.DictComp, ast.GeneratorExp)) and enclosing_fn(cp) is fac:
                for gen in cp.generators:
                    for x in ast.walk(gen.target):
                        if isinstance(x, ast.Name):
                            self.dep1.setdefault(x.id, set()).update(y.id for y in ast.walk(gen.iter) if isinstance(y, ast.Name))

    def is_local(self, name: str) -> bool:
        return name in self.params or name in self.values or name in self.elem or name in self.bulk

    def deps(self, name: str) -> Set[str]:
        seen: Set[str] = set()
        todo = [name]
        while todo:
            x = todo.pop()
            for y in self.dep1.get(x, ()):
                if y not in seen:
                    seen.add(y)
                    todo.append(y)
        return seen

    def var(self, name: str) -> Optional[frozenset]:
        """Upper bound of the names collection variable *name* of the factory can hold, as a union of atoms."""
        if not self.is_local(name):
            return _TOP
        if name in self._busy:
            return frozenset()
        self._busy.add(name)
        try:
            out: Set[str] = set()
            own = name in self.params or bool(self.elem.get(name))
            for v in self.values.get(name, []):
                s = self.alg(v, self._leaf) if v is not None else _TOP
                if s is _TOP:
                    own = True
                else:
                    out |= s
            for v in self.bulk.get(name, []):
                s = self.alg(v, self._leaf)
                if s is _TOP:
                    own = True
                else:
                    out |= s
            if own:
                out.add(name)
            return frozenset(out)
        finally:
            self._busy.discard(name)

    def _leaf(self, e: ast.AST) -> Optional[frozenset]:
        return self.var(e.id) if isinstance(e, ast.Name) else _TOP

    def alg(self, e: ast.AST, leaf) -> Optional[frozenset]:
        """Union-of-atoms value of a name-collection expression (names of a list / set / tuple, keys of a mapping);
        _TOP when the expression is not a union / conversion / selection of collections *leaf* can resolve."""
        if isinstance(e, (ast.Name, ast.Attribute)):
            return leaf(e)
        if isinstance(e, ast.NamedExpr):
            return self.alg(e.value, leaf)
        if isinstance(e, ast.IfExp):
            return self._union([e.body, e.orelse], leaf)
        if isinstance(e, ast.BoolOp) and isinstance(e.op, ast.Or):
            return self._union(e.values, leaf)
        if isinstance(e, (ast.List, ast.Tuple, ast.Set)):
            out: Set[str] = set()
            for x in e.elts:
                if isinstance(x, ast.Starred):
                    s = self.alg(x.value, leaf)
                    if s is _TOP:
                        return _TOP
                    out |= s
                elif isinstance(x, ast.Constant):
                    out.add(repr(x.value))
                else:
                    return _TOP
            return frozenset(out)
        if isinstance(e, ast.Dict):
            out = set()
            for k, v in zip(e.keys, e.values):
                if k is None:
                    s = self.alg(v, leaf)
                    if s is _TOP:
                        return _TOP
                    out |= s
                elif isinstance(k, ast.Constant):
                    out.add(repr(k.value))
                else:
                    return _TOP
            return frozenset(out)
        if isinstance(e, ast.BinOp):
            if isinstance(e.op, (ast.BitOr, ast.Add)):
                return self._union([e.left, e.right], leaf)
            if isinstance(e.op, (ast.Sub, ast.BitAnd)):
                self.inexact = True
                return self.alg(e.left, leaf)
            return _TOP
        if isinstance(e, (ast.ListComp, ast.SetComp, ast.GeneratorExp, ast.DictComp)):
            if len(e.generators) != 1 or e.generators[0].is_async:
                return _TOP
            gen = e.generators[0]
            key = e.key if isinstance(e, ast.DictComp) else e.elt
            if not isinstance(key, ast.Name):
                return _TOP
            src: Optional[ast.AST] = None
            if isinstance(gen.target, ast.Name) and gen.target.id == key.id:
                src = gen.iter
            elif isinstance(gen.target, (ast.Tuple, ast.List)) and len(gen.target.elts) == 2 and isinstance(gen.target.elts[0], ast.Name) and gen.target.elts[0].id == key.id and isinstance(gen.iter, ast.Call) and isinstance(gen.iter.func, ast.Attribute) and gen.iter.func.attr == "items" and not gen.iter.args:
                src = gen.iter.func.value
            if src is None:
                return _TOP
            s = self.alg(src, leaf)
            if gen.ifs:
                self.inexact = True
                if s is _TOP:
                    # `for k in <anything> if k in A`: A bounds the result
                    for t in gen.ifs:
                        if isinstance(t, ast.Compare) and len(t.ops) == 1 and isinstance(t.ops[0], ast.In) and isinstance(t.left, ast.Name) and t.left.id == key.id:
                            b = self.alg(t.comparators[0], leaf)
                            if b is not _TOP:
                                return b
            return s
        if isinstance(e, ast.Call):
            fn = e.func
            if isinstance(fn, ast.Name) and fn.id in _CONVERT and len(e.args) == 1:
                return self.alg(e.args[0], leaf)
            if isinstance(fn, ast.Name) and fn.id in _CONVERT | {"dict"} and not e.args and not e.keywords:
                return frozenset()
            if isinstance(fn, ast.Name) and fn.id == "dict":
                out = set()
                for a_ in e.args:
                    s = self.alg(a_, leaf)
                    if s is _TOP:
                        return _TOP
                    out |= s
                for k in e.keywords:
                    if k.arg is None:
                        s = self.alg(k.value, leaf)
                        if s is _TOP:
                            return _TOP
                        out |= s
                    else:
                        out.add(repr(k.arg))
                return frozenset(out)
            dn = dotted_name(fn) or ""
            if dn in ("dict.fromkeys", "OrderedDict.fromkeys") and e.args:
                return self.alg(e.args[0], leaf)
            if dn in ("itertools.chain", "chain") and not e.keywords:
                return self._union(list(e.args), leaf)
            if isinstance(fn, ast.Attribute):
                if fn.attr in ("keys", "copy") and not e.args and not e.keywords:
                    return self.alg(fn.value, leaf)
                if fn.attr == "union" and not e.keywords:
                    return self._union([fn.value] + list(e.args), leaf)
                if fn.attr in ("difference", "intersection") and not e.keywords:
                    self.inexact = True
                    return self.alg(fn.value, leaf)
            return _TOP
        return _TOP

    def _union(self, parts: List[ast.AST], leaf) -> Optional[frozenset]:
        out: Set[str] = set()
        for p in parts:
            s = self.alg(p, leaf)
            if s is _TOP:
                return _TOP
            out |= s
        return frozenset(out)


def enclosing_fn(n: ast.AST) -> Optional[ast.AST]:
    for a in ancestors(n):
        if isinstance(a, FuncNode + (ast.Lambda,)):
            return a
    return None


def _rule_wrappers_forward_advertised(repo: Repo, R: Report) -> None:
    """Interface inside a generated wrapper processor (parameter sweeps): the names it advertises through the
    parameter-name interface are what the node resolves with config > context > default; the wrapper's logic selects from
    the resolved mapping what it hands to the wrapped element.  A name that is advertised on the element's behalf (taken
    from the element's signature) but is in no collection the selection draws from is resolved and then dropped: the
    element runs with its own default although the node configuration / the context supplies a value."""
    r = R.rule("C01-D17-generated-wrappers-forward-what-they-advertise", "a generated wrapper processor (parameter sweep) hands the wrapped element every parameter it advertises on the element's behalf: each collection of names taken from the element's signature that feeds get_processing_parameter_names() also feeds the selection of the resolved values that are spread into the element's call; otherwise the node resolves the parameter (config > context > default) and the element silently falls back to its own default", 1)
    for rel in _NODE_PATH_FILES:
        if not repo.has_module(rel):
            continue
        mod = repo.module(rel)
        for kqn, K in sorted((q, c) for q, c in mod.defs.items() if isinstance(c, ast.ClassDef)):
            fac = enclosing_fn(K)
            adv_fn = next((st for st in K.body if isinstance(st, FuncNode) and st.name == NAMES_API), None)
            if fac is None or adv_fn is None:
                continue
            ns = _NameSets(fac)
            cattrs: Dict[str, ast.AST] = {}
            for st in K.body:
                if isinstance(st, (ast.Assign, ast.AnnAssign)) and st.value is not None:
                    for t in (st.targets if isinstance(st, ast.Assign) else [st.target]):
                        if isinstance(t, ast.Name):
                            cattrs[t.id] = st.value

            def scope(F: ast.AST, g: CFG):
                """(leaf resolver at a CFG node, holder-aware mapping keys) for method *F* of the wrapper"""
                recv = F.args.args[0].arg if F.args.args else "self"
                kw = F.args.kwarg.arg if F.args.kwarg is not None else None

                def class_attr(e: ast.AST) -> Optional[str]:
                    if isinstance(e, ast.Attribute):
                        b = ast.unparse(e.value)
                        if b in (recv, "cls", f"type({recv})", f"{recv}.__class__"):
                            return e.attr
                    return None

                def keys(e: ast.AST, use: int, depth: int = 0) -> Optional[frozenset]:
                    if depth > 14:
                        return _TOP

                    def leaf(x: ast.AST) -> Optional[frozenset]:
                        ca = class_attr(x)
                        if ca is not None:
                            return ns.alg(cattrs[ca], ns._leaf) if ca in cattrs else _TOP
                        if not isinstance(x, ast.Name):
                            return _TOP
                        bs = _bound_values(g, x.id, use)
                        if bs is None:
                            return _TOP
                        if not bs:
                            if x.id in _fn_params(F):
                                return _TOP
                            return ns.var(x.id)
                        out: Set[str] = set()
                        for v, d in bs:
                            if isinstance(v, ast.Name) and v.id == x.id and d == g.entry:
                                return _TOP  # a parameter (the resolved mapping itself: everything)
                            s = keys(v, d, depth + 1)
                            if s is _TOP:
                                return _TOP
                            out |= s
                        for site, _root in mutation_sites(F, {x.id}):
                            if isinstance(site, ast.Call) and isinstance(site.func, ast.Attribute):
                                if site.func.attr in _SHRINK:
                                    continue
                                if site.func.attr == "update" and isinstance(site.func.value, ast.Name):
                                    su = _node_of(g, site)
                                    for a_ in site.args:
                                        s = keys(a_, su if su is not None else use, depth + 1)
                                        if s is _TOP:
                                            return _TOP
                                        out |= s
                                    out |= {repr(k.arg) for k in site.keywords if k.arg is not None}
                                    if any(k.arg is None for k in site.keywords):
                                        return _TOP
                                    continue
                                return _TOP
                            if isinstance(site, ast.Delete):
                                continue
                            tg = site.targets if isinstance(site, ast.Assign) else [getattr(site, "target", None)]
                            if all(isinstance(t, ast.Subscript) and isinstance(t.slice, ast.Constant) for t in tg if isinstance(t, (ast.Subscript, ast.Attribute))):
                                out |= {repr(t.slice.value) for t in tg if isinstance(t, ast.Subscript)}
                                continue
                            return _TOP
                        return frozenset(out)

                    return ns.alg(e, leaf)

                return recv, kw, class_attr, keys

            # what the wrapper advertises (exactly: unions and conversions only)
            try:
                A = nfunc(repo, rel, f"{kqn}.{NAMES_API}")
            except Exception:
                A = adv_fn
            ga = CFG(A, may_raise=_no_raise)
            _recv, _kw, _ca, akeys = scope(A, ga)
            ns.inexact = False
            adv: Optional[Set[str]] = set()
            for n in ga.nodes:
                if n.kind == "stmt" and isinstance(n.ast, ast.Return):
                    s = akeys(n.ast.value, n.id) if n.ast.value is not None else _TOP
                    if s is _TOP or adv is None:
                        adv = None
                    else:
                        adv |= s
            if not adv or ns.inexact:
                continue  # names computed some other way (e.g. read off a signature at call time): nothing to compare
            # where the wrapper's logic hands resolved values to the wrapped element
            for L0 in [st for st in K.body if isinstance(st, FuncNode) and st.args.kwarg is not None]:
                lqn = f"{kqn}.{L0.name}"
                try:
                    L = nfunc(repo, rel, lqn)
                except Exception:
                    L = L0
                g = CFG(L, may_raise=_no_raise)
                recv, kw, class_attr, keys = scope(L, g)
                for c in calls_in(L):
                    spreads = [k.value for k in c.keywords if k.arg is None]
                    if not spreads or not isinstance(c.func, ast.Attribute):
                        continue
                    use = _node_of(g, c)
                    if use is None:
                        continue
                    # the element: what the receiver of the call is made from (class attributes set from factory names)
                    rv = _vals(g, c.func.value, use) or [(c.func.value, use)]
                    attrs = {class_attr(x) for v, _u in rv for x in ast.walk(v)} - {None}
                    elem_names = {y.id for a_ in attrs if a_ in cattrs for y in ast.walk(cattrs[a_]) if isinstance(y, ast.Name) and ns.is_local(y.id)}
                    if not elem_names:
                        continue  # not a call on the wrapped element (super().., self.., a helper)
                    fwd: Optional[Set[str]] = set()
                    for s_ in spreads:
                        s = keys(s_, use)
                        if s is _TOP or fwd is None:
                            fwd = None
                        else:
                            fwd |= s
                    if fwd is None:
                        R.ok(r, rel, lqn, f"{norm(c)[:70]} (the whole resolved mapping / an unrestricted selection is handed on)")
                        continue
                    known = set(adv) | fwd
                    # a selection bounded only by another collection read off the wrapped element (not one of the
                    # advertised ones) may well contain the advertised names: absence is not provable
                    opaque = sorted(f for f in fwd - set(adv) if ns.is_local(f) and (ns.deps(f) | {f}) & elem_names)
                    if opaque and not (set(adv) & fwd):
                        R.ok(r, rel, lqn, f"{norm(c)[:60]} (selection bounded by `{opaque[0]}`, itself taken from the wrapped element: not decided)")
                        continue
                    missing = sorted(m for m in adv - fwd if ns.is_local(m) and (ns.deps(m) | {m}) & elem_names and not ((ns.deps(m) & known) - {m}))
                    what = ""
                    if missing:
                        m = missing[0]
                        sel = ", ".join(sorted(fwd)) or "nothing"
                        what = f"the wrapper advertises the names in `{m}` (taken from the signature of `{'/'.join(sorted(elem_names))}`) as processing parameters, so the node resolves them with config > context > default, but the mapping spread into `{norm(c)[:50]}` is selected from {{{sel}}} only: a value the node configuration or the context supplies for such a parameter is dropped and the wrapped element runs with its own default"
                    R.check(not missing, r, rel, lqn, f"{norm(c)[:60]}: advertised {{{', '.join(sorted(adv))}}} / forwarded {{{', '.join(sorted(fwd))}}}", what, c.lineno)


# ---------------------------------------------------------------------- D18 / D19 (round 6)
_WRITE_SINKS = {"update", "set_value", "set_item_value", "update_context"}
_DELETE_SINKS = {"delete", "delete_value", "delete_item_value", "delete_context"}


def _notifier_names(repo: Repo) -> Tuple[Set[str], Set[str]]:
    """(writers, deleters): the processor-side methods through which a processor asks for a context write / delete,
    found by role - methods (any name) of the processor base modules whose body hands their own key parameter to the
    observer's update / delete or to the context mapping's set_value / delete_value."""
    writers: Set[str] = set()
    deleters: Set[str] = set()
    for rel in (CPROC, DPROC):
        if not repo.has_module(rel):
            continue
        for F in [n for n in ast.walk(repo.module(rel).tree) if isinstance(n, FuncNode) and isinstance(parent(n), ast.ClassDef)]:
            ps = [a.arg for a in F.args.args]
            if len(ps) < 2:
                continue
            key_p = ps[1]
            if any(isinstance(x, ast.Name) and x.id == key_p and isinstance(x.ctx, (ast.Store, ast.Del)) for x in walk_no_nested(F)):
                continue
            for c in calls_in(F):
                if not isinstance(c.func, ast.Attribute) or isinstance(c.func.value, ast.Call):
                    continue
                args = list(c.args) + [k.value for k in c.keywords if k.arg is not None]
                if not any(isinstance(a, ast.Name) and a.id == key_p for a in args[:2]):
                    continue
                if c.func.attr in _WRITE_SINKS and len(ps) >= 3:
                    writers.add(F.name)
                elif c.func.attr in _DELETE_SINKS and len(ps) == 2:
                    deleters.add(F.name)
    return writers or {"_notify_context_update"}, deleters or {"_notify_context_deletion"}


def _self_call(c: ast.Call, recv: str, names: Set[str]) -> bool:
    return isinstance(c.func, ast.Attribute) and c.func.attr in names and isinstance(c.func.value, ast.Name) and c.func.value.id == recv


def _normal_nested(repo: Repo, rel: str, fn: ast.AST) -> ast.AST:
    """Normal form of a generated (nested) function: module-level private helpers absorbed; the raw body when the
    normaliser cannot handle it."""
    try:
        from ..normal import normalize
        return normalize(repo, repo.module(rel), fn)
    except Exception:
        return fn


def _payload_source_protocol(repo: Repo) -> Set[str]:
    """Names of the methods through which a payload source hands out its payload: the methods that only the
    payload-source protocol of data_io.py has and that are declared to return a Payload (`_get_payload`, `get_payload`)."""
    own: Set[str] = set()
    if repo.has_module(DATAIO):
        io = [c for c in repo.module(DATAIO).tree.body if isinstance(c, ast.ClassDef)]
        src = [c for c in io if c.name == "PayloadSource"]
        if src:
            others = {st.name for c in io if c is not src[0] for st in c.body if isinstance(st, FuncNode)}
            mine = [st for st in src[0].body if isinstance(st, FuncNode) and not st.name.startswith("__") and st.name not in others]
            own = {st.name for st in mine if st.returns is not None and (dotted_name(st.returns) or "").split(".")[-1] == "Payload"}
            if not own:
                own = {st.name for st in mine if "payload" in st.name and "key" not in st.name}
    return own or {"_get_payload", "get_payload"}


def _rule_payload_source_adapter(repo: Repo, R: Report) -> None:
    """Interface between the payload-source adapter (io_operation_factory.py) and the declared-key test of
    DataOperation (D4b): the test can only reject what it is shown.  The adapter has to show it every key of the
    context the source returned, with that key's value - iterating the *declared* keys instead never offers an
    undeclared key (the source injects it unnoticed / it is dropped) and invents declared keys the payload lacks."""
    r = R.rule("C01-D18-payload-source-adapter-offers-every-loaded-key", "the adapter generated for a payload source hands every key of the context the source returned, with the value stored under it, to the operation's declared-key-checked writer (_notify_context_update) on every normally-returning path: the keys offered are the payload's own (loop over <payload>.context items / keys), not a selection by another collection, so an undeclared key raises KeyError at the source node and no key is created that the source did not produce", 1)
    writers, _deleters = _notifier_names(repo)
    proto = _payload_source_protocol(repo)
    mod = repo.module(IOF)
    seen = 0
    for f0 in [n for n in ast.walk(mod.tree) if isinstance(n, FuncNode) and enclosing_fn(n) is not None]:
        if not any(isinstance(c.func, ast.Attribute) and c.func.attr in proto for c in calls_in(f0)):
            continue
        if not f0.args.args:
            continue
        f = _normal_nested(repo, IOF, f0)
        recv = f.args.args[0].arg
        g = CFG(f, may_raise=_no_raise)
        qn = qualname_of(f0)

        def is_payload(e: ast.AST, use: int) -> bool:
            v = _val(g, e, use)[0]
            return isinstance(v, ast.Call) and isinstance(v.func, ast.Attribute) and v.func.attr in proto

        def is_loaded_ctx(e: Optional[ast.AST], use: int) -> bool:
            if e is None:
                return False
            v, u = _val(g, e, use)
            return isinstance(v, ast.Attribute) and v.attr == "context" and is_payload(v.value, u)

        fetch_nodes = [n.id for n in g.nodes if n.kind == "stmt" and n.ast is not None and any(isinstance(c.func, ast.Attribute) and c.func.attr in proto for c in calls_in(n.ast))]
        if not fetch_nodes:
            continue
        seen += 1
        # loops over the loaded context: (head, For, key name, is-the-item's-value)
        loops = []
        foreign: List[ast.For] = []
        for n in g.nodes:
            if n.kind != "for" or not isinstance(n.ast, ast.For):
                continue
            it, iu = _val(g, n.ast.iter, n.id)
            while isinstance(it, ast.Call) and isinstance(it.func, ast.Name) and it.func.id in ("list", "tuple", "iter") and len(it.args) == 1 and not it.keywords:
                it, iu = _val(g, it.args[0], iu)
            tgt = n.ast.target
            hit = False
            if isinstance(it, ast.Call) and isinstance(it.func, ast.Attribute) and it.func.attr == "items" and not it.args and not it.keywords and is_loaded_ctx(it.func.value, iu):
                if isinstance(tgt, (ast.Tuple, ast.List)) and len(tgt.elts) == 2 and all(isinstance(e, ast.Name) for e in tgt.elts):
                    vname = tgt.elts[1].id
                    loops.append((n.id, n.ast, tgt.elts[0].id, (lambda e, use, vname=vname, head=n.id: isinstance(e, ast.Name) and e.id == vname and {d.id for d in reaching_defs(g, vname, use)} == {head})))
                    hit = True
            else:
                if isinstance(it, ast.Call) and isinstance(it.func, ast.Attribute) and it.func.attr == "keys" and not it.args and not it.keywords:
                    it = it.func.value
                if is_loaded_ctx(it, iu) and isinstance(tgt, ast.Name):
                    kname = tgt.id

                    def looked_up(e: ast.AST, use: int, kname: str = kname) -> bool:
                        v, u = _val(g, e, use)
                        if isinstance(v, ast.Call) and isinstance(v.func, ast.Attribute) and v.func.attr == "get_value" and len(v.args) == 1 and not v.keywords:
                            return is_loaded_ctx(v.func.value, u) and isinstance(v.args[0], ast.Name) and v.args[0].id == kname
                        return isinstance(v, ast.Subscript) and is_loaded_ctx(v.value, u) and isinstance(v.slice, ast.Name) and v.slice.id == kname
                    loops.append((n.id, n.ast, kname, looked_up))
                    hit = True
            if not hit and any(_self_call(c, recv, writers) for c in calls_in(n.ast)):
                foreign.append(n.ast)
        heads = {h for h, _l, _k, _v in loops}
        offers: Dict[int, int] = {}
        for h, lp, kname, is_value in loops:
            for n in g.nodes:
                if n.kind != "stmt" or n.ast is None or not any(x is lp for x in ancestors(n.ast)):
                    continue
                for c in calls_in(n.ast):
                    if not _self_call(c, recv, writers):
                        continue
                    a = _call_args(c, ("key", "value"))
                    if a and isinstance(a.get("key"), ast.Name) and a["key"].id == kname and {d.id for d in reaching_defs(g, kname, n.id)} == {h} and a.get("value") is not None and is_value(a["value"], n.id):
                        offers[n.id] = h
        starts = [t for p in fetch_nodes for t, _lab in g.succ[p] if t not in heads]
        skipped = g.must_pass(starts, [g.ret_exit], lambda n: n.id in heads) if starts else []
        dropped = []
        for h in heads:
            body_starts = [t for t, lab in g.succ[h] if lab == "T" and t not in offers]
            dropped += g.must_pass(body_starts, [h, g.ret_exit], lambda n: n.id in offers) if body_starts else []
        ok = bool(loops) and bool(offers) and not skipped and not dropped and all(any(w == h for w in offers.values()) for h in heads)
        why = "the context the source returned is not offered key by key to the declared-key-checked writer (no loop over its items, a path around the loop, or an iteration that offers nothing)"
        line = f0.lineno
        if foreign:
            lp = foreign[0]
            why = f"the keys handed to the declared-key test are those of `{ast.unparse(lp.iter)[:50]}`, not those of the context the source returned: a key the source injects without declaring it is never shown to the test (no KeyError at this node; the key is dropped and later nodes run), and a declared key the payload does not carry is created anyway"
            line = lp.lineno
        R.check(ok, r, IOF, qn, "for key, value in <payload>.context.items(): self._notify_context_update(key, value)", why, line, (skipped or dropped)[0][1] if (skipped or dropped) else None)
    if not seen:
        raise AnalysisError("io_operation_factory.py: no generated adapter fetches a payload from a payload source (1 confirmed by reading)")


def _rule_write_then_delete(repo: Repo, R: Report) -> None:
    """A generated context processor that both writes a key and deletes a key (rename:) is documented as "writes the
    new key, then suppresses the original".  The two keys are unconstrained factory arguments: over a key alphabet they
    coincide (rename:a:a), and then the order of the two effects is the result - written-then-deleted leaves the key
    absent (a later reader fails with an unresolvable parameter), deleted-then-written leaves it present."""
    r = R.rule("C01-D19-generated-processors-write-before-they-delete", "in a generated context processor that requests both a write and a deletion (rename:SRC:DST), no deletion can be followed by a write whose key may be the same key (two factory arguments that the factory does not force to differ, or one name): the documented order is write the destination, then suppress the source, and for SRC = DST it decides whether the key exists afterwards - and with it whether a later node's parameter is resolvable", 1)
    writers, deleters = _notifier_names(repo)
    mod = repo.module(CFACT)
    seen = 0
    for fac in [n for n in mod.tree.body if isinstance(n, FuncNode)]:
        for f0 in [n for n in ast.walk(fac) if isinstance(n, FuncNode) and n is not fac and n.args.args]:
            recv0 = f0.args.args[0].arg
            if not (any(_self_call(c, recv0, writers) for c in calls_in(f0)) and any(_self_call(c, recv0, deleters) for c in calls_in(f0))):
                continue
            seen += 1
            f = _normal_nested(repo, CFACT, f0)
            recv = f.args.args[0].arg
            g = CFG(f, may_raise=_no_raise)
            qn = f"{fac.name}.{f0.name}"
            fparams = _fn_params(fac)
            local = _fn_params(f)

            def key_of(c: ast.Call, use: int) -> Optional[ast.AST]:
                a = _call_args(c, ("key", "value"))
                return _val(g, a["key"], use)[0] if a and "key" in a else None

            def sites(names: Set[str]) -> List[Tuple[int, ast.Call, Optional[ast.AST]]]:
                out = []
                for n in g.nodes:
                    if n.kind == "stmt" and n.ast is not None:
                        for c in calls_in(n.ast):
                            if _self_call(c, recv, names):
                                out.append((n.id, c, key_of(c, n.id)))
                return out

            # does the factory refuse equal keys? (every return of the factory lies behind `<a> != <b>`)
            def forced_apart(a: str, b: str) -> bool:
                gf = CFG(fac, may_raise=_no_raise)

                def atom(e: ast.AST, use: int) -> Optional[bool]:
                    if isinstance(e, ast.Compare) and len(e.ops) == 1 and isinstance(e.ops[0], (ast.Eq, ast.NotEq)):
                        l, rr = _val(gf, e.left, use)[0], _val(gf, e.comparators[0], use)[0]
                        if isinstance(l, ast.Name) and isinstance(rr, ast.Name) and {l.id, rr.id} == {a, b}:
                            return isinstance(e.ops[0], ast.NotEq)
                    return None
                rets = [n.id for n in gf.nodes if n.kind == "stmt" and isinstance(n.ast, ast.Return)]
                okf, _p, n_guards = _only_through(gf, atom, rets)
                return bool(rets) and okf and n_guards > 0

            def may_coincide(k1: Optional[ast.AST], k2: Optional[ast.AST]) -> bool:
                if k1 is None or k2 is None:
                    return True
                if isinstance(k1, ast.Constant) and isinstance(k2, ast.Constant):
                    return k1.value == k2.value
                if isinstance(k1, ast.Name) and isinstance(k2, ast.Name) and k1.id != k2.id and {k1.id, k2.id} <= fparams and not ({k1.id, k2.id} & local):
                    return not forced_apart(k1.id, k2.id)
                return True

            ws, ds = sites(writers), sites(deleters)
            bad = None
            for dn, dc, dk in ds:
                after = g.reach([t for t, _lab in g.succ[dn]])
                for wn, wc, wk in ws:
                    if wn in after and wn != dn and may_coincide(dk, wk) and bad is None:
                        bad = (dc, wc, dk, wk)
            what = ""
            if bad:
                dc, wc, dk, wk = bad
                dks, wks = (ast.unparse(dk) if dk is not None else "?"), (ast.unparse(wk) if wk is not None else "?")
                what = f"`{norm(dc)[:60]}` runs before `{norm(wc)[:60]}`: the documented order is write, then suppress; `{dks}` and `{wks}` are independent arguments of {fac.name}, and when they name the same key (rename:a:a) the key survives the node instead of being removed - a later node that must fail with an unresolvable parameter runs, and the final context keeps a key the documented semantics remove"
            R.check(bad is None, r, CFACT, qn, "write the destination key, then delete the source key", what, (bad[0].lineno if bad else f0.lineno))
    if not seen:
        raise AnalysisError("context_processors/factory.py: no generated processor both writes and deletes a key (1 confirmed by reading: rename:)")


# ---------------------------------------------------------------------- D20 (round 6)
def _reads_input(e: ast.AST, data_p: str, skip: Tuple[ast.AST, ...] = ()) -> bool:
    """*e* reads the slicer's input collection other than to ask for its class (`type(data)`, `data.__class__`) or to
    deep-copy it."""
    par: Dict[int, ast.AST] = {}
    for n in ast.walk(e):
        for ch in ast.iter_child_nodes(n):
            par[id(ch)] = n
    for x in ast.walk(e):
        if not (isinstance(x, ast.Name) and x.id == data_p):
            continue
        up = par.get(id(x))
        if isinstance(up, ast.Attribute) and up.attr == "__class__":
            continue
        if isinstance(up, ast.Call) and isinstance(up.func, ast.Name) and up.func.id == "type" and len(up.args) == 1:
            continue
        if isinstance(up, ast.Call) and (dotted_name(up.func) or "").split(".")[-1] == "deepcopy" and any(a is x for a in up.args):
            continue  # a deep copy shares nothing with the input
        cur, inside = x, False
        while cur is not None:
            if any(cur is sk for sk in skip):
                inside = True
                break
            cur = par.get(id(cur))
        if not inside:
            return True
    return False


def _slicer_result_is_fresh(R: Report, r: str, p: ast.AST, data_p: str, loop: Optional[ast.For], app: Optional[ast.Call], comp: Optional[ast.AST], shape_known: bool = True) -> None:
    """*shape_known* False: D6 did not recognise the mapping loop (and reported that); only the part that needs no
    loop shape is decided here - no store / mutating call goes to the input collection or to an object made from it."""
    qn = qualname_of(p)
    g = CFG(p, may_raise=_no_raise)
    why: Optional[str] = None
    line = p.lineno
    stored = {x.id for x in walk_no_nested(p) if isinstance(x, ast.Name) and isinstance(x.ctx, ast.Store)}
    for site, root in mutation_sites(p, stored | {data_p}):
        use = _node_of(g, site)
        made_from = None
        if root == data_p and not (use is not None and reaching_defs(g, data_p, use)):
            made_from = data_p
        elif use is not None:
            for v, _u in _vals(g, ast.Name(id=root, ctx=ast.Load()), use) or []:
                if (isinstance(v, ast.Name) and v.id == data_p) or (not isinstance(v, ast.Name) and _reads_input(v, data_p)):
                    made_from = ast.unparse(v)[:50]
        if made_from is not None:
            why, line = f"`{norm(stmt_of(site))[:70]}` writes into " + ("the collection the slicer was given" if made_from == data_p else f"`{root}` = `{made_from}`, an object made from the collection the slicer was given (a shallow copy shares its storage)") + ": the input collection is modified - a value an earlier probe stored in the context, or the caller's input, changes under a later node", getattr(site, "lineno", p.lineno)
            break
    if why is None and not shape_known:
        R.ok(r, SLICE, qn, "no store goes to the input collection (mapping loop not recognised: see C01-D6)")
        return
    acc_defs: Optional[Set[Tuple[int, int]]] = None
    if why is None and loop is not None and app is not None:
        recv = app.func.value if isinstance(app.func, ast.Attribute) else None
        use = _node_of(g, app)
        vs = _vals(g, recv, use) if isinstance(recv, ast.Name) and use is not None else None
        if not vs:
            why, line = f"the element results are appended to `{ast.unparse(recv)[:40] if recv is not None else '?'}`, which is not a local collection created here", app.lineno
        else:
            for v, u in vs:
                fresh = isinstance(v, (ast.Call, ast.List, ast.ListComp)) and not _reads_input(v, data_p)
                if isinstance(v, ast.Name) or not fresh:
                    why, line = f"the element results are collected in `{ast.unparse(v)[:60]}`: " + ("an object made from the input collection (a shallow copy shares the input's storage), so the slicer rewrites the elements of the collection it was given - a value an earlier probe stored in the context, or the caller's input, changes under a later node" if _reads_input(v, data_p) or isinstance(v, ast.Name) else "not a collection created for this call"), getattr(v, "lineno", app.lineno)
                    break
            acc_defs = {(id(v), u) for v, u in vs}
    if why is None:
        rets = [n for n in g.nodes if n.kind == "stmt" and isinstance(n.ast, ast.Return)]
        if not rets or g.must_pass([g.entry], [g.ret_exit], lambda n: n.kind == "stmt" and isinstance(n.ast, ast.Return)):
            why = "a path returns nothing"
        for rn in rets:
            if why is not None:
                break
            rv = rn.ast.value
            good = rv is not None
            if good and comp is not None:
                exprs = [v for v, _u in (_vals(g, rv, rn.id) or [(rv, rn.id)])]
                names = [x for e in [rv] + exprs for x in ast.walk(e) if isinstance(x, ast.Name)]
                holds = any(any(y is comp for y in ast.walk(e)) for e in exprs) or any(any(y is comp for v, _u in (_vals(g, x, rn.id) or []) for y in ast.walk(v)) for x in names)
                good = holds and not any(_reads_input(e, data_p, skip=(comp,)) for e in exprs)
            elif good:
                names = [x for x in ast.walk(rv) if isinstance(x, ast.Name) and isinstance(x.ctx, ast.Load)]
                holds = any({(id(v), u) for v, u in (_vals(g, x, rn.id) or [])} == acc_defs for x in names)
                good = holds and not _reads_input(rv, data_p)
            if not good:
                why, line = f"`{norm(rn.ast)[:60]}` does not return the collection of the element results", rn.ast.lineno
    R.check(why is None, r, SLICE, qn, "out = <new collection>; ..; return out", f"a slicer does not hand back a collection of its own with the mapped elements: {why}", line)


# ---------------------------------------------------------------------- D21 (round 7)
# A generated processor is a bundle of closures over the variables of the function that generates it (the key a
# rename:/delete:/template: processor writes, declares and requires; the wrapped class of an adapter).  Python binds
# such variables when the closure is *called*: what a generated method reads is the last binding made before the
# generating function returned, not the binding in force where the method was written.
def _scope_bound(fn: ast.AST) -> Tuple[Set[str], Set[str]]:
    """(names bound in the scope of function / lambda *fn* itself, names it declares nonlocal / global)."""
    out: Set[str] = set(_fn_params(fn))
    free: Set[str] = set()
    stack: List[ast.AST] = list(fn.body) if isinstance(fn.body, list) else [fn.body]
    while stack:
        n = stack.pop()
        if isinstance(n, (ast.FunctionDef, ast.AsyncFunctionDef, ast.ClassDef)):
            out.add(n.name)
            stack.extend(list(n.decorator_list) + (list(n.args.defaults) + [d for d in n.args.kw_defaults if d is not None] if not isinstance(n, ast.ClassDef) else list(n.bases)))
            continue
        if isinstance(n, ast.Lambda):
            continue
        if isinstance(n, (ast.Nonlocal, ast.Global)):
            free |= set(n.names)
        elif isinstance(n, ast.Name) and isinstance(n.ctx, (ast.Store, ast.Del)):
            out.add(n.id)
        elif isinstance(n, (ast.Import, ast.ImportFrom)):
            out |= {(a.asname or a.name).split(".")[0] for a in n.names}
        elif isinstance(n, ast.ExceptHandler) and n.name:
            out.add(n.name)
        stack.extend(ast.iter_child_nodes(n))
    return out - free, free


_RUNS_ITS_CALLABLE = {"sorted", "min", "max", "map", "filter", "any", "all", "next", "sort", "reduce", "sum", "list", "tuple", "dict", "set"}


def _called_on_the_spot(lam: ast.Lambda) -> bool:
    """The lambda is an argument of sorted / min / max / <list>.sort / an eagerly consumed map / filter: it has run
    by the time the statement is over."""
    up = parent(lam)
    if isinstance(up, ast.keyword):
        up = parent(up)
    if not isinstance(up, ast.Call) or lam is up.func:
        return False
    name = (dotted_name(up.func) or "").split(".")[-1]
    if name in ("map", "filter"):
        outer = parent(up)
        return isinstance(outer, ast.Call) and (dotted_name(outer.func) or "").split(".")[-1] in _RUNS_ITS_CALLABLE
    return name in ("sorted", "min", "max", "sort", "reduce", "any", "all", "next")


def _captured_variables(F: ast.AST) -> Dict[str, List[Tuple[ast.AST, Optional[ast.Name]]]]:
    """Variables of function *F* read (or declared nonlocal: occurrence None) by a function / lambda / method of a
    class nested in *F*, at any depth: name -> [(the outermost nested function the read sits in, the read)].
    Default values, decorators, base classes and class-level statements are evaluated where they stand (early) and
    do not count."""
    own, _free = _scope_bound(F)
    out: Dict[str, List[Tuple[ast.AST, Optional[ast.Name]]]] = {}

    def walk(n: ast.AST, shadow: Set[str], inner: Optional[ast.AST]) -> None:
        if isinstance(n, ast.Name):
            if isinstance(n.ctx, ast.Load) and inner is not None and n.id in own and n.id not in shadow:
                out.setdefault(n.id, []).append((inner, n))
            return
        if isinstance(n, (ast.FunctionDef, ast.AsyncFunctionDef, ast.Lambda)):
            for d in list(n.args.defaults) + [k for k in n.args.kw_defaults if k is not None] + list(getattr(n, "decorator_list", [])):
                walk(d, shadow, inner)
            b, nl = _scope_bound(n)
            if isinstance(n, ast.Lambda) and inner is None and _called_on_the_spot(n):
                walk(n.body, shadow | b, None)  # key= / predicate of a call that runs it before returning: an early read
                return
            top = inner if inner is not None else n
            for s in (n.body if isinstance(n.body, list) else [n.body]):
                walk(s, shadow | b, top)
            for nm in nl:
                if nm in own and nm not in shadow:
                    out.setdefault(nm, []).append((top, None))
            return
        for ch in ast.iter_child_nodes(n):
            walk(ch, shadow, inner)

    for s in F.body:
        walk(s, set(), None)
    return out


def _rule_generated_closures(repo: Repo, R: Report) -> None:
    r = R.rule("C01-D21-generated-methods-see-the-arguments-the-class-was-generated-for", "the methods of a generated processor read the generating function's variables when they are called, i.e. the last binding made before that function returned: a variable a generated method reads through its closure (the key a rename:/delete:/template: processor writes, declares and requires, the wrapped class, a name collection) is not re-bound after the method was defined, and where it is an argument of the generating function it still holds the argument - otherwise the processor acts on another key / class than the one the shorthand or the node declaration named (declared key and written key change together, so the declared-key check stays satisfied)", 8)
    for rel in _NODE_PATH_FILES:
        if not repo.has_module(rel):
            continue
        mod = repo.module(rel)
        for F in [n for n in ast.walk(mod.tree) if isinstance(n, FuncNode)]:
            cap = _captured_variables(F)
            if not cap:
                continue
            g = CFG(F, may_raise=_no_raise)
            params = _fn_params(F)
            qn = qualname_of(F)
            for nm, occ in sorted(cap.items()):
                why, line = None, F.lineno
                at_exit = {d.id: d for d in reaching_defs(g, nm, g.ret_exit)}
                for inner, read in occ:
                    if why is not None:
                        break
                    who = getattr(inner, "name", "<lambda>")
                    if read is None:
                        why, line = f"generated `{who}` re-binds `{nm}` of {F.name} (nonlocal): the variable is shared by every instance and every run of the generated class, so what a node does depends on the calls made before", inner.lineno
                        break
                    site = _node_of(g, inner)
                    if site is None:
                        continue
                    here = {d.id for d in reaching_defs(g, nm, site)}
                    after = g.reach([t for t, _lab in g.succ[site]])
                    late = [d for i, d in sorted(at_exit.items()) if i not in here and i in after and i != site]
                    if late:
                        d = late[0]
                        why, line = f"`{norm(d.ast)[:70]}` re-binds `{nm}` after generated `{who}` was defined: `{who}` reads `{nm}` when it is called and sees this later value, not the one in force at its `def`" + (f" (the argument `{nm}` the generated class was requested for)" if nm in params else ""), getattr(d.ast, "lineno", F.lineno)
                    elif nm in params and here and not _is_param(g, ast.Name(id=nm, ctx=ast.Load()), site, nm):
                        d = next(iter(reaching_defs(g, nm, site)))
                        why, line = f"`{norm(d.ast)[:70]}` replaces the argument `{nm}` before generated `{who}` captures it: the generated processor acts on a value derived from the argument, not on the key / class it was requested for", getattr(d.ast, "lineno", F.lineno)
                R.check(why is None, r, rel, qn, f"`{nm}` (" + ("argument" if nm in params else "local") + f") as read by generated {', '.join(sorted({getattr(i, 'name', '<lambda>') for i, _ in occ}))[:60]}", why or "", line)


# ---------------------------------------------------------------------- D23 (round 7)
# `variables:` of a parameter sweep is a mapping: two declarations that differ only in the order the keys were
# written in are the same declaration.  In a Cartesian product the order of the factors *is* the order of the
# elements, so the factors have to be taken in an order that is a function of the names (plain `sorted`), and every
# combination has to be paired with the names in that same order.
_MAPPING_VIEWS = {"keys", "values", "items"}
_ORDER_KEEPING = {"list", "tuple", "iter"}


def _used_as_mapping(fn: ast.AST, p: str) -> bool:
    """Parameter *p* of *fn* is a mapping: annotated as one, asked for a view, or indexed by something that is not a
    number / slice."""
    for a in list(fn.args.posonlyargs) + list(fn.args.args) + list(fn.args.kwonlyargs):
        if a.arg == p and a.annotation is not None and re.search(r"\b(Dict|dict|Mapping|MutableMapping|OrderedDict)\b", ast.unparse(a.annotation)):
            return True
    for n in ast.walk(fn):
        if isinstance(n, ast.Attribute) and n.attr in _MAPPING_VIEWS | {"get"} and isinstance(n.value, ast.Name) and n.value.id == p:
            return True
        if isinstance(n, ast.Subscript) and isinstance(n.value, ast.Name) and n.value.id == p and not isinstance(n.slice, ast.Slice) and not (isinstance(n.slice, ast.Constant) and isinstance(n.slice.value, int)):
            return True
    return False


def _order_source(g: CFG, e: ast.AST, use: int, depth: int = 0) -> Set[Tuple[str, str]]:
    """Where the *order* of the items of sequence expression *e* comes from: ("sorted", ""), ("custom", why),
    ("written", mapping) = the order the keys of a mapping were written in, ("unknown", text)."""
    if depth > 10:
        return {("unknown", ast.unparse(e)[:40])}
    if isinstance(e, ast.Starred):
        return _order_source(g, e.value, use, depth + 1)
    if isinstance(e, ast.Name):
        vs = _vals(g, e, use)
        if vs is None:
            return {("unknown", e.id)}
        out: Set[Tuple[str, str]] = set()
        for v, u in vs:
            if isinstance(v, ast.Name):
                out.add(("written", v.id) if v.id in _fn_params(g.func) and _used_as_mapping(g.func, v.id) else ("unknown", v.id))
            else:
                out |= _order_source(g, v, u, depth + 1)
        return out
    if isinstance(e, (ast.ListComp, ast.GeneratorExp, ast.DictComp, ast.SetComp)):
        if isinstance(e, ast.SetComp):
            return {("custom", "a set has no defined order")}
        if len(e.generators) != 1:
            return {("unknown", ast.unparse(e)[:40])}
        return _order_source(g, e.generators[0].iter, use, depth + 1)
    if isinstance(e, ast.Call):
        fn = dotted_name(e.func) or ""
        if fn == "sorted" and e.args:
            extra = [k.arg for k in e.keywords if k.arg in ("key", "reverse") and not (isinstance(k.value, ast.Constant) and k.value.value in (None, False))]
            return {("custom", f"sorted(.., {extra[0]}=..)")} if extra or any(k.arg is None for k in e.keywords) else {("sorted", "")}
        if fn == "reversed" and e.args:
            return {("custom", "reversed(..)")}
        if fn in ("set", "frozenset"):
            return {("custom", "a set has no defined order")}
        if fn in _ORDER_KEEPING and len(e.args) == 1:
            return _order_source(g, e.args[0], use, depth + 1)
        if isinstance(e.func, ast.Attribute) and e.func.attr in _MAPPING_VIEWS and not e.args:
            return {("written", ast.unparse(e.func.value)[:30])}
    return {("unknown", ast.unparse(e)[:40])}


def _same_sequence(g: CFG, a: ast.AST, ua: int, b: ast.AST, ub: int) -> bool:
    """*a* at *ua* and *b* at *ub* denote the same sequence of names (same bindings, or the same expression over
    names that are not re-bound in between)."""
    va, vb = _vals(g, a, ua), _vals(g, b, ub)
    if not va or not vb:
        return False
    if {(id(v), u) for v, u in va} == {(id(v), u) for v, u in vb}:
        return True
    if len(va) != 1 or len(vb) != 1 or ast.dump(va[0][0]) != ast.dump(vb[0][0]):
        return False
    return all({d.id for d in reaching_defs(g, x.id, va[0][1])} == {d.id for d in reaching_defs(g, x.id, vb[0][1])} for x in ast.walk(va[0][0]) if isinstance(x, ast.Name))


def _rule_product_order(repo: Repo, R: Report) -> None:
    r = R.rule("C01-D23-sweep-elements-do-not-depend-on-the-order-the-variables-were-written-in", "the element sequence a generated sweep produces is a function of the declaration as a mapping: where steps are enumerated as a Cartesian product (the order of the factors is the order of the elements), the factors are taken in plain sorted order of the variable names - not in the order the keys of `variables:` happen to be written in, a custom or reversed order - and every combination is paired with the names in that same order; otherwise element i is computed from another combination and every order-sensitive consumer (slicer, collection, probe result list) sees permuted data", 1)
    seen = 0
    # the functions that enumerate a sweep's steps: whatever the sweep factory's module calls (followed through
    # imports, so a helper moved to a module of its own is still found)
    smod = repo.module(SWEEP)
    roots = [(smod, n) for n in ast.walk(smod.tree) if isinstance(n, FuncNode)]
    reach = repo.call_graph_closure(roots)
    cands: Dict[int, Tuple[object, ast.AST]] = {id(n): (m, n) for m, n in roots}
    for m, n, _path in reach.values():
        if isinstance(n, FuncNode) and m.rel.startswith("semantiva/") and not m.rel.startswith(_STATE_EXEMPT):
            cands.setdefault(id(n), (m, n))
    for mod, F0 in cands.values():
        rel = mod.rel
        def is_product(c: ast.Call) -> bool:
            d = dotted_name(c.func) or ""
            if not d or not any(isinstance(a, ast.Starred) for a in c.args):
                return False
            head, _dot, rest = d.partition(".")
            full = mod.imports.get(head, head) + (("." + rest) if rest else "")
            return full == "itertools.product"
        if not any(is_product(c) for c in calls_in(F0)):
            continue
        qn = qualname_of(F0)
        F = nfunc(repo, rel, qn, loops=True) if isinstance(parent(F0), (ast.Module, ast.ClassDef)) else F0
        g = CFG(F, may_raise=_no_raise)
        for c in [c for c in calls_in(F) if is_product(c)]:
            use = _node_of(g, c)
            if use is None:
                continue
            seen += 1
            stars = [a for a in c.args if isinstance(a, ast.Starred)]
            src = _order_source(g, stars[0], use) if len(c.args) == 1 else {("unknown", "several factor groups")}
            kinds = {k for k, _w in src}
            if kinds == {"unknown"}:
                raise AnalysisError(f"{qn}: the order of the factors of `{norm(c)[:60]}` cannot be told ({sorted(src)[0][1]})")
            bad = sorted((k, w) for k, w in src if k != "sorted")
            why = ""
            if bad:
                k, w = bad[0]
                why = (f"the factors of `{norm(c)[:60]}` are taken in the order the keys of `{w}` were written in" if k == "written" else f"the factors of `{norm(c)[:60]}` are taken in a non-canonical order ({w})" if k == "custom" else f"the order of the factors of `{norm(c)[:60]}` is not always the sorted one (`{w}`)") + ": with the variables declared as {b: .., a: ..} the sweep enumerates (b, a)-major instead of (a, b)-major - the same set of elements in another order, so element i of the produced collection / probe result list belongs to another combination and two declarations that are equal as mappings give different payloads"
            R.check(not bad, r, rel, qn, "itertools.product over the sequences in sorted(variable names) order", why, c.lineno)
            # pairing: zip(<names>, <combination>) inside the loop over the product
            lp = next((a for a in ancestors(c) if isinstance(a, (ast.For, ast.comprehension))), None)
            gen_src = None
            sv = _vals(g, stars[0].value, use) if len(c.args) == 1 else None
            if sv and len(sv) == 1 and isinstance(sv[0][0], (ast.ListComp, ast.GeneratorExp)) and len(sv[0][0].generators) == 1:
                gen_src = (sv[0][0].generators[0].iter, sv[0][1])
            elif sv and len(sv) == 1:
                gen_src = sv[0]
            tgt = lp.target if lp is not None and isinstance(lp.target, ast.Name) and any(x is c for x in ast.walk(lp.iter)) else None
            if bad or tgt is None or gen_src is None:
                continue
            body = lp.body if isinstance(lp, ast.For) else []
            for z in [z for s in body for z in ast.walk(s) if isinstance(z, ast.Call) and dotted_name(z.func) == "zip" and len(z.args) == 2 and not z.keywords]:
                zu = _node_of(g, z)
                other = [a for a in z.args if not (isinstance(a, ast.Name) and a.id == tgt.id)]
                if zu is None or len(other) != 1:
                    continue
                same = _same_sequence(g, other[0], zu, gen_src[0], gen_src[1])
                R.check(same, r, rel, qn, "every combination is paired with the names in the order of the factors", f"`{norm(z)[:60]}` pairs the combination with `{ast.unparse(other[0])[:40]}`, which is not the sequence of names the factors were taken in (`{ast.unparse(gen_src[0])[:40]}`): a variable receives the value of another variable", z.lineno)
    if not seen:
        raise AnalysisError("no Cartesian product (itertools.product(*factors)) found on the node path (1 confirmed by reading: _iterate_sweep, combinatorial mode)")


# ---------------------------------------------------------------------- D22 (round 7)
# Loading a pipeline must not rewrite its declaration.  A node declaration is a mapping owned by whoever wrote the
# configuration; the same mapping object can stand for several nodes (YAML anchor / alias: `derive: *sweep`) and is
# looked at again by every later load (inspect-then-run, a second Pipeline over the same configuration).  The load
# path copies ONE level (`dict(raw)`, `dict(node_def)`) before it stores into a declaration, so everything below that
# level - the `derive` block, `parameters`, their sub-mappings - is still the declaration's own object.  Decided by a
# value flow with "number of levels this load owns": 0 = the declaration's own object, a one-level copy owns one level
# more than the items it was made from, an item of a container owns one level less than the container, deepcopy /
# literals / objects made elsewhere are owned entirely.  An in-place store into a level-0 value is the violation.
_INF = 99
_IN_PLACE = {"pop", "popitem", "clear", "update", "setdefault", "append", "extend", "insert", "remove", "sort", "reverse", "add", "discard", "__setitem__", "__delitem__"}
_ONE_LEVEL_COPIES = {"dict", "list", "tuple", "set", "frozenset", "sorted", "OrderedDict", "copy", "copy.copy", "MappingProxyType", "types.MappingProxyType", "ChainMap"}
_SAME_OBJECT = {"iter", "reversed", "enumerate", "zip", "cast", "typing.cast", "filter", "tuple"}
_CHILD_CALLS = {"get", "pop", "setdefault", "popitem", "__getitem__"}
_VIEWS = {"items", "values", "keys"}
_NEVER_SHARED = {"isinstance", "issubclass", "len", "str", "int", "float", "bool", "type", "hasattr", "repr", "id", "callable", "any", "all", "min", "max", "sum", "range", "print", "format", "hash"}


def _child(n: int) -> int:
    return _INF if n >= _INF else max(n - 1, 0)


def _copy1(n: int) -> int:
    return _INF if n >= _INF else max(n, 1)


class _Owned:
    """Interprocedural (memoised, depth-bounded) search for in-place stores into the declaration's own objects."""

    def __init__(self, repo: Repo):
        self.repo = repo
        self.memo: Dict[Tuple[int, Tuple[Tuple[str, int], ...]], int] = {}
        self.sites: Dict[Tuple[str, str, int], Tuple[ast.AST, ast.AST, Tuple[str, ...]]] = {}
        self.visited: Dict[Tuple[str, str], int] = {}

    def analyse(self, mod, fn: ast.AST, pl: Dict[str, int], path: Tuple[str, ...]) -> int:
        key = (id(fn), tuple(sorted(pl.items())))
        if key in self.memo:
            return self.memo[key]
        self.memo[key] = _INF  # recursion: optimistic while in progress
        if len(path) > 7:
            return _INF
        qn = qualname_of(fn)
        here = path + (f"{mod.rel}:{qn}",)
        self.repo.consulted.add(mod.rel)
        fr = _OwnedFrame(self, mod, fn, pl, here)
        n_sites = 0
        for st, cont in fr.store_sites:
            lv = fr.level(cont, st)
            if lv < _INF:
                n_sites += 1
            if lv == 0:
                self.sites.setdefault((mod.rel, qn, getattr(st, "lineno", 0)), (st, cont, here))
        self.visited[(mod.rel, qn)] = max(self.visited.get((mod.rel, qn), 0), n_sites)
        for c in calls_in(fn):
            fr.call_level(c, c)
        ret = _INF
        for n in walk_no_nested(fn):
            if isinstance(n, ast.Return) and n.value is not None:
                if isinstance(n.value, ast.Name) and n.value.id in pl and fr.is_leaf_return(n):
                    continue
                ret = min(ret, fr.level(n.value, n))
        self.memo[key] = ret
        return ret


class _OwnedFrame:
    def __init__(self, flow: _Owned, mod, fn: ast.AST, pl: Dict[str, int], path: Tuple[str, ...]):
        self.flow, self.mod, self.fn, self.pl, self.path = flow, mod, fn, pl, path
        self.g = CFG(fn, may_raise=_no_raise)
        self.params = _fn_params(fn)
        self.names: Dict[Tuple[str, int], int] = {}
        self.calls: Dict[int, int] = {}
        self.cut = 0
        self.store_sites: List[Tuple[ast.AST, ast.AST]] = []
        self.into: Dict[str, List[Tuple[ast.AST, ast.AST]]] = {}  # local container -> [(stored value, statement)]
        for n in walk_no_nested(fn):
            tgts: List[ast.AST] = list(n.targets) if isinstance(n, (ast.Assign, ast.Delete)) else [n.target] if isinstance(n, (ast.AugAssign, ast.AnnAssign)) else []
            for t in tgts:
                for el in (t.elts if isinstance(t, (ast.Tuple, ast.List)) else [t]):
                    if isinstance(el, ast.Subscript):
                        self.store_sites.append((n, el.value))
                        if isinstance(el.value, ast.Name) and isinstance(n, (ast.Assign, ast.AnnAssign)) and n.value is not None:
                            self.into.setdefault(el.value.id, []).append((n.value, n))
            if isinstance(n, ast.Call) and isinstance(n.func, ast.Attribute) and n.func.attr in _IN_PLACE:
                st = stmt_of(n) or n
                self.store_sites.append((st, n.func.value))
                if isinstance(n.func.value, ast.Name) and n.func.attr in ("update", "append", "extend", "add", "insert", "setdefault", "__setitem__"):
                    for a in list(n.args) + [k.value for k in n.keywords]:
                        self.into.setdefault(n.func.value.id, []).append((a if n.func.attr not in ("update", "extend") else ast.Starred(value=a, ctx=ast.Load()), st))

    # -- helpers
    def use_of(self, at: ast.AST) -> Optional[int]:
        return _node_of(self.g, at)

    def is_leaf_return(self, ret: ast.Return) -> bool:
        """`return <param>` reached only where the parameter was tested not to be a mapping / sequence (the tail of a
        recursive rebuild): nothing to store into."""
        ids = self.g.nodes_for(ret)
        name = ret.value.id

        def atom_for(kinds: Set[str]):
            def atom(e: ast.AST, _use: int) -> Optional[bool]:
                if isinstance(e, ast.Call) and dotted_name(e.func) == "isinstance" and len(e.args) == 2 and dotted_name(e.args[0]) == name:
                    t = e.args[1]
                    if {(dotted_name(x) or "").split(".")[-1] for x in (t.elts if isinstance(t, ast.Tuple) else [t])} & kinds:
                        return False
                return None
            return atom
        return bool(ids) and all(_only_through(self.g, atom_for(k), ids)[0] for k in ({"dict", "Mapping", "MutableMapping"}, {"list", "Sequence", "MutableSequence"}))

    def level(self, e: Optional[ast.AST], at: ast.AST, env: Optional[Dict[str, int]] = None, depth: int = 0) -> int:
        """Number of levels of the value of *e* (evaluated at statement / expression *at*) this load owns."""
        if depth > 40:
            self.cut += 1  # too deep: optimistic, and nothing computed on the way back is remembered
            return _INF
        if e is None or isinstance(e, (ast.Constant, ast.JoinedStr, ast.Compare, ast.Lambda)):
            return _INF
        if isinstance(e, ast.Name):
            if env and e.id in env:
                return env[e.id]
            return self.name_level(e.id, at, depth)
        if isinstance(e, (ast.NamedExpr, ast.Starred, ast.Await)):
            return self.level(e.value, at, env, depth + 1)
        if isinstance(e, ast.IfExp):
            return min(self.level(e.body, at, env, depth + 1), self.level(e.orelse, at, env, depth + 1))
        if isinstance(e, ast.BoolOp):
            return min(self.level(v, at, env, depth + 1) for v in e.values)
        if isinstance(e, ast.BinOp):
            return _copy1(min(self.level(e.left, at, env, depth + 1), self.level(e.right, at, env, depth + 1)))
        if isinstance(e, ast.Attribute):
            return _child(self.level(e.value, at, env, depth + 1))
        if isinstance(e, ast.Subscript):
            base = self.level(e.value, at, env, depth + 1)
            return _copy1(base) if isinstance(e.slice, ast.Slice) else _child(base)
        if isinstance(e, (ast.Dict, ast.List, ast.Tuple, ast.Set)):
            items: List[int] = []
            if isinstance(e, ast.Dict):
                for k, v in zip(e.keys, e.values):
                    lv = self.level(v, at, env, depth + 1)
                    items.append(_child(lv) if k is None else lv)
            else:
                for v in e.elts:
                    lv = self.level(v, at, env, depth + 1)
                    items.append(_child(lv) if isinstance(v, ast.Starred) else lv)
            m = min(items, default=_INF)
            return _INF if m >= _INF else m + 1
        if isinstance(e, (ast.ListComp, ast.SetComp, ast.GeneratorExp, ast.DictComp)):
            env2 = dict(env or {})
            for gen in e.generators:
                lv = _child(self.level(gen.iter, at, env2, depth + 1))
                for x in ast.walk(gen.target):
                    if isinstance(x, ast.Name):
                        env2[x.id] = lv
            m = self.level(e.value if isinstance(e, ast.DictComp) else e.elt, at, env2, depth + 1)
            return _INF if m >= _INF else m + 1
        if isinstance(e, ast.Call):
            return self.call_level(e, at, env, depth + 1)
        return _INF

    def name_level(self, name: str, at: ast.AST, depth: int) -> int:
        use = self.use_of(at)
        if use is None:
            return self.pl.get(name, _INF)
        ck = (name, use)
        if ck in self.names:
            return self.names[ck]
        self.names[ck] = _INF
        cut0 = self.cut
        defs = reaching_defs(self.g, name, use)
        out = _INF
        if name in self.params:
            if not defs:
                out = self.pl.get(name, _INF)
            elif use in self.g.reach([self.g.entry], blocked={n.id for n in self.g.nodes if _defines(n, name)} - {use}):
                out = self.pl.get(name, _INF)
        for d in defs:
            out = min(out, self.def_level(d, name, depth))
        if out > 0:
            for v, st in self.into.get(name, []):  # what was stored into it is part of it (flow-insensitive)
                lv = self.level(v, st, None, depth + 1)
                lv = _child(lv) if isinstance(v, ast.Starred) else lv
                out = min(out, _INF if lv >= _INF else lv + 1)
        if self.cut == cut0:
            self.names[ck] = out
        else:
            del self.names[ck]
        return out

    def def_level(self, d, name: str, depth: int) -> int:
        a = d.ast
        if d.kind == "stmt" and isinstance(a, (ast.Assign, ast.AnnAssign)):
            v = _assigned_component(a, name)
            if v is not None:
                return self.level(v, a, None, depth + 1)
            return _child(self.level(a.value, a, None, depth + 1)) if a.value is not None else _INF
        if d.kind == "stmt" and isinstance(a, ast.AugAssign):
            return _copy1(self.level(a.value, a, None, depth + 1))
        if d.kind == "for" and isinstance(a, ast.For):
            return _child(self.level(a.iter, a, None, depth + 1))
        return _INF

    def call_level(self, c: ast.Call, at: ast.AST, env: Optional[Dict[str, int]] = None, depth: int = 0) -> int:
        if env is None and id(c) in self.calls:
            return self.calls[id(c)]
        cut0 = self.cut
        out = self._call_level(c, at, env, depth)
        if env is None and self.cut == cut0:
            self.calls[id(c)] = out
        return out

    def _call_level(self, c: ast.Call, at: ast.AST, env: Optional[Dict[str, int]], depth: int) -> int:
        fn = dotted_name(c.func) or ""
        attr = c.func.attr if isinstance(c.func, ast.Attribute) else None
        args = list(c.args) + [k.value for k in c.keywords]
        if fn.split(".")[-1] in ("deepcopy", "loads", "safe_load", "load") or fn in _NEVER_SHARED:
            return _INF
        if attr in _CHILD_CALLS and c.args:
            got = _child(self.level(c.func.value, at, env, depth + 1))
            for dflt in c.args[1:]:
                got = min(got, self.level(dflt, at, env, depth + 1))
            return got
        if attr in _VIEWS and not args:
            return self.level(c.func.value, at, env, depth + 1)
        if attr == "copy" and not args:
            return _copy1(self.level(c.func.value, at, env, depth + 1))
        if fn in _ONE_LEVEL_COPIES or fn.split(".")[-1] in ("OrderedDict", "MappingProxyType"):
            out = _copy1(min([self.level(a, at, env, depth + 1) for a in c.args], default=_INF))
            for k in c.keywords:
                lv = self.level(k.value, at, env, depth + 1)
                lv = _child(lv) if k.arg is None else lv
                out = min(out, _INF if lv >= _INF else lv + 1)
            return out
        if fn in _SAME_OBJECT:
            return min([self.level(a, at, env, depth + 1) for a in (c.args[1:] if fn.endswith("cast") else c.args)], default=_INF)
        if fn == "getattr" and c.args:
            return _child(self.level(c.args[0], at, env, depth + 1))
        levels = [self.level(a, at, env, depth + 1) for a in args]
        recv_level = self.level(c.func.value, at, env, depth + 1) if isinstance(c.func, ast.Attribute) else _INF
        if min(levels + [recv_level], default=_INF) >= _INF:
            return _INF
        out = _INF
        for tmod, tfn in self.flow.repo.resolve_call(self.mod, c):
            if not isinstance(tfn, FuncNode):
                continue
            is_ctor = tfn.name == "__init__" and attr != "__init__"
            deco = {dotted_name(d) for d in tfn.decorator_list}
            if isinstance(parent(tfn), ast.ClassDef) and (is_ctor or "classmethod" in deco):
                pos = [x.arg for x in list(tfn.args.posonlyargs) + list(tfn.args.args)][1:]  # self / cls is not an argument of the call
                bound = _call_args(c, tuple(pos) + tuple(x.arg for x in tfn.args.kwonlyargs))
            else:
                bound = _callee_binding(tmod, c, tfn)
            if bound is None:
                continue
            pl = {p: self.level(v, at, env, depth + 1) for p, v in bound.items()}
            pl = {p: lv for p, lv in pl.items() if lv < _INF}
            if not pl:
                continue
            got = self.flow.analyse(tmod, tfn, pl, self.path)
            out = min(out, _INF if is_ctor else got)
        return out


def _rule_declaration_not_rewritten(repo: Repo, R: Report) -> None:
    r = R.rule("C01-D22-loading-does-not-rewrite-the-declaration", "loading a pipeline leaves the configuration it was given as it was declared: on the way from the Pipeline constructor / the orchestrator's node instantiation to the node factory, every in-place store (item assignment, del, pop / update / setdefault / append ..) goes into a mapping this load made itself - the load path copies a declaration one level deep, so the nested blocks of a node declaration (`derive`, `parameters`, ..) are still the declaration's own objects, shared by every node that refers to them through a YAML alias and seen again by every later load; a store into one of them makes the second such node (or the second Pipeline over the same configuration) run something else than was declared", 3)
    flow = _Owned(repo)
    roots: List[Tuple[object, ast.AST]] = []
    pmod = repo.module(PIPELINE)
    for cls in [n for n in pmod.tree.body if isinstance(n, ast.ClassDef)]:
        init = next((n for n in cls.body if isinstance(n, FuncNode) and n.name == "__init__"), None)
        if init is not None and any(isinstance(n, FuncNode) and any(call_attr(c) == "execute" for c in calls_in(n)) for n in cls.body):
            roots.append((pmod, init))
    omod = repo.module(ORCH)
    for f in [n for n in ast.walk(omod.tree) if isinstance(n, FuncNode)]:
        if any(tm.rel == NODEFACT for c in calls_in(f) for tm, _t in repo.resolve_call(omod, c)):
            roots.append((omod, f))
    if len(roots) < 2:
        raise AnalysisError("load path: the Pipeline constructor (class whose methods call <orchestrator>.execute) and the orchestrator function that calls the node factory were not both found")
    for m, f in roots:
        a = f.args
        names = [x.arg for x in list(a.posonlyargs) + list(a.args) + list(a.kwonlyargs)]
        if isinstance(parent(f), ast.ClassDef) and names:
            names = names[1:]
        flow.analyse(m, f, {p: 0 for p in names}, ())
        R.ok(r, m.rel, qualname_of(f), "entry of the load path: what it is given belongs to the caller (the configuration / the Pipeline's specification)")
    for (rel, qn, line), (st, cont, path) in sorted(flow.sites.items()):
        R.violation(r, rel, qn, norm(st)[:90], f"`{ast.unparse(cont)[:40]}` is the declaration's own object here (reached from the configuration without a copy of that level: `dict(x)` copies one level, its items are still shared): the store rewrites the configuration the pipeline was loaded from - a second node that shares the block through a YAML alias, or the next Pipeline built from the same configuration, no longer finds what was declared (e.g. a swept node runs un-swept)", line, list(path))
    for (rel, qn), n in sorted(flow.visited.items()):
        if n and not any(k[0] == rel and k[1] == qn for k in flow.sites) and not any(m.rel == rel and qualname_of(f) == qn for m, f in roots):
            R.ok(r, rel, qn, f"{n} in-place store(s) on values reached from the declaration: all into copies made by this load")
