"""C04 - configuration identities are pure functions of configuration meaning.

D1 no ambient inputs in the identity slice (D1b: nor handed to it by the functions it calls), D2 key-order
insensitivity of everything hashed (D2b: no repr/str text of a container in a hashed value; sorts of sets are total),
D3 history independence (no mutation of caller-owned identity inputs, no module state),
D4 inspect and run time use the same id functions on the same fields, D5 = C12 rules.
"""
from __future__ import annotations

import ast
from typing import Dict, List, Optional, Set, Tuple, Union

from ..cfg import CFG, reaching_defs
from ..engine import (
    AnalysisError,
    FuncNode,
    Repo,
    ancestors,
    assigned_value,
    call_attr,
    call_name,
    calls_in,
    dotted_name,
    kwarg,
    norm,
    qualname_of,
    stmt_of,
    walk_no_nested,
)
from ..report import Report

ORCH = "semantiva/execution/orchestrator/orchestrator.py"
EXECUTE = "SemantivaOrchestrator.execute"

def access_path(target: ast.AST) -> Tuple[Optional[str], List[object]]:
    """Root name and the subscript/attribute keys of an access expression."""
    keys: List[object] = []
    e = target
    while isinstance(e, (ast.Subscript, ast.Attribute)):
        if isinstance(e, ast.Subscript):
            keys.append(e.slice.value if isinstance(e.slice, ast.Constant) else "*")
        else:
            keys.append(e.attr)
        e = e.value
    if isinstance(e, ast.Call) and isinstance(e.func, ast.Attribute) and e.func.attr == "get" and e.args:
        keys.append(e.args[0].value if isinstance(e.args[0], ast.Constant) else "*")
        root, more = access_path(e.func.value)
        return root, more + list(reversed(keys))
    return (e.id if isinstance(e, ast.Name) else None), list(reversed(keys))


def mutation_targets(fn: ast.AST) -> List[Tuple[ast.AST, ast.AST]]:
    """(statement, mutated container expression) pairs in *fn* (stores, deletes, mutator calls)."""
    from ..engine import MUTATORS

    out = []
    for n in walk_no_nested(fn):
        tgts: List[ast.AST] = []
        if isinstance(n, ast.Assign):
            tgts = list(n.targets)
        elif isinstance(n, (ast.AugAssign, ast.AnnAssign)):
            tgts = [n.target]
        elif isinstance(n, ast.Delete):
            tgts = list(n.targets)
        for t in tgts:
            for el in (t.elts if isinstance(t, (ast.Tuple, ast.List)) else [t]):
                if isinstance(el, (ast.Subscript, ast.Attribute)):
                    out.append((n, el.value))
        if isinstance(n, ast.Call) and isinstance(n.func, ast.Attribute) and n.func.attr in MUTATORS and n.func.attr not in ("pop",):
            out.append((stmt_of(n), n.func.value))
    return out


FRESH_CTORS = {"dict", "list", "set", "frozenset", "tuple", "sorted", "copy", "deepcopy", "OrderedDict", "defaultdict", "str", "int", "float", "bool", "len"}


def _aliased_through_call(flow, container: ast.AST, owned: Set[str], depth: int = 0) -> Optional[str]:
    """The mutated object can be one that a callee built around / handed back from a caller-owned argument: it is read
    out of (an attribute, element or field of) the result of a call that was given a value derived from *owned*, with no
    copy in between.  The callee may keep its argument inside what it returns (a node object keeps the parameter mapping
    of its configuration), so the object is the caller's until copied.  Returns a description, or None."""
    from .c04_rest import _show_leaf

    for root, rest in sorted(flow.origins(container), key=lambda l: (getattr(l[0], "lineno", 0), getattr(l[0], "col_offset", 0))):
        via: Optional[ast.AST] = None
        if isinstance(root, ast.Attribute):
            via = root.value
        elif isinstance(root, ast.Call) and rest:
            via = root
        if via is None:
            continue
        calls: List[ast.Call] = []
        if isinstance(via, ast.Call):
            calls = [via]
        else:
            hops = 0
            bases = [via]
            while bases and hops < 3:
                nxt: List[ast.AST] = []
                for b in bases:
                    for r2, _p2 in flow.origins(b):
                        if isinstance(r2, ast.Call):
                            calls.append(r2)
                        elif isinstance(r2, ast.Attribute) and r2 is not b:
                            nxt.append(r2.value)
                bases, hops = nxt, hops + 1
        for c in calls:
            if call_attr(c) in FRESH_CTORS:
                continue
            fed: Set[str] = set()
            for a in list(c.args) + [kw.value for kw in c.keywords]:
                fed |= flow.feeds(a)[0] & owned
            if fed:
                return f"`{_show_leaf((root, rest))}` is part of what `{norm(c)[:50]}` returned for the caller's `{sorted(fed)[0]}`"
    return None


def check_no_mutation(repo: Repo, R: Report, rule: str, rel: str, qualname: str, params: List[str], through_calls: bool = False) -> int:
    """Every in-place mutation in the function hits an object this call created, never one that is (part of) what
    the caller handed in through *params*.

    Decided on the normal form (private helpers inlined) by object origin (c04_rest.Flow, identity mode): the mutated
    container expression is traced back through locals (reaching definitions), loop / comprehension targets,
    subscripts, `.get`, conditional expressions and what was stored into the containers it is read from; a copy
    (dict(x), {**x}, list(x), x.copy(), a comprehension, a loop that appends copies) is a new object whose children
    are still the caller's, a deep copy is new at every depth, the result of any other call is owned by this call.
    The mutation is a violation when one possible origin is a parameter itself or something read out of it."""
    from .c04_rest import _show_leaf, flow_of

    flow = flow_of(repo, rel, qualname, identity=True)
    fn = flow.fn
    owned = set(params)
    n_sites = 0
    for st, container in mutation_targets(fn):
        root, _keys = access_path(container)
        if root is None or root == "self":
            continue
        names, _calls = flow.feeds(container)
        if not (names & owned):
            continue  # unrelated to the caller-owned inputs
        n_sites += 1
        shared = sorted(_show_leaf(l) for l in flow.origins(container) if isinstance(l[0], ast.Name) and l[0].id in owned and l[0].id in flow.params)
        via = _aliased_through_call(flow, container, owned) if through_calls and not shared else None
        if via is not None:
            R.check(False, rule, rel, qualname, norm(st),
                    f"in-place mutation of `{norm(container)[:50]}`, which was not copied: {via} - the callee keeps the mapping it was configured with, so this writes into the node configuration the caller still holds; canonicalising the same node list afterwards (Pipeline(...), build_canonical_spec) sees the modified parameters and yields other node uuids / ids than before the call", st.lineno)
            continue
        R.check(not shared, rule, rel, qualname, norm(st),
                f"in-place mutation of an object reachable from the caller-owned `{'/'.join(params)}` (`{norm(container)[:50]}` can be `{shared[0] if shared else ''}`): the next run of the same Pipeline hashes the modified spec and gets different identities", st.lineno)
    return n_sites


def node_config_consumers(repo: Repo) -> List[Tuple[str, str, str]]:
    """(file, function, parameter) of the package functions that are handed the node configurations next to the
    canonicaliser: in build_inspection_payload (normal form) every call that receives the very value that is also the
    argument of build_canonical_spec - and build_canonical_spec itself.  Found by value origin, not by name."""
    from .c04_rest import BUILDER, flow_of

    flow = flow_of(repo, BUILDER, "build_inspection_payload")
    mod = repo.module(BUILDER)
    canon = [c for c in calls_in(flow.fn) if call_attr(c) == "build_canonical_spec" and c.args]
    if not canon:
        raise AnalysisError("build_inspection_payload: no build_canonical_spec(<nodes>) call (anchor of the node-configuration consumers)")
    key = lambda leaves: {(id(r), p) for r, p in leaves}  # noqa: E731
    node_vals = set().union(*[key(flow.origins(c.args[0])) for c in canon])
    out: List[Tuple[str, str, str]] = []
    for c in calls_in(flow.fn):
        for tm, tf in repo.resolve_call(mod, c):
            if not isinstance(tf, FuncNode) or tm.defs.get(qualname_of(tf)) is not tf:
                continue
            pos = [a.arg for a in tf.args.posonlyargs + tf.args.args]
            bound = [(pos[i], a) for i, a in enumerate(c.args) if i < len(pos) and not isinstance(a, ast.Starred)] + [(kw.arg, kw.value) for kw in c.keywords if kw.arg]
            for pname, a in bound:
                if isinstance(a, ast.Constant):
                    continue
                if key(flow.origins(a)) & node_vals and (tm.rel, qualname_of(tf), pname) not in out:
                    out.append((tm.rel, qualname_of(tf), pname))
    return out


def no_mutation_of_node_configs(repo: Repo, R: Report) -> None:
    """C04-D3c: the consumers of the node list leave it as they found it."""
    r = R.rule("C04-D3c-node-configs-not-mutated", "no function that is handed the node configurations next to the canonicaliser (the inspection builder, build_canonical_spec) mutates in place an object that is, or may still be part of, a node mapping of its caller - also not through what a callee returned for it (a node object keeps the parameter mapping of its configuration) unless it copied first: the same node list is canonicalised afterwards (inspect-then-build in the CLI, build_inspection_payload, a second Pipeline), and its identities must not depend on whether it was inspected before", 8)
    consumers = node_config_consumers(repo)
    if len(consumers) < 2:
        raise AnalysisError(f"node-configuration consumers not found by role in build_inspection_payload (got {consumers})")
    for rel, qn, pname in consumers:
        check_no_mutation(repo, R, r, rel, qn, [pname], through_calls=True)


# ---------------------------------------------------------------------------
# round 9: D3d - the callees that are handed a caller-owned node mapping (interprocedural ownership)
# ---------------------------------------------------------------------------
def _package_targets(repo: Repo, mod, call: ast.Call) -> List[Tuple[object, ast.AST]]:
    try:
        got = repo.resolve_call(mod, call)
    except AnalysisError:
        return []
    return [(tm, tf) for tm, tf in got if isinstance(tf, FuncNode) and tm.defs.get(qualname_of(tf)) is tf]


def _bind_args(tf: ast.AST, call: ast.Call) -> List[Tuple[str, ast.AST]]:
    """(parameter name, argument expression) of *call* against the signature of *tf* (a bound method / constructor
    call does not pass the receiver)."""
    pos = [a.arg for a in tf.args.posonlyargs + tf.args.args]
    static = any((dotted_name(d) or "").split(".")[-1] == "staticmethod" for d in getattr(tf, "decorator_list", []))
    in_class = isinstance(getattr(tf, "_parent", None), ast.ClassDef)
    if in_class and not static and pos and pos[0] in ("self", "cls", "mcs"):
        pos = pos[1:]
    out = [(pos[i], a) for i, a in enumerate(call.args) if i < len(pos) and not isinstance(a, ast.Starred)]
    names = set(pos) | {a.arg for a in tf.args.kwonlyargs}
    out += [(kw.arg, kw.value) for kw in call.keywords if kw.arg and kw.arg in names]
    return out


def _identity_flow(repo: Repo, rel: str, qualname: str):
    from .c04_rest import flow_of

    try:
        return flow_of(repo, rel, qualname, identity=True)
    except (AnalysisError, RecursionError):
        return None


def _handed_back(repo: Repo, rel: str, qualname: str, rest: Tuple[str, ...]) -> Set[Tuple[str, Tuple[str, ...]]]:
    """(parameter, path) pairs such that what the function returns, read along *rest*, can be the very object the
    caller passed for that parameter, read along path (a function that returns its argument on some path - a
    preprocessing step that has nothing to do - hands the caller's object back, not a copy)."""
    cache = repo.__dict__.setdefault("_c04_handed_back", {})
    key = (rel, qualname, rest)
    if key in cache:
        return cache[key]
    cache[key] = set()  # recursion guard
    out: Set[Tuple[str, Tuple[str, ...]]] = set()
    sub = _identity_flow(repo, rel, qualname)
    if sub is not None:
        for ret in [n for n in walk_no_nested(sub.fn) if isinstance(n, ast.Return) and n.value is not None]:
            try:
                leaves = sub.origins(ret.value, rest)
            except AnalysisError:
                continue
            for root, p in leaves:
                if isinstance(root, ast.Name) and root.id in sub.params:
                    out.add((root.id, p))
    cache[key] = out
    return out


def object_origins(repo: Repo, rel: str, flow, e: ast.AST, path: Tuple[str, ...] = (), depth: int = 0) -> Set[Tuple[ast.AST, Tuple[str, ...]]]:
    """flow.origins, and behind every leaf that is the result of a package function that can hand its argument back
    (see _handed_back) the origins of that argument."""
    try:
        leaves = set(flow.origins(e, path))
    except AnalysisError:
        return set()
    out = set(leaves)
    if depth >= 3:
        return out
    mod = repo.module(rel)
    for root, rest in leaves:
        if not isinstance(root, ast.Call) or call_attr(root) in FRESH_CTORS:
            continue
        for tm, tf in _package_targets(repo, mod, root):
            back = _handed_back(repo, tm.rel, qualname_of(tf), rest)
            if not back:
                continue
            bound = dict(_bind_args(tf, root))
            for pname, p2 in sorted(back):
                if pname in bound:
                    out |= object_origins(repo, rel, flow, bound[pname], p2, depth + 1)
    return out


def _self_normalising_store(repo: Repo, rel: str, flow, st: ast.AST, container: ast.AST, same_object) -> Optional[Tuple[str, Tuple[str, str]]]:
    """`X[K] = G(<X[K]>)` - the field K of a mapping is replaced by what the package function G makes of the value the
    same field of the same mapping held (a default literal where it was absent): returns (K, (file, function) of G).
    *same_object*(leaf) says whether a non-literal origin of G's argument is the field of the mapping in question."""
    if not isinstance(st, ast.Assign) or len(st.targets) != 1:
        return None
    tgt = st.targets[0]
    if not (isinstance(tgt, ast.Subscript) and tgt.value is container and isinstance(tgt.slice, ast.Constant) and isinstance(tgt.slice.value, str)):
        return None
    field = tgt.slice.value
    try:
        made = flow.origins(st.value)
    except AnalysisError:
        return None
    fn_ids: Set[Tuple[str, str]] = set()
    for root, rest in made:
        if rest or not isinstance(root, ast.Call):
            return None
        targets = _package_targets(repo, repo.module(rel), root)
        if len(targets) != 1:
            return None
        tm, tf = targets[0]
        bound = _bind_args(tf, root)
        if len(bound) != 1:
            return None
        n_field = 0
        for leaf in object_origins(repo, rel, flow, bound[0][1]):
            r2, p2 = leaf
            if not p2 and (isinstance(r2, ast.Constant) or (isinstance(r2, (ast.Dict, ast.List, ast.Tuple)) and not getattr(r2, "keys", getattr(r2, "elts", None)))):
                continue  # the default where the field is absent / empty
            if r2 is root and not p2:
                continue  # what this very store put there on an earlier round of a loop (re-applying the function)
            if p2 and p2[-1] == "f:" + field and (same_object(leaf) or isinstance(r2, ast.Call)):
                n_field += 1 if same_object(leaf) else 0  # (a Call root: the same field of what a preprocessing step made of the mapping)
                continue
            return None
        if not n_field:
            return None
        fn_ids.add((tm.rel, qualname_of(tf)))
    return (field, sorted(fn_ids)[0]) if len(fn_ids) == 1 else None


def canonicaliser_normalisations(repo: Repo) -> Set[Tuple[str, Tuple[str, str]]]:
    """The (field, function) pairs such that the canonicaliser (build_canonical_spec, normal form) passes what a node
    mapping holds under *field* through the package function *function* (parameter resolution) - however it keeps the
    result (a store into its own copy of the node, a new mapping, a local)."""
    from .c04_rest import GRAPH

    flow = _identity_flow(repo, GRAPH, "build_canonical_spec")
    if flow is None:
        raise AnalysisError("build_canonical_spec: value-origin analysis failed (anchor of the node normalisations)")
    out: Set[Tuple[str, Tuple[str, str]]] = set()
    mod = repo.module(GRAPH)
    for c in calls_in(flow.fn):
        targets = _package_targets(repo, mod, c)
        if len(targets) != 1:
            continue
        tm, tf = targets[0]
        bound = _bind_args(tf, c)
        if len(bound) != 1:
            continue
        try:
            direct = flow.origins(bound[0][1])  # (not behind hand-backs: the field as the node holds it, not a value made of it)
        except AnalysisError:
            continue
        for _r2, p2 in direct:
            if p2 and p2[-1].startswith("f:"):
                out.add((p2[-1][2:], (tm.rel, qualname_of(tf))))
    return out


# ---------------------------------------------------------------------------
# round 10: D3e - the write-back D3d accepts is harmless only while the canonicaliser hashes the field through the same function
# ---------------------------------------------------------------------------
def _const_keys_of(fn: ast.AST) -> List[str]:
    """Every constant string used as a mapping key anywhere in the function (literal keys, subscripts, get / pop / setdefault)."""
    keys: Set[str] = set()
    for n in ast.walk(fn):
        if isinstance(n, ast.Dict):
            keys |= {k.value for k in n.keys if isinstance(k, ast.Constant) and isinstance(k.value, str)}
        elif isinstance(n, ast.Subscript) and isinstance(n.slice, ast.Constant) and isinstance(n.slice.value, str):
            keys.add(n.slice.value)
        elif isinstance(n, ast.Call) and isinstance(n.func, ast.Attribute) and n.func.attr in ("get", "pop", "setdefault") and n.args and isinstance(n.args[0], ast.Constant) and isinstance(n.args[0].value, str):
            keys.add(n.args[0].value)
        elif isinstance(n, ast.Call) and call_attr(n) in ("dict", "OrderedDict"):
            keys |= {kw.arg for kw in n.keywords if kw.arg}
    return sorted(keys)


def _hash_call(mod, fn: ast.AST, c: ast.Call) -> bool:
    from .c04_rest import _is_hasher_update, _qualified

    d = _qualified(mod, c)
    return d == "uuid.uuid5" or d.startswith("hashlib.") or _is_hasher_update(fn, c, mod)


class RawFieldReach:
    """Does what a node mapping holds under *field* reach an expression of the canonicaliser without having passed the
    function G?  The node-level locations (root, prefix) - G's argument is root<prefix + field> - are taken from the
    value origins of the argument of the G call(s), also behind helpers that hand their argument back.  From a queried
    expression the value origins are followed through container literals and copies (field by field, so that a store
    which replaces a field on every path to the use counts), through the arguments of calls whose result is used
    whole (a transformation of its arguments) and through the operands of other expressions; the walk stops at a call
    of G.  A leaf that is the whole node mapping (or the node list) is asked again for the field itself at the place
    it is used - there the field may already hold G's result."""

    def __init__(self, repo: Repo, rel: str, flow, field: str, g_fn: Tuple[str, str]):
        self.repo, self.rel, self.flow, self.field, self.g_fn = repo, rel, flow, field, g_fn
        self.mod = repo.module(rel)
        self.keys = ["f:" + k for k in _const_keys_of(flow.fn)]
        self.locs: List[Tuple[ast.AST, Tuple[str, ...]]] = []
        for c in calls_in(flow.fn):
            if not self.is_g(c):
                continue
            for _p, a in _bind_args(_package_targets(repo, self.mod, c)[0][1], c)[:1]:
                for root, p in object_origins(repo, rel, flow, a):
                    if p and p[-1] == "f:" + field and not any(root is r0 and p[:-1] == p0 for r0, p0 in self.locs):
                        self.locs.append((root, p[:-1]))
        self.seen: Set[Tuple[int, Tuple[str, ...]]] = set()
        self.calls: List[ast.Call] = []
        self.hits: List[Tuple[ast.AST, str]] = []

    def is_g(self, c: ast.AST) -> bool:
        if not isinstance(c, ast.Call):
            return False
        t = _package_targets(self.repo, self.mod, c)
        return len(t) == 1 and (t[0][0].rel, qualname_of(t[0][1])) == self.g_fn

    def _relation(self, root: ast.AST, rest: Tuple[str, ...]) -> Tuple[str, Tuple[str, ...]]:
        from .c04_rest import _acc_may_equal

        best: Tuple[str, Tuple[str, ...]] = ("", ())
        for r0, pre in self.locs:
            if r0 is not root:
                continue
            full = pre + ("f:" + self.field,)
            n = min(len(full), len(rest))
            if not all(_acc_may_equal(a, b) for a, b in zip(full[:n], rest[:n])):
                continue
            if len(rest) >= len(full):
                return ("field", ())
            best = ("above", full[len(rest):])
        return best

    def reach(self, e: ast.AST, path: Tuple[str, ...] = ()) -> None:
        from .c04_rest import ANY, COPY_CALLS, SEQ_REORDER

        key = (id(e), path)
        if key in self.seen or len(path) > 7:
            return
        self.seen.add(key)
        try:
            leaves = self.flow.origins(e, path)
        except AnalysisError:
            return
        for root, rest in sorted(leaves, key=lambda l: (getattr(l[0], "lineno", 0), getattr(l[0], "col_offset", 0), l[1])):
            rel, more = self._relation(root, rest)
            if rel == "field":
                self.hits.append((e, _leaf_text((root, rest))))
                continue
            if rel == "above":
                self.reach(e, path + more)  # the node mapping as a whole: what does it hold under the field *here*?
                continue
            if rest or isinstance(root, (ast.Constant, ast.Name, ast.Lambda)):
                continue
            if isinstance(root, ast.Call):
                self.calls.append(root)
                if self.is_g(root):
                    continue
                nm = call_attr(root)
                if nm in ("dict", "OrderedDict") or (isinstance(root.func, ast.Attribute) and nm == "copy") or nm == "deepcopy":
                    for k in self.keys:
                        self.reach(e, path + (k,))
                    continue
                if nm in COPY_CALLS | SEQ_REORDER:
                    self.reach(e, path + (ANY,))
                    continue
                for a in list(root.args) + [kw.value for kw in root.keywords]:
                    self.reach(a.value if isinstance(a, ast.Starred) else a, ())
                if isinstance(root.func, ast.Attribute):
                    self.reach(root.func.value, ())
                continue
            if isinstance(root, ast.Dict):
                if not root.keys:
                    continue
                for k in self.keys:
                    self.reach(e, path + (k,))
                if any(k is None or not (isinstance(k, ast.Constant) and isinstance(k.value, str)) for k in root.keys):
                    self.reach(e, path + (ANY,))
                continue
            if isinstance(root, (ast.List, ast.Tuple, ast.Set, ast.ListComp, ast.SetComp, ast.GeneratorExp, ast.DictComp)):
                self.reach(e, path + (ANY,))
                continue
            for ch in ast.iter_child_nodes(root):
                if isinstance(ch, ast.expr) and not isinstance(ch, ast.Constant):
                    self.reach(ch, ())
                elif isinstance(ch, ast.FormattedValue):
                    self.reach(ch.value, ())


def canonical_form_reads_raw(repo: Repo, field: str, g_fn: Tuple[str, str]) -> Tuple[List[Tuple[ast.AST, str]], int]:
    """(raw reads, number of hashed sinks looked at): the expressions of the canonicaliser (normal form) through which
    what a node holds under *field* reaches a hashed value - the argument of a uuid5 / hashlib call, or a returned
    structure that carries the result of such a call (the canonical spec, hashed again by compute_pipeline_id) -
    without having passed *g_fn*."""
    from .c04_rest import GRAPH

    flow = _identity_flow(repo, GRAPH, "build_canonical_spec")
    if flow is None:
        raise AnalysisError("build_canonical_spec: value-origin analysis failed (anchor of the hashed node content)")
    mod = repo.module(GRAPH)
    hits: List[Tuple[ast.AST, str]] = []
    n_sinks = 0
    for c in calls_in(flow.fn):
        if _hash_call(mod, flow.fn, c) and c.args:
            w = RawFieldReach(repo, GRAPH, flow, field, g_fn)
            if not w.locs:
                raise AnalysisError(f"build_canonical_spec: no node-level location of `{field}` behind the argument of {g_fn[1]}")
            w.reach(c.args[-1])
            n_sinks += 1
            hits += w.hits
    for ret in [n for n in walk_no_nested(flow.fn) if isinstance(n, ast.Return) and n.value is not None]:
        parts = list(ret.value.elts) if isinstance(ret.value, ast.Tuple) else [ret.value]
        for part in parts:
            w = RawFieldReach(repo, GRAPH, flow, field, g_fn)
            w.reach(part)
            if any(_hash_call(mod, flow.fn, c) for c in w.calls):  # carries an identity: the canonical spec
                n_sinks += 1
                hits += w.hits
    if not n_sinks:
        raise AnalysisError("build_canonical_spec: no hashed value found (uuid5 / hashlib call)")
    uniq: Dict[int, Tuple[ast.AST, str]] = {}
    for e, txt in hits:  # one per statement: the shortest read (the field itself rather than one of its parts)
        k = id(stmt_of(e))
        if k not in uniq or len(txt) < len(uniq[k][1]):
            uniq[k] = (e, txt)
    return sorted(uniq.values(), key=lambda h: (getattr(h[0], "lineno", 0), h[1])), n_sinks


def write_backs_absorbed(repo: Repo, R: Report, accepted: List[Tuple[str, Tuple[str, str], str, str, str]]) -> None:
    """C04-D3e: every (field, G) write-back that D3d accepted is one the canonical form cannot see."""
    from .c04_rest import GRAPH

    r = R.rule("C04-D3e-canonical-form-absorbs-write-back", "where a function that is handed the caller's node mapping stores G(<field>) back under the same field (the node factory keeps the resolved parameters in the node it was given - accepted by C04-D3d because the canonicaliser applies the same G), everything the canonicaliser hashes of that field has passed G: no value read from the node's field reaches a uuid5 / sha256 argument or the returned canonical spec except through a call of G.  Otherwise the canonical form of a node list that was inspected first (field already = G(v): build_inspection_payload, inspect-then-run in the CLI) is made of G(v), that of a fresh parse (Pipeline(cfg), pipeline_start) of v - different node uuids, pipeline id, semantic id and config id for the same configuration wherever G changes the value", 1)
    if not accepted:
        R.ok(r, GRAPH, "build_canonical_spec", "no write-back into a caller's node mapping is accepted by C04-D3d: nothing to absorb")
        return
    done: Set[Tuple[str, Tuple[str, str]]] = set()
    for field, g_fn, w_rel, w_qn, w_stmt in accepted:
        if (field, g_fn) in done:
            continue
        done.add((field, g_fn))
        hits, n_sinks = canonical_form_reads_raw(repo, field, g_fn)
        if not hits:
            R.ok(r, GRAPH, "build_canonical_spec", f"`{field}` reaches the {n_sinks} hashed value(s) only through {g_fn[1]}(..)  [write-back: {w_qn}: {w_stmt[:50]}]")
        for e, txt in hits:
            st = stmt_of(e)
            R.violation(r, GRAPH, "build_canonical_spec", norm(st)[:90],
                        f"`{norm(e)[:60]}` (= `{txt}`, the `{field}` of the node as it was handed in) reaches a hashed value without passing `{g_fn[1]}`, while `{w_qn}` ({w_rel}) stores `{g_fn[1]}({field})` back into the caller's node mapping (`{w_stmt[:60]}`): a node list that was inspected before it is canonicalised (build_inspection_payload, `semantiva inspect` / `run`) is hashed with the resolved `{field}`, a freshly parsed one (Pipeline(cfg), pipeline_start) with the declared `{field}` - the node uuid, pipeline id, semantic id and config id of the same configuration differ between inspect and run wherever `{g_fn[1]}` rewrites a value (a `model:` / resolver spec)", getattr(st, "lineno", 0))


def node_mapping_callees(repo: Repo, consumers: List[Tuple[str, str, str]], max_depth: int = 3) -> List[Tuple[str, str, str, str]]:
    """(file, function, parameter, call chain) of the package functions that receive - directly or through further
    calls - an object that is, or is still part of (no copy in between), the node list a consumer was handed."""
    out: List[Tuple[str, str, str, str]] = []
    seen: Set[Tuple[str, str, str]] = set(consumers)
    todo = [(rel, qn, p, qn, 0) for rel, qn, p in consumers]
    while todo:
        rel, qn, pname, chain, depth = todo.pop(0)
        if depth >= max_depth:
            continue
        flow = _identity_flow(repo, rel, qn)
        if flow is None or pname not in flow.params:
            continue
        mod = repo.module(rel)
        for c in calls_in(flow.fn):
            targets = _package_targets(repo, mod, c)
            if not targets:
                continue
            for tm, tf in targets:
                for p2, a in _bind_args(tf, c):
                    if isinstance(a, (ast.Constant, ast.JoinedStr, ast.Lambda, ast.Compare)):
                        continue
                    try:
                        names, _calls = flow.feeds(a)
                    except AnalysisError:
                        continue
                    if pname not in names:
                        continue
                    leaves = object_origins(repo, rel, flow, a)
                    if not any(isinstance(r, ast.Name) and r.id == pname for r, _p in leaves):
                        continue
                    key = (tm.rel, qualname_of(tf), p2)
                    if key in seen:
                        continue
                    seen.add(key)
                    ch = f"{chain} -> {qualname_of(tf)}"
                    out.append(key + (ch,))
                    todo.append(key + (ch, depth + 1))
    return out


def no_mutation_by_callees(repo: Repo, R: Report) -> List[Tuple[str, Tuple[str, str], str, str, str]]:
    """C04-D3d: ownership of the node mappings does not end at the first call.  Returns the accepted write-backs
    (field, G, file, function, statement) - the obligations of C04-D3e."""
    accepted: List[Tuple[str, Tuple[str, str], str, str, str]] = []
    r = R.rule("C04-D3d-node-config-callees-do-not-mutate", "a function that is handed - by a consumer of the node list (the inspection builder, build_canonical_spec) or further down the calls - an object that is still the caller's node mapping or part of it (no copy in between; a helper that returns its argument unchanged on some path hands the caller's object back) does not write into it: inspection constructs the nodes from the very mappings that are canonicalised afterwards (build_inspection_payload, inspect-then-Pipeline in the CLI), so a field rewritten on the way (a processor name replaced by the resolved class, a default filled in) gives the same configuration other node uuids / pipeline id / semantic id / config id after an inspection than on a fresh parse.  Only a store the canonicaliser performs itself on its own copy - the same field replaced by the same function of what that field held (parameter resolution, idempotent) - leaves the canonical form as it was", 2)
    consumers = node_config_consumers(repo)
    callees = node_mapping_callees(repo, consumers)
    if not callees:
        raise AnalysisError(f"no package function receives a node mapping from the consumers of the node list {consumers} (the inspection builder constructs nodes from them)")
    allowed = canonicaliser_normalisations(repo)
    for rel, qn, pname, chain in callees:
        flow = _identity_flow(repo, rel, qn)
        if flow is None:
            continue
        fn = flow.fn
        n_sites = 0
        for st, container in mutation_targets(fn):
            root, _keys = access_path(container)
            if root is None or root == "self":
                continue
            try:
                names, _calls = flow.feeds(container)
            except AnalysisError:
                continue
            if pname not in names:
                continue
            is_param = lambda leaf: isinstance(leaf[0], ast.Name) and leaf[0].id == pname and leaf[0].id in flow.params  # noqa: E731
            shared = sorted({_leaf_text(l) for l in object_origins(repo, rel, flow, container) if is_param(l)})
            n_sites += 1
            if not shared:
                R.ok(r, rel, qn, norm(st)[:90])
                continue
            sig = _self_normalising_store(repo, rel, flow, st, container, is_param)
            if sig is not None and sig in allowed:
                R.ok(r, rel, qn, f"{norm(st)[:70]}  [= the canonicaliser's own `{sig[0]}` <- {sig[1][1]}({sig[0]})]")
                accepted.append((sig[0], sig[1], rel, qn, norm(st)))
                continue
            R.violation(r, rel, qn, norm(st)[:90],
                        f"in-place write into `{norm(container)[:40]}`, which can be the caller's own node mapping (`{shared[0]}`, handed down {chain}; no copy on that path): the node list that was inspected is canonicalised afterwards (build_inspection_payload builds the canonical spec from the same mappings, the CLI inspects and then constructs the Pipeline), and `_canonical_node` / the node uuid see the rewritten field - the same configuration gets other node uuids, pipeline id, semantic id and config id than on a fresh parse or than pipeline_start of a Pipeline built without inspecting first", st.lineno)
        if n_sites == 0:
            R.ok(r, rel, qn, f"{qn}({pname}): no write reaches the caller's mapping")
    return accepted


# ---------------------------------------------------------------------------
# round 11: D4d - the pipeline id of pipeline_start is the hash of the canonical graph, not of an enriched one
# ---------------------------------------------------------------------------
_VALUE_ADDERS = {"append": 0, "add": 0, "appendleft": 0, "extend": 0, "extendleft": 0, "insert": 1, "setdefault": 1, "__setitem__": 1}


def _fresh_container(root: ast.AST) -> bool:
    """A container this very expression creates (literal, comprehension, shallow copy): its content is what counts."""
    from .c04_rest import MAP_COPIES, SEQ_COPIES

    if isinstance(root, (ast.Dict, ast.List, ast.Tuple, ast.Set, ast.ListComp, ast.SetComp, ast.DictComp, ast.GeneratorExp)):
        return True
    if isinstance(root, ast.Call):
        if isinstance(root.func, ast.Name) and root.func.id in MAP_COPIES | SEQ_COPIES:
            return True
        if isinstance(root.func, ast.Attribute) and root.func.attr == "copy" and not root.args and not root.keywords:
            return True
    return False


def _content_leaves(flow, e: ast.AST, use: int, depth: int = 0, path: Tuple[str, ...] = ()) -> Optional[Set[Tuple[ast.AST, Tuple[str, ...]]]]:
    """The origins of what *e* holds, looked up through the containers the function creates itself (a list of copies of
    X's elements -> the origins of the elements' fields).  None when it cannot be followed."""
    from .c04_rest import ANY

    try:
        leaves = flow._q(e, path, use, frozenset())
    except (AnalysisError, RecursionError):
        return None
    out: Set[Tuple[ast.AST, Tuple[str, ...]]] = set()
    descend = False
    for root, rest in leaves:
        if not rest and _fresh_container(root):
            if any(g.ifs for c in ast.walk(root) if isinstance(c, (ast.ListComp, ast.SetComp, ast.DictComp, ast.GeneratorExp)) for g in c.generators):
                return None  # a filtered copy is not the same content
            descend = True
        else:
            out.add((root, rest))
    if descend:
        if depth >= 4:
            return None
        sub = _content_leaves(flow, e, use, depth + 1, path + (ANY,))
        if sub is None:
            return None
        out |= {l for l in sub if not (l[0], l[1][:-1]) in out}  # (an opaque leaf re-read one level deeper says nothing new)
    return out


def _objects_reachable(flow, x: ast.AST, keys: List[str], max_depth: int = 3) -> Set[Tuple[ast.AST, Tuple[str, ...]]]:
    """The objects the value of *x* reaches (value-origin leaves, identity mode): x itself and, through the containers
    the function creates itself, what they hold - a mapping is asked field by field (the constant keys used anywhere in
    the function: a later entry of a literal replaces what a `**spread` brought under the same key, so the replaced
    object is not reached), a sequence for any element.  A leaf the function did not create (parameter, result of a
    call) stands for everything below it."""
    from .c04_rest import ANY, MAP_COPIES

    out: Set[Tuple[ast.AST, Tuple[str, ...]]] = set()
    seen: Set[Tuple[str, ...]] = set()

    def visit(path: Tuple[str, ...]) -> None:
        if path in seen:
            return
        seen.add(path)
        try:
            leaves = flow.origins(x, path)
        except (AnalysisError, RecursionError):
            return
        out.update(leaves)
        if len(path) >= max_depth:
            return
        fresh = [root for root, rest in leaves if not rest and _fresh_container(root)]
        if not fresh:
            return
        mapping_like = [r for r in fresh if isinstance(r, (ast.Dict, ast.DictComp)) or (isinstance(r, ast.Call) and (call_attr(r) in MAP_COPIES or call_attr(r) == "copy"))]
        if mapping_like:
            for k in keys:
                visit(path + (k,))
            if any(isinstance(r, ast.DictComp) or (isinstance(r, ast.Dict) and any(k is not None and not (isinstance(k, ast.Constant) and isinstance(k.value, str)) for k in r.keys)) for r in mapping_like):
                visit(path + (ANY,))
        if len(mapping_like) < len(fresh) or any(isinstance(r, ast.Call) and call_attr(r) == "copy" for r in mapping_like):
            visit(path + (ANY,))

    visit(())
    return out


def _written_values(st: ast.AST, container: ast.AST) -> Optional[List[ast.AST]]:
    """The expressions whose values the in-place write *st* puts into *container*; None for a write that removes,
    reorders or combines (del, pop, clear, sort, +=)."""
    if isinstance(st, ast.Assign):
        hit = [t for t in st.targets for el in (t.elts if isinstance(t, (ast.Tuple, ast.List)) else [t]) if isinstance(el, (ast.Subscript, ast.Attribute)) and el.value is container]
        if hit and all(isinstance(t, (ast.Subscript, ast.Attribute)) for t in hit):
            return [st.value]
    if isinstance(st, ast.AnnAssign) and st.value is not None and isinstance(st.target, (ast.Subscript, ast.Attribute)) and st.target.value is container:
        return [st.value]
    for c in ast.walk(st):
        if isinstance(c, ast.Call) and isinstance(c.func, ast.Attribute) and c.func.value is container:
            m = c.func.attr
            if m in _VALUE_ADDERS and len(c.args) == _VALUE_ADDERS[m] + 1 and not c.keywords:
                return [c.args[-1]]
            if m == "update" and not any(isinstance(a, ast.Starred) for a in c.args) and all(kw.arg for kw in c.keywords):
                return list(c.args) + [kw.value for kw in c.keywords]
    return None


def _local_spellings(mod, public_name: str) -> Set[str]:
    """The identifiers under which a module can call the public function *public_name*: the name itself (also as an
    attribute of its module) and the aliases it is imported under (cheap pre-filter; the call is then resolved)."""
    return {public_name} | {alias for alias, dotted in mod.imports.items() if dotted.split(".")[-1] == public_name}


def callers_of(repo: Repo, target: ast.AST) -> List[Tuple[str, str]]:
    """(file, function) of the package functions (outermost; private helpers are seen inlined in their normal form)
    that call *target* - found through call resolution, whatever the local spelling."""
    name = target.name  # type: ignore[attr-defined]
    out: List[Tuple[str, str]] = []
    for mod, qn, f in repo.all_functions():
        if name not in mod.source or mod.rel.startswith("semantiva/examples/") or f is target:
            continue  # (a caller has to spell the name of the function somewhere: import, alias or attribute)
        if "." in qn and not isinstance(getattr(f, "_parent", None), ast.ClassDef):
            continue  # nested functions are seen inside their owner
        spellings = _local_spellings(mod, name)
        for c in calls_in(f):
            if call_attr(c) not in spellings:
                continue
            try:
                if any(tf is target for _tm, tf in repo.resolve_call(mod, c)):
                    out.append((mod.rel, qn))
                    break
            except AnalysisError:
                continue
    return out


def pipeline_id_sinks(repo: Repo) -> List[Tuple[ast.AST, str, str]]:
    """(function, parameter, description): the function that produces the pipeline id with the parameter it hashes, and
    the package functions that hand one of their own parameters on to such a function unchanged (a wrapper method
    around the id computation): a call of any of them hashes the argument bound to that parameter."""
    from .c04_rest import PREFIX_OWNERS

    home_rel, home_fn = PREFIX_OWNERS["plid-"]
    target = repo.func(home_rel, home_fn)
    first = (target.args.posonlyargs + target.args.args)[0].arg
    sinks: List[Tuple[ast.AST, str, str]] = [(target, first, home_fn)]
    frontier = list(sinks)
    for _round in range(2):
        nxt: List[Tuple[ast.AST, str, str]] = []
        for tf, pn, desc in frontier:
            for rel, qn in callers_of(repo, tf):
                flow = _identity_flow(repo, rel, qn)
                if flow is None:
                    continue
                mod = repo.module(rel)
                for c in calls_in(flow.fn):
                    if call_attr(c) not in _local_spellings(mod, tf.name) or not any(t is tf for _tm, t in _package_targets(repo, mod, c)):
                        continue
                    x = dict(_bind_args(tf, c)).get(pn)
                    if x is None:
                        continue
                    try:
                        leaves = flow.origins(x)
                    except AnalysisError:
                        continue
                    for root, rest in leaves:
                        if isinstance(root, ast.Name) and not rest and root.id in flow.params and root.id not in ("self", "cls"):
                            f0 = repo.func(rel, qn)
                            if not any(f0 is s0 and root.id == p0 for s0, p0, _d in sinks + nxt):
                                nxt.append((f0, root.id, f"{qn} -> {desc}"))
        sinks += nxt
        frontier = nxt
    return sinks


def pipeline_id_hashes_canonical_graph(repo: Repo, R: Report) -> None:
    """C04-D4d: what compute_pipeline_id is given at run time is the canonical graph itself."""
    from .c04_rest import ANY, PREFIX_OWNERS, _acc_may_equal

    home_rel, home_fn = PREFIX_OWNERS["plid-"]
    target = repo.func(home_rel, home_fn)
    r = R.rule("C04-D4d-pipeline-id-hashes-canonical-graph", f"wherever the package computes a pipeline id ({home_fn}(X)), X is - at the moment of the call - the canonical graph as the canonicaliser made it (or as the caller handed it in), possibly copied: no in-place write that can happen before the call puts a value from elsewhere (preprocessor metadata, a resolved class, a default) into X or into an object X still shares, and none removes or reorders anything there.  Pipeline(...).canonical_spec / build_graph(cfg) hash the plain canonical graph; a pipeline_start whose id is the hash of an enriched graph gives the same configuration another pipeline id in the trace than at construction", 1)
    n_calls = 0
    sinks = pipeline_id_sinks(repo)
    todo: List[Tuple[str, str]] = []
    for tf, _pn, _desc in sinks:
        todo += [fq for fq in callers_of(repo, tf) if fq not in todo]
    for rel, qn in todo:
        flow = _identity_flow(repo, rel, qn)
        if flow is None:
            raise AnalysisError(f"{qn}: value-origin analysis failed (anchor of the pipeline id argument)")
        mod = repo.module(rel)
        sites = list(mutation_targets(flow.fn))
        sites += [(stmt_of(k), k.func.value) for k in calls_in(flow.fn) if isinstance(k.func, ast.Attribute) and k.func.attr in ("pop", "popitem")]
        keys = ["f:" + k for k in _const_keys_of(flow.fn)]
        spelt = set().union(*[_local_spellings(mod, tf.name) for tf, _pn, _d in sinks])
        for c in calls_in(flow.fn):  # (the normal form: a private wrapper of the same module may already be inlined)
            if call_attr(c) not in spelt:
                continue
            resolved = _package_targets(repo, mod, c)
            sink, sink_param = next(((tf, pn) for tf, pn, _d in sinks if any(t is tf for _tm, t in resolved)), (None, ""))
            if sink is None:
                continue
            x = dict(_bind_args(sink, c)).get(sink_param)
            if x is None:
                continue
            n_calls += 1
            uses = flow.uses_of(c)
            shared = _objects_reachable(flow, x, keys)
            graph_roots = {id(root) for root, rest in shared if not _fresh_container(root) and isinstance(root, (ast.Name, ast.Call))}
            bad = 0
            for st, container in sites:
                root, _keys = access_path(container)
                if root is None or root == "self":
                    continue
                w_nodes = flow.g.nodes_for(st)
                if not any(flow._can_precede(w, u) for w in w_nodes for u in uses):
                    continue  # the write cannot have happened when X is hashed
                try:
                    hit_objs = flow.origins(container)
                except AnalysisError:
                    continue
                # the written object is one X reaches: the same creation site, or (part of) something X holds that this
                # function did not create (the canonicaliser's result, the caller's graph: every object below it is shared)
                same = sorted(_leaf_text(lc) for lc in hit_objs for lx in shared if lc[0] is lx[0] and all(_acc_may_equal(a, b) for a, b in zip(lc[1], lx[1]))
                              and (len(lc[1]) == len(lx[1]) or (len(lc[1]) > len(lx[1]) and not _fresh_container(lx[0]))))
                if not same:
                    continue  # not an object X can reach
                vals = _written_values(st, container)
                foreign: List[str] = []
                if vals is None:
                    foreign = ["(removes / reorders / combines in place)"]
                else:
                    for v in vals:
                        for w in w_nodes:
                            leaves = _content_leaves(flow, v, w)
                            if leaves is None:
                                foreign.append(norm(v)[:40])
                                continue
                            foreign += [_leaf_text(l) for l in sorted(leaves, key=lambda l: (getattr(l[0], "lineno", 0), getattr(l[0], "col_offset", 0), l[1])) if id(l[0]) not in graph_roots]
                if not foreign:
                    continue  # builds X out of parts of the canonical graph (a copy made field by field / element by element)
                bad += 1
                R.violation(r, rel, qn, norm(st)[:90],
                            f"`{norm(c)[:60]}` hashes `{norm(x)[:30]}` after this write can have happened: `{norm(container)[:40]}` is (part of) that object (`{same[0]}`), and the write puts `{foreign[0]}` there - a value that is not taken from the canonical graph.  The pipeline id announced on pipeline_start (and carried by every SER record) is then the hash of the enriched graph, while Pipeline(cfg).canonical_spec / build_graph(cfg) / {home_fn}(build_graph(cfg)) give the hash of the canonical graph: the same configuration has two pipeline ids wherever the write applies (nodes with preprocessor metadata - parameter sweeps)", st.lineno)
            if not bad:
                R.ok(r, rel, qn, f"{norm(c)[:70]}: nothing foreign is written into the hashed graph before the call")
    if not n_calls:
        raise AnalysisError(f"no call of {home_fn} found in the package (execute() computes the pipeline id of pipeline_start)")


# ---------------------------------------------------------------------------
# round 12: D4e - the graph a caller hands to a function that hashes it is the canonicaliser's graph, not a re-encoding
# ---------------------------------------------------------------------------
TEXT_PARSERS = {"loads", "load", "safe_load", "full_load", "unsafe_load", "load_all", "safe_load_all", "literal_eval", "eval"}
VALUE_COPIES = {"dict", "list", "tuple", "OrderedDict", "copy", "deepcopy", "cast", "MappingProxyType"}


def _graph_sources(repo: Repo, mod, flow, x: ast.AST, depth: int = 0, seen: Optional[Set[int]] = None) -> List[Tuple[str, ast.AST]]:
    """Where the value of *x* comes from, structural copies (dict(), list(), .copy(), copy.deepcopy, {**x}, a pickle
    round trip) looked through: [(kind, expression)] with kind 'param' (a parameter of the function), 'attr' (an
    attribute of an object the function was handed), 'package' (what a package function returned), 'built' (a container
    written down here), 'none', 'parsed' (what a parser of text returned: json.loads, yaml.safe_load, literal_eval -
    with the rendering it was given) or 'opaque' (any other call)."""
    seen = set() if seen is None else seen
    out: List[Tuple[str, ast.AST]] = []
    if id(x) in seen or depth > 8:
        return out
    seen.add(id(x))
    try:
        leaves = flow.origins(x)
    except AnalysisError:
        return [("opaque", x)]
    for root, rest in sorted(leaves, key=lambda l: (getattr(l[0], "lineno", 0), getattr(l[0], "col_offset", 0), l[1])):
        if isinstance(root, ast.Constant):
            out.append(("none", root))
        elif isinstance(root, ast.Name):
            out.append(("param" if root.id in flow.params else "built", root))
        elif isinstance(root, ast.Attribute):
            out.append(("attr", root))
        elif isinstance(root, ast.Dict) and not rest:
            spreads = [v for k, v in zip(root.keys, root.values) if k is None]
            if not spreads:
                out.append(("built", root))
            for v in spreads:
                out += _graph_sources(repo, mod, flow, v, depth + 1, seen)
        elif isinstance(root, ast.Call):
            if rest:  # a part of what the call returned
                out.append(("package" if _package_targets(repo, mod, root) else "opaque" if (call_attr(root) or "") in TEXT_PARSERS else "built", root))
                continue
            nm = call_attr(root) or ""
            args = list(root.args) + [kw.value for kw in root.keywords]
            if _package_targets(repo, mod, root):
                out.append(("package", root))
            elif nm in VALUE_COPIES and args:
                src = root.func.value if nm == "copy" and isinstance(root.func, ast.Attribute) and not root.args and (dotted_name(root.func) or "") != "copy.copy" else args[-1] if nm == "cast" else args[0]
                out += _graph_sources(repo, mod, flow, src, depth + 1, seen)
            elif nm == "copy" and isinstance(root.func, ast.Attribute) and not args:
                out += _graph_sources(repo, mod, flow, root.func.value, depth + 1, seen)
            elif nm in TEXT_PARSERS and (dotted_name(root.func) or "").split(".")[0] in ("pickle", "cPickle", "dill", "cloudpickle") and args:
                inner = [r0 for r0, rs in flow.origins(args[0]) if not rs and isinstance(r0, ast.Call) and call_attr(r0) == "dumps" and r0.args]
                if inner:
                    for r0 in inner:
                        out += _graph_sources(repo, mod, flow, r0.args[0], depth + 1, seen)
                else:
                    out.append(("opaque", root))
            elif nm in TEXT_PARSERS:
                out.append(("parsed", root))
            elif nm in ("get", "pop", "setdefault", "getattr"):
                out.append(("attr", root))
            else:
                out.append(("opaque", root))
        else:
            out.append(("built", root))
    return out


def graph_hash_parameters(repo: Repo) -> List[Tuple[str, str, ast.AST, str]]:
    """(file, function, def, parameter): the package functions that hash (a structural copy of) one of their own
    parameters into the pipeline id - found from the calls of the function that produces the id."""
    from .c04_rest import flow_of

    out: List[Tuple[str, str, ast.AST, str]] = []
    sinks = pipeline_id_sinks(repo)
    todo: List[Tuple[str, str]] = []
    for tf0, _pn0, _d0 in sinks:
        todo += [fq for fq in callers_of(repo, tf0) if fq not in todo]
    for rel, qn in todo:
        if True:
            try:
                flow = flow_of(repo, rel, qn)
            except (AnalysisError, RecursionError):
                continue
            mod = repo.module(rel)
            f0 = repo.func(rel, qn)
            for c in calls_in(flow.fn):  # (the normal form: a private wrapper of the same module may already be inlined)
                resolved = _package_targets(repo, mod, c)
                tf, pn = next(((s0, p0) for s0, p0, _d in sinks if any(t is s0 for _tm, t in resolved)), (None, ""))
                if tf is None:
                    continue
                x = dict(_bind_args(tf, c)).get(pn)
                if x is None:
                    continue
                for kind, e in _graph_sources(repo, mod, flow, x):
                    if kind == "param" and e.id not in ("self", "cls") and not any(f0 is o[2] and e.id == o[3] for o in out) and not any(f0 is s and e.id == p for s, p, _x in sinks):
                        out.append((rel, qn, f0, e.id))
    return out


def hashed_graph_is_handed_over_as_built(repo: Repo, R: Report) -> None:
    """C04-D4e: interface between the owner of the canonical graph (Pipeline) and the function that hashes it at run
    time (the orchestrator's execute): the argument is the canonicaliser's graph or a structural copy of it."""
    from .c04_rest import flow_of

    r = R.rule("C04-D4e-hashed-graph-handed-over-as-built", "wherever the package hands a graph to a function that hashes that parameter into the pipeline id (the orchestrator's execute(canonical_spec=..)), the argument is - by value - what the canonicaliser returned / what the caller was given / what the object stored at construction, possibly through structural copies (dict(), list(), .copy(), copy.deepcopy, {**x}): never the result of parsing a text rendering of it (json.loads(json.dumps(x)), a YAML round trip, literal_eval(repr(x))).  A text round trip is not the identity on the canonical graph - mapping keys that are not strings come back as strings (2 < 10 but '10' < '2' under sort_keys), tuples as lists - so the pipeline id attached to pipeline_start would differ from compute_pipeline_id(pipeline.canonical_spec) / of a freshly built graph for the same configuration", 1)
    hashers = graph_hash_parameters(repo)
    if not hashers:
        raise AnalysisError("no package function hashes one of its parameters into the pipeline id (execute(canonical_spec=..) expected)")
    n = 0

    def judge(rel: str, qn: str, mod, flow, x: ast.AST, label: str, line: int, depth: int = 0) -> None:
        nonlocal n
        srcs = _graph_sources(repo, mod, flow, x)
        parsed = [e for k, e in srcs if k == "parsed"]
        opaque = [e for k, e in srcs if k == "opaque"]
        if opaque and not parsed:
            raise AnalysisError(f"{qn}: the graph handed to a pipeline-id hashing function comes from `{norm(opaque[0])[:60]}` - not the canonicaliser, a copy, or a parser (unknown shape)")
        n += 1
        R.check(not parsed, r, rel, qn, label,
                f"`{norm(x)[:50]}` is what `{norm(parsed[0])[:70]}` parsed out of a text rendering, not the canonical graph (or a structural copy of it): the round trip turns non-string mapping keys into strings (and tuples into lists), sort_keys then orders them differently, and the pipeline id announced on pipeline_start is no longer compute_pipeline_id of the graph the Pipeline object holds / a fresh build gives (e.g. a parameter mapping with keys 2 and 10)" if parsed else "", line)
        if parsed or depth >= 2:
            return
        # an attribute of the receiver: every value the class stores there is judged the same way
        for k, e in srcs:
            if k != "attr" or not (isinstance(e, ast.Attribute) and isinstance(e.value, ast.Name) and e.value.id in ("self", "cls")):
                continue
            cls_qn = qn.rsplit(".", 1)[0] if "." in qn else None
            cls = mod.defs.get(cls_qn) if cls_qn else None
            if not isinstance(cls, ast.ClassDef):
                continue
            for m in [b for b in cls.body if isinstance(b, FuncNode)]:
                if not any(isinstance(t, ast.Attribute) and t.attr == e.attr and isinstance(t.ctx, ast.Store) for t in ast.walk(m)):
                    continue
                mqn = f"{cls_qn}.{m.name}"
                try:
                    mflow = flow_of(repo, rel, mqn)
                except (AnalysisError, RecursionError):
                    continue
                for st in walk_no_nested(mflow.fn):
                    tg = st.targets if isinstance(st, ast.Assign) else [st.target] if isinstance(st, ast.AnnAssign) and st.value is not None else []
                    for t in tg:
                        if isinstance(t, ast.Attribute) and t.attr == e.attr and isinstance(t.value, ast.Name) and t.value.id == e.value.id:
                            judge(rel, mqn, mod, mflow, st.value, f"{norm(st)[:80]} [stored for the run-time hashing]", st.lineno, depth + 1)

    names = {f0.name for _rel, _qn, f0, _p in hashers}
    for mod, qn, f in repo.all_functions():
        if mod.rel.startswith("semantiva/examples/") or not any(nm in mod.source for nm in names):
            continue
        if "." in qn and not isinstance(getattr(f, "_parent", None), ast.ClassDef):
            continue
        hits = [c for c in calls_in(f, include_nested=True) if call_attr(c) in names]
        if not hits:
            continue
        try:
            flow = flow_of(repo, mod.rel, qn)
        except (AnalysisError, RecursionError, KeyError):
            continue
        for c in calls_in(flow.fn):
            if call_attr(c) not in names:
                continue
            resolved = _package_targets(repo, mod, c)
            if not resolved and isinstance(c.func, ast.Attribute):
                try:
                    resolved = [(tm, tf) for tm, tf in repo.resolve_call_by_name(c) if isinstance(tf, FuncNode)]
                except AnalysisError:
                    resolved = []
            for _hrel, _hqn, hf, hp in hashers:
                if not any(tf is hf or (tf.name == hf.name and hp in {a.arg for a in tf.args.posonlyargs + tf.args.args + tf.args.kwonlyargs}) for _tm, tf in resolved):
                    continue
                x = dict(_bind_args(hf, c)).get(hp)
                if x is None:
                    continue
                judge(mod.rel, qn, mod, flow, x, f"{norm(c.func)[:40]}(.. {hp}={norm(x)[:40]} ..)", c.lineno)
    if n == 0:
        raise AnalysisError("no call site in the package hands a graph to the run-time pipeline-id hashing function (Pipeline -> execute(canonical_spec=..) expected)")


def _leaf_text(leaf) -> str:
    from .c04_rest import _show_leaf

    return _show_leaf(leaf)


def no_mutation_of_hashed_input(repo: Repo, R: Report) -> None:
    """C04-D3b: execute() must not mutate the caller-owned canonical spec it hashes."""
    r = R.rule("C04-D3b-no-mutation-of-hashed-input", "no statement of execute() / build_inspection_payload() mutates an object reachable from a caller-owned identity input (canonical_spec, pipeline_spec, config); enrichment works on copies down to the mutated level", 2)
    n = check_no_mutation(repo, R, r, ORCH, EXECUTE, ["canonical_spec", "pipeline_spec"])
    n += check_no_mutation(repo, R, r, "semantiva/inspection/builder.py", "build_inspection_payload", ["config", "inspection"])
    n += check_no_mutation(repo, R, r, "semantiva/inspection/builder.py", "build_canonical_graph", ["config", "inspection"]) if repo.maybe_func("semantiva/inspection/builder.py", "build_canonical_graph") else 0
    if n == 0:
        raise AnalysisError("no enrichment site of the canonical spec found in execute()/inspection")


def run(repo: Repo, R: Report) -> None:
    R.assume(
        "yaml.safe_load resolves layout, quoting, anchors and scalar spellings to equal Python values (YAML-level equivalences are the parser's)",
        "json.dumps(sort_keys=True) is insensitive to mapping order; sha256/uuid5 are deterministic",
        "the function the canonicaliser applies to a node field before hashing it (parameter resolution) is idempotent: what a resolver returns is not text / a mapping / a list that a second pass would resolve again (C04-D3d accepts a callee storing that function's result under the same field of the caller's node)",
    )
    R.undecided("YAML-text level rewrites (decided by the YAML parser); cross-process equality beyond the absence of ambient / hash-seed dependent constructs")
    R.undecided("the repr() fallback of variable_domain_signature / _json_safe_sample for values json.dumps rejects (C04-D2b accepts a rendering that is only reached after json.dumps of the same value failed): a sequence element that is a mapping holding a non-JSON scalar (YAML date) is still rendered in key order, a YAML !!set in hash-seed order - residual of the unchanged tree, reproduced by hand")
    no_mutation_of_hashed_input(repo, R)
    no_mutation_of_node_configs(repo, R)
    write_backs_absorbed(repo, R, no_mutation_by_callees(repo, R))
    pipeline_id_hashes_canonical_graph(repo, R)
    hashed_graph_is_handed_over_as_built(repo, R)
    from . import c04_rest

    c04_rest.run(repo, R)
