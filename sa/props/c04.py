"""C04 - configuration identities are pure functions of configuration meaning.

D1 no ambient inputs in the identity slice, D2 key-order insensitivity of everything hashed,
D3 history independence (no mutation of caller-owned identity inputs, no module state),
D4 inspect and run time use the same id functions on the same fields, D5 = C12 rules.
"""
from __future__ import annotations

import ast
from typing import Dict, List, Optional, Set, Tuple, Union

from ..cfg import CFG, reaching_defs
from ..engine import (
    AnalysisError,
    FuncNode,
    Repo,
    ancestors,
    assigned_value,
    call_attr,
    call_name,
    calls_in,
    dotted_name,
    kwarg,
    norm,
    qualname_of,
    stmt_of,
    walk_no_nested,
)
from ..report import Report

ORCH = "semantiva/execution/orchestrator/orchestrator.py"
EXECUTE = "SemantivaOrchestrator.execute"

# ---------------------------------------------------------------------------
# freshness trees
# ---------------------------------------------------------------------------
SHARED = "shared"
DEEP = "deep-fresh"


class Fresh:
    def __init__(self, children: Optional[Dict[object, object]] = None, default: object = SHARED):
        self.children = children or {}
        self.default = default  # freshness of children not listed

    def child(self, key: object) -> object:
        if key in self.children:
            return self.children[key]
        if "*" in self.children:
            return self.children["*"]
        return self.default


COPY_CALLS = {"dict", "list", "copy", "set", "tuple", "sorted"}
DEEP_CALLS = {"deepcopy"}


def freshness(expr: ast.AST, env: Dict[str, object]) -> object:
    """Abstract ownership of the value of *expr*: SHARED with the caller, DEEP (fully owned), or Fresh tree."""
    if isinstance(expr, ast.Name):
        return env.get(expr.id, DEEP if expr.id not in env else env[expr.id])
    if isinstance(expr, ast.Constant):
        return DEEP
    if isinstance(expr, ast.Subscript):
        base = freshness(expr.value, env)
        if base == DEEP:
            return DEEP
        if base == SHARED:
            return SHARED
        key = expr.slice.value if isinstance(expr.slice, ast.Constant) else "*"
        return base.child(key)  # type: ignore[union-attr]
    if isinstance(expr, ast.Call):
        name = call_attr(expr)
        if name in DEEP_CALLS:
            return DEEP
        if name == "loads" and expr.args and isinstance(expr.args[0], ast.Call) and call_attr(expr.args[0]) == "dumps":
            return DEEP
        if name == "get" and isinstance(expr.func, ast.Attribute) and expr.args:
            base = freshness(expr.func.value, env)
            if base in (DEEP, SHARED):
                return base
            key = expr.args[0].value if isinstance(expr.args[0], ast.Constant) else "*"
            return base.child(key)  # type: ignore[union-attr]
        if name in COPY_CALLS:
            src = expr.args[0] if expr.args else (expr.func.value if isinstance(expr.func, ast.Attribute) else None)
            inner = freshness(src, env) if src is not None else DEEP
            if inner == DEEP:
                return DEEP
            if inner == SHARED:
                return Fresh(default=SHARED)
            return Fresh(children=dict(inner.children), default=inner.default)  # type: ignore[union-attr]
        if name == "cast" and len(expr.args) == 2:
            return freshness(expr.args[1], env)
        # result of any other call is owned by this function unless an argument is shared and it is an identity-like helper
        return DEEP
    if isinstance(expr, ast.Dict):
        children: Dict[object, object] = {}
        default: object = DEEP
        for k, v in zip(expr.keys, expr.values):
            if k is None:  # ** spread
                inner = freshness(v, env)
                if inner == SHARED:
                    default = SHARED
                elif isinstance(inner, Fresh):
                    default = SHARED if inner.default == SHARED else default
                    for kk, vv in inner.children.items():
                        children.setdefault(kk, vv)
            elif isinstance(k, ast.Constant):
                children[k.value] = freshness(v, env)
            else:
                children["*"] = freshness(v, env)
        return Fresh(children, default)
    if isinstance(expr, (ast.List, ast.Tuple)):
        kinds = [freshness(e, env) for e in expr.elts]
        worst = SHARED if SHARED in kinds else (next((k for k in kinds if isinstance(k, Fresh)), DEEP))
        return Fresh({"*": worst}, DEEP)
    if isinstance(expr, ast.ListComp) and len(expr.generators) == 1:
        gen = expr.generators[0]
        it = freshness(gen.iter, env)
        env2 = dict(env)
        elem = SHARED if it == SHARED else DEEP if it == DEEP else it.child("*")  # type: ignore[union-attr]
        for nm in [x.id for x in ast.walk(gen.target) if isinstance(x, ast.Name)]:
            env2[nm] = elem
        return Fresh({"*": freshness(expr.elt, env2)}, DEEP)
    if isinstance(expr, ast.IfExp):
        a, b = freshness(expr.body, env), freshness(expr.orelse, env)
        if SHARED in (a, b):
            return SHARED
        return a if isinstance(a, Fresh) else b
    if isinstance(expr, ast.BoolOp):
        kinds = [freshness(v, env) for v in expr.values]
        return SHARED if SHARED in kinds else kinds[0]
    return DEEP


def access_path(target: ast.AST) -> Tuple[Optional[str], List[object]]:
    """Root name and the subscript/attribute keys of an access expression."""
    keys: List[object] = []
    e = target
    while isinstance(e, (ast.Subscript, ast.Attribute)):
        if isinstance(e, ast.Subscript):
            keys.append(e.slice.value if isinstance(e.slice, ast.Constant) else "*")
        else:
            keys.append(e.attr)
        e = e.value
    if isinstance(e, ast.Call) and isinstance(e.func, ast.Attribute) and e.func.attr == "get" and e.args:
        keys.append(e.args[0].value if isinstance(e.args[0], ast.Constant) else "*")
        root, more = access_path(e.func.value)
        return root, more + list(reversed(keys))
    return (e.id if isinstance(e, ast.Name) else None), list(reversed(keys))


def mutation_targets(fn: ast.AST) -> List[Tuple[ast.AST, ast.AST]]:
    """(statement, mutated container expression) pairs in *fn* (stores, deletes, mutator calls)."""
    from ..engine import MUTATORS

    out = []
    for n in walk_no_nested(fn):
        tgts: List[ast.AST] = []
        if isinstance(n, ast.Assign):
            tgts = list(n.targets)
        elif isinstance(n, (ast.AugAssign, ast.AnnAssign)):
            tgts = [n.target]
        elif isinstance(n, ast.Delete):
            tgts = list(n.targets)
        for t in tgts:
            for el in (t.elts if isinstance(t, (ast.Tuple, ast.List)) else [t]):
                if isinstance(el, (ast.Subscript, ast.Attribute)):
                    out.append((n, el.value))
        if isinstance(n, ast.Call) and isinstance(n.func, ast.Attribute) and n.func.attr in MUTATORS and n.func.attr not in ("pop",):
            out.append((stmt_of(n), n.func.value))
    return out


def check_no_mutation(repo: Repo, R: Report, rule: str, rel: str, qualname: str, params: List[str]) -> int:
    """Every mutation in the function hits an object this call owns, never one reachable from *params*."""
    fn = repo.func(rel, qualname)
    g = CFG(fn, may_raise=lambda p: set())
    n_sites = 0
    for st, container in mutation_targets(fn):
        root, keys = access_path(container)
        if root is None or root == "self":
            continue
        uses = g.nodes_for(stmt_of(st))
        if not uses:
            continue
        # freshness of the root at this statement: worst over reaching definitions
        verdict = _root_freshness(fn, g, root, uses[0], params, 0)
        if verdict is None:
            continue  # root unrelated to the parameters
        n_sites += 1
        cur: object = verdict
        for k in keys:
            if cur in (SHARED, DEEP):
                break
            cur = cur.child(k)  # type: ignore[union-attr]
        ok = cur != SHARED
        R.check(ok, rule, rel, qualname, norm(st),
                f"in-place mutation of an object reachable from the caller-owned `{'/'.join(params)}` (path {root}{''.join('['+repr(k)+']' for k in keys)}): the next run of the same Pipeline hashes the modified spec and gets different identities", st.lineno)
    return n_sites


def _root_freshness(fn, g, root: str, use: int, params: List[str], depth: int) -> Optional[object]:
    if root in params and not reaching_defs(g, root, use):
        return SHARED
    if depth > 4:
        return SHARED
    defs = reaching_defs(g, root, use)
    if not defs:
        return SHARED if root in params else None
    related = False
    worst: object = DEEP
    for d in defs:
        a = d.ast
        val = getattr(a, "value", None)
        if d.kind == "for":
            # loop variable: element of the iterated container
            it_names = {x.id for x in ast.walk(a.iter) if isinstance(x, ast.Name)}
            val_fresh = None
            for nm in it_names:
                f = _root_freshness(fn, g, nm, d.id, params, depth + 1)
                if f is not None:
                    related = True
                    val_fresh = SHARED if f == SHARED else (f.child("*") if isinstance(f, Fresh) else DEEP)
            f = val_fresh if val_fresh is not None else DEEP
        elif val is None:
            f = DEEP
        else:
            env: Dict[str, object] = {}
            for nm in {x.id for x in ast.walk(val) if isinstance(x, ast.Name)}:
                if nm == root and isinstance(a, ast.Assign) and any(isinstance(t, ast.Name) and t.id == root for t in a.targets):
                    sub = _root_freshness(fn, g, nm, d.id, params, depth + 1)
                else:
                    sub = _root_freshness(fn, g, nm, d.id, params, depth + 1) if nm != root else None
                if sub is not None:
                    env[nm] = sub
                    related = True
                elif nm in params:
                    env[nm] = SHARED
                    related = True
            if isinstance(a, ast.Assign) and isinstance(a.targets[0], ast.Tuple):
                f = DEEP if isinstance(val, ast.Call) else freshness(val, env)
            else:
                f = freshness(val, env)
        if f == SHARED:
            worst = SHARED
        elif isinstance(f, Fresh) and worst != SHARED:
            worst = f
    if not related and root not in params:
        return None
    return worst


def no_mutation_of_hashed_input(repo: Repo, R: Report) -> None:
    """C04-D3b: execute() must not mutate the caller-owned canonical spec it hashes."""
    r = R.rule("C04-D3b-no-mutation-of-hashed-input", "no statement of execute() / build_inspection_payload() mutates an object reachable from a caller-owned identity input (canonical_spec, pipeline_spec, config); enrichment works on copies down to the mutated level", 2)
    n = check_no_mutation(repo, R, r, ORCH, EXECUTE, ["canonical_spec", "pipeline_spec"])
    n += check_no_mutation(repo, R, r, "semantiva/inspection/builder.py", "build_inspection_payload", ["config", "inspection"])
    n += check_no_mutation(repo, R, r, "semantiva/inspection/builder.py", "build_canonical_graph", ["config", "inspection"]) if repo.maybe_func("semantiva/inspection/builder.py", "build_canonical_graph") else 0
    if n == 0:
        raise AnalysisError("no enrichment site of the canonical spec found in execute()/inspection")


def run(repo: Repo, R: Report) -> None:
    R.assume(
        "yaml.safe_load resolves layout, quoting, anchors and scalar spellings to equal Python values (YAML-level equivalences are the parser's)",
        "json.dumps(sort_keys=True) is insensitive to mapping order; sha256/uuid5 are deterministic",
    )
    R.undecided("YAML-text level rewrites (decided by the YAML parser); cross-process equality beyond the absence of ambient / hash-seed dependent constructs")
    no_mutation_of_hashed_input(repo, R)
    from . import c04_rest

    c04_rest.run(repo, R)
