"""C04 - configuration identities are pure functions of configuration meaning.

D1 no ambient inputs in the identity slice (D1b: nor handed to it by the functions it calls), D2 key-order
insensitivity of everything hashed (D2b: no repr/str text of a container in a hashed value; sorts of sets are total),
D3 history independence (no mutation of caller-owned identity inputs, no module state),
D4 inspect and run time use the same id functions on the same fields, D5 = C12 rules.
"""
from __future__ import annotations

import ast
from typing import Dict, List, Optional, Set, Tuple, Union

from ..cfg import CFG, reaching_defs
from ..engine import (
    AnalysisError,
    FuncNode,
    Repo,
    ancestors,
    assigned_value,
    call_attr,
    call_name,
    calls_in,
    dotted_name,
    kwarg,
    norm,
    qualname_of,
    stmt_of,
    walk_no_nested,
)
from ..report import Report

ORCH = "semantiva/execution/orchestrator/orchestrator.py"
EXECUTE = "SemantivaOrchestrator.execute"

def access_path(target: ast.AST) -> Tuple[Optional[str], List[object]]:
    """Root name and the subscript/attribute keys of an access expression."""
    keys: List[object] = []
    e = target
    while isinstance(e, (ast.Subscript, ast.Attribute)):
        if isinstance(e, ast.Subscript):
            keys.append(e.slice.value if isinstance(e.slice, ast.Constant) else "*")
        else:
            keys.append(e.attr)
        e = e.value
    if isinstance(e, ast.Call) and isinstance(e.func, ast.Attribute) and e.func.attr == "get" and e.args:
        keys.append(e.args[0].value if isinstance(e.args[0], ast.Constant) else "*")
        root, more = access_path(e.func.value)
        return root, more + list(reversed(keys))
    return (e.id if isinstance(e, ast.Name) else None), list(reversed(keys))


def mutation_targets(fn: ast.AST) -> List[Tuple[ast.AST, ast.AST]]:
    """(statement, mutated container expression) pairs in *fn* (stores, deletes, mutator calls)."""
    from ..engine import MUTATORS

    out = []
    for n in walk_no_nested(fn):
        tgts: List[ast.AST] = []
        if isinstance(n, ast.Assign):
            tgts = list(n.targets)
        elif isinstance(n, (ast.AugAssign, ast.AnnAssign)):
            tgts = [n.target]
        elif isinstance(n, ast.Delete):
            tgts = list(n.targets)
        for t in tgts:
            for el in (t.elts if isinstance(t, (ast.Tuple, ast.List)) else [t]):
                if isinstance(el, (ast.Subscript, ast.Attribute)):
                    out.append((n, el.value))
        if isinstance(n, ast.Call) and isinstance(n.func, ast.Attribute) and n.func.attr in MUTATORS and n.func.attr not in ("pop",):
            out.append((stmt_of(n), n.func.value))
    return out


FRESH_CTORS = {"dict", "list", "set", "frozenset", "tuple", "sorted", "copy", "deepcopy", "OrderedDict", "defaultdict", "str", "int", "float", "bool", "len"}


def _aliased_through_call(flow, container: ast.AST, owned: Set[str], depth: int = 0) -> Optional[str]:
    """The mutated object can be one that a callee built around / handed back from a caller-owned argument: it is read
    out of (an attribute, element or field of) the result of a call that was given a value derived from *owned*, with no
    copy in between.  The callee may keep its argument inside what it returns (a node object keeps the parameter mapping
    of its configuration), so the object is the caller's until copied.  Returns a description, or None."""
    from .c04_rest import _show_leaf

    for root, rest in sorted(flow.origins(container), key=lambda l: (getattr(l[0], "lineno", 0), getattr(l[0], "col_offset", 0))):
        via: Optional[ast.AST] = None
        if isinstance(root, ast.Attribute):
            via = root.value
        elif isinstance(root, ast.Call) and rest:
            via = root
        if via is None:
            continue
        calls: List[ast.Call] = []
        if isinstance(via, ast.Call):
            calls = [via]
        else:
            hops = 0
            bases = [via]
            while bases and hops < 3:
                nxt: List[ast.AST] = []
                for b in bases:
                    for r2, _p2 in flow.origins(b):
                        if isinstance(r2, ast.Call):
                            calls.append(r2)
                        elif isinstance(r2, ast.Attribute) and r2 is not b:
                            nxt.append(r2.value)
                bases, hops = nxt, hops + 1
        for c in calls:
            if call_attr(c) in FRESH_CTORS:
                continue
            fed: Set[str] = set()
            for a in list(c.args) + [kw.value for kw in c.keywords]:
                fed |= flow.feeds(a)[0] & owned
            if fed:
                return f"`{_show_leaf((root, rest))}` is part of what `{norm(c)[:50]}` returned for the caller's `{sorted(fed)[0]}`"
    return None


def check_no_mutation(repo: Repo, R: Report, rule: str, rel: str, qualname: str, params: List[str], through_calls: bool = False) -> int:
    """Every in-place mutation in the function hits an object this call created, never one that is (part of) what
    the caller handed in through *params*.

    Decided on the normal form (private helpers inlined) by object origin (c04_rest.Flow, identity mode): the mutated
    container expression is traced back through locals (reaching definitions), loop / comprehension targets,
    subscripts, `.get`, conditional expressions and what was stored into the containers it is read from; a copy
    (dict(x), {**x}, list(x), x.copy(), a comprehension, a loop that appends copies) is a new object whose children
    are still the caller's, a deep copy is new at every depth, the result of any other call is owned by this call.
    The mutation is a violation when one possible origin is a parameter itself or something read out of it."""
    from .c04_rest import _show_leaf, flow_of

    flow = flow_of(repo, rel, qualname, identity=True)
    fn = flow.fn
    owned = set(params)
    n_sites = 0
    for st, container in mutation_targets(fn):
        root, _keys = access_path(container)
        if root is None or root == "self":
            continue
        names, _calls = flow.feeds(container)
        if not (names & owned):
            continue  # unrelated to the caller-owned inputs
        n_sites += 1
        shared = sorted(_show_leaf(l) for l in flow.origins(container) if isinstance(l[0], ast.Name) and l[0].id in owned and l[0].id in flow.params)
        via = _aliased_through_call(flow, container, owned) if through_calls and not shared else None
        if via is not None:
            R.check(False, rule, rel, qualname, norm(st),
                    f"in-place mutation of `{norm(container)[:50]}`, which was not copied: {via} - the callee keeps the mapping it was configured with, so this writes into the node configuration the caller still holds; canonicalising the same node list afterwards (Pipeline(...), build_canonical_spec) sees the modified parameters and yields other node uuids / ids than before the call", st.lineno)
            continue
        R.check(not shared, rule, rel, qualname, norm(st),
                f"in-place mutation of an object reachable from the caller-owned `{'/'.join(params)}` (`{norm(container)[:50]}` can be `{shared[0] if shared else ''}`): the next run of the same Pipeline hashes the modified spec and gets different identities", st.lineno)
    return n_sites


def node_config_consumers(repo: Repo) -> List[Tuple[str, str, str]]:
    """(file, function, parameter) of the package functions that are handed the node configurations next to the
    canonicaliser: in build_inspection_payload (normal form) every call that receives the very value that is also the
    argument of build_canonical_spec - and build_canonical_spec itself.  Found by value origin, not by name."""
    from .c04_rest import BUILDER, flow_of

    flow = flow_of(repo, BUILDER, "build_inspection_payload")
    mod = repo.module(BUILDER)
    canon = [c for c in calls_in(flow.fn) if call_attr(c) == "build_canonical_spec" and c.args]
    if not canon:
        raise AnalysisError("build_inspection_payload: no build_canonical_spec(<nodes>) call (anchor of the node-configuration consumers)")
    key = lambda leaves: {(id(r), p) for r, p in leaves}  # noqa: E731
    node_vals = set().union(*[key(flow.origins(c.args[0])) for c in canon])
    out: List[Tuple[str, str, str]] = []
    for c in calls_in(flow.fn):
        for tm, tf in repo.resolve_call(mod, c):
            if not isinstance(tf, FuncNode) or tm.defs.get(qualname_of(tf)) is not tf:
                continue
            pos = [a.arg for a in tf.args.posonlyargs + tf.args.args]
            bound = [(pos[i], a) for i, a in enumerate(c.args) if i < len(pos) and not isinstance(a, ast.Starred)] + [(kw.arg, kw.value) for kw in c.keywords if kw.arg]
            for pname, a in bound:
                if isinstance(a, ast.Constant):
                    continue
                if key(flow.origins(a)) & node_vals and (tm.rel, qualname_of(tf), pname) not in out:
                    out.append((tm.rel, qualname_of(tf), pname))
    return out


def no_mutation_of_node_configs(repo: Repo, R: Report) -> None:
    """C04-D3c: the consumers of the node list leave it as they found it."""
    r = R.rule("C04-D3c-node-configs-not-mutated", "no function that is handed the node configurations next to the canonicaliser (the inspection builder, build_canonical_spec) mutates in place an object that is, or may still be part of, a node mapping of its caller - also not through what a callee returned for it (a node object keeps the parameter mapping of its configuration) unless it copied first: the same node list is canonicalised afterwards (inspect-then-build in the CLI, build_inspection_payload, a second Pipeline), and its identities must not depend on whether it was inspected before", 8)
    consumers = node_config_consumers(repo)
    if len(consumers) < 2:
        raise AnalysisError(f"node-configuration consumers not found by role in build_inspection_payload (got {consumers})")
    for rel, qn, pname in consumers:
        check_no_mutation(repo, R, r, rel, qn, [pname], through_calls=True)


def no_mutation_of_hashed_input(repo: Repo, R: Report) -> None:
    """C04-D3b: execute() must not mutate the caller-owned canonical spec it hashes."""
    r = R.rule("C04-D3b-no-mutation-of-hashed-input", "no statement of execute() / build_inspection_payload() mutates an object reachable from a caller-owned identity input (canonical_spec, pipeline_spec, config); enrichment works on copies down to the mutated level", 2)
    n = check_no_mutation(repo, R, r, ORCH, EXECUTE, ["canonical_spec", "pipeline_spec"])
    n += check_no_mutation(repo, R, r, "semantiva/inspection/builder.py", "build_inspection_payload", ["config", "inspection"])
    n += check_no_mutation(repo, R, r, "semantiva/inspection/builder.py", "build_canonical_graph", ["config", "inspection"]) if repo.maybe_func("semantiva/inspection/builder.py", "build_canonical_graph") else 0
    if n == 0:
        raise AnalysisError("no enrichment site of the canonical spec found in execute()/inspection")


def run(repo: Repo, R: Report) -> None:
    R.assume(
        "yaml.safe_load resolves layout, quoting, anchors and scalar spellings to equal Python values (YAML-level equivalences are the parser's)",
        "json.dumps(sort_keys=True) is insensitive to mapping order; sha256/uuid5 are deterministic",
    )
    R.undecided("YAML-text level rewrites (decided by the YAML parser); cross-process equality beyond the absence of ambient / hash-seed dependent constructs")
    R.undecided("the repr() fallback of variable_domain_signature / _json_safe_sample for values json.dumps rejects (C04-D2b accepts a rendering that is only reached after json.dumps of the same value failed): a sequence element that is a mapping holding a non-JSON scalar (YAML date) is still rendered in key order, a YAML !!set in hash-seed order - residual of the unchanged tree, reproduced by hand")
    no_mutation_of_hashed_input(repo, R)
    no_mutation_of_node_configs(repo, R)
    from . import c04_rest

    c04_rest.run(repo, R)
