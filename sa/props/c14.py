"""C14 - in-memory transport: exactly once, in channel order.

Static lockset / protocol rules on semantiva/execution/transport/in_memory.py.
"""
from __future__ import annotations

import ast
from typing import Dict, List, Optional, Set, Tuple

from ..cfg import CFG, returns_only_through
from ..engine import (
    AnalysisError,
    FuncNode,
    Repo,
    ancestors,
    call_attr,
    call_name,
    calls_in,
    dotted_name,
    kwarg,
    norm,
    parent,
    qualname_of,
    walk_no_nested,
)
from ..report import Report

F = "semantiva/execution/transport/in_memory.py"
TRANSPORT = "InMemorySemantivaTransport"
SUBSCRIPTION = "InMemorySubscription"
SNAPSHOT_FUNCS = {"list", "tuple", "sorted", "dict"}
REMOVERS = {"pop", "popitem", "clear", "__delitem__"}
INSERTERS = {"setdefault", "update", "__setitem__", "__getitem__"}


def locks_held(node: ast.AST) -> List[str]:
    """Dotted names of context managers of every enclosing ``with`` (innermost first)."""
    out: List[str] = []
    for a in ancestors(node):
        if isinstance(a, (ast.With, ast.AsyncWith)):
            for it in a.items:
                d = dotted_name(it.context_expr)
                if d:
                    out.append(d)
        if isinstance(a, FuncNode + (ast.Lambda,)):
            break
    return out


def enclosing_with(node: ast.AST, lock: str) -> Optional[ast.With]:
    for a in ancestors(node):
        if isinstance(a, ast.With) and any(dotted_name(it.context_expr) == lock for it in a.items):
            return a
        if isinstance(a, FuncNode + (ast.Lambda,)):
            return None
    return None


def run(repo: Repo, R: Report) -> None:
    mod = repo.module(F)
    tcls = repo.cls(F, TRANSPORT)
    scls = repo.cls(F, SUBSCRIPTION)
    R.assume(
        "single C-level calls on dict/deque (d.get, list(d.items()), q.append, q.popleft) are atomic under CPython",
        "a defaultdict miss runs the Python-level factory between the failed lookup and the store (not atomic)",
        "liveness (a subscriber that exits when momentarily empty) is by design and not part of the statement",
    )
    R.undecided("actual schedules (nothing is executed); fairness / liveness")

    # ---- shared state discovered from __init__ -------------------------------
    tinit = repo.func(F, f"{TRANSPORT}.__init__")
    shared_map = None
    map_lock = None
    factory: Optional[ast.AST] = None
    for st in walk_no_nested(tinit):
        tgt = val = None
        if isinstance(st, ast.Assign) and len(st.targets) == 1:
            tgt, val = st.targets[0], st.value
        elif isinstance(st, ast.AnnAssign):
            tgt, val = st.target, st.value
        d = dotted_name(tgt) if tgt is not None else None
        if d and d.startswith("self.") and isinstance(val, ast.Call):
            if call_attr(val) == "defaultdict":
                shared_map = d[5:]
                factory = val.args[0] if val.args else None
            elif call_attr(val) in ("Lock", "RLock"):
                map_lock = d[5:]
    if shared_map is None:
        # a plain dict with explicit creation is also a legitimate design
        for st in walk_no_nested(tinit):
            if isinstance(st, (ast.Assign, ast.AnnAssign)):
                tgt = st.targets[0] if isinstance(st, ast.Assign) else st.target
                d = dotted_name(tgt)
                if d == "self._queues":
                    shared_map = "_queues"
    if shared_map is None:
        raise AnalysisError("shared channel map not found in InMemorySemantivaTransport.__init__")
    is_defaultdict = factory is not None

    # alias in the subscription: attribute assigned from the constructor parameter
    sinit = repo.func(F, f"{SUBSCRIPTION}.__init__")
    sparams = [a.arg for a in sinit.args.args]
    sub_map = None
    sub_pattern = None
    pattern_param = None
    for st in walk_no_nested(sinit):
        if isinstance(st, ast.Assign) and len(st.targets) == 1 and isinstance(st.value, ast.Name) and st.value.id in sparams:
            d = dotted_name(st.targets[0])
            if d and d.startswith("self."):
                idx = sparams.index(st.value.id)
                if idx == 1:
                    sub_map = d[5:]
                elif idx == 2:
                    sub_pattern = d[5:]
                    pattern_param = st.value.id
    if sub_map is None or sub_pattern is None:
        raise AnalysisError("InMemorySubscription.__init__: queue map / pattern attributes not recognised")

    # ---- R4 alias -------------------------------------------------------------
    r_alias = R.rule("C14-D1-alias", "every subscription is constructed on the shared channel map itself (not a copy or a per-channel view) and with the caller's pattern", 1)
    n_ctor = 0
    for qn, fn in [(q, n) for q, n in mod.defs.items() if isinstance(n, FuncNode)]:
        for c in calls_in(fn):
            if call_attr(c) == SUBSCRIPTION:
                n_ctor += 1
                a0 = c.args[0] if c.args else kwarg(c, sparams[1])
                a1 = c.args[1] if len(c.args) > 1 else kwarg(c, sparams[2])
                vals = [a0] if a0 is not None else []
                if isinstance(a0, ast.Name):
                    from ..engine import assigned_value
                    vals = assigned_value(fn, a0.id) or [a0]
                ok0 = bool(vals) and all(dotted_name(v) == f"self.{shared_map}" for v in vals)
                R.check(ok0, r_alias, F, qn, norm(c), "subscription does not see the transport's live channel map: channels created later (or the entry a publisher uses) are invisible to it", c.lineno)
                fparams = [a.arg for a in fn.args.args]
                ok1 = isinstance(a1, ast.Name) and a1.id in fparams
                R.check(ok1, r_alias, F, qn, norm(c) + " [pattern]", "subscription pattern is not the caller's channel pattern unchanged", c.lineno)
    if n_ctor == 0:
        raise AnalysisError("no construction of InMemorySubscription found")

    # ---- map access sites --------------------------------------------------------
    r_map = R.rule("C14-D1-map-lockset", "every access to the shared channel map that can insert (subscript on the defaultdict, setdefault, store) holds the map-level lock; iteration is over a snapshot; entries are never removed or replaced while a publisher may hold them", 2)
    publish_append_locks: List[List[str]] = []
    removal_sites: List[Tuple[str, ast.AST]] = []

    def map_expr(e: ast.AST, cls_name: str) -> bool:
        d = dotted_name(e)
        return d == (f"self.{shared_map}" if cls_name == TRANSPORT else f"self.{sub_map}")

    # per-class scan
    deque_bindings: List[Tuple[str, ast.AST, str, str, Optional[str]]] = []  # (qualname, func, qvar, lockvar, channelvar)
    for cls, cname in ((tcls, TRANSPORT), (scls, SUBSCRIPTION)):
        for fn in [n for n in cls.body if isinstance(n, FuncNode)]:
            qn = f"{cname}.{fn.name}"
            for n in ast.walk(fn):
                # unpacking of an entry: q, lock = M[k]
                if isinstance(n, ast.Assign) and len(n.targets) == 1 and isinstance(n.targets[0], ast.Tuple) and len(n.targets[0].elts) == 2:
                    if isinstance(n.value, ast.Subscript) and map_expr(n.value.value, cname) or (isinstance(n.value, ast.Call) and call_attr(n.value) in ("get", "setdefault") and isinstance(n.value.func, ast.Attribute) and map_expr(n.value.func.value, cname)):
                        a, b = n.targets[0].elts
                        if isinstance(a, ast.Name) and isinstance(b, ast.Name):
                            deque_bindings.append((qn, fn, a.id, b.id, None))
                if isinstance(n, (ast.For, ast.comprehension)):
                    it = n.iter
                    base = it
                    while isinstance(base, ast.Call) and call_attr(base) in SNAPSHOT_FUNCS and base.args:
                        base = base.args[0]
                    if isinstance(base, ast.Call) and call_attr(base) == "items" and isinstance(base.func, ast.Attribute) and map_expr(base.func.value, cname):
                        t = n.target
                        if isinstance(t, ast.Tuple) and len(t.elts) == 2 and isinstance(t.elts[1], ast.Tuple) and len(t.elts[1].elts) == 2:
                            k, (a, b) = t.elts[0], t.elts[1].elts
                            if isinstance(a, ast.Name) and isinstance(b, ast.Name):
                                deque_bindings.append((qn, fn, a.id, b.id, k.id if isinstance(k, ast.Name) else None))
                # classify accesses of the map
                if isinstance(n, ast.Subscript) and map_expr(n.value, cname):
                    held = locks_held(n)
                    is_store = isinstance(n.ctx, (ast.Store, ast.Del))
                    if isinstance(n.ctx, ast.Del):
                        removal_sites.append((qn, n))
                    elif is_store or is_defaultdict:
                        what = "store into" if is_store else "implicit insertion through"
                        ok = cname == TRANSPORT and map_lock is not None and f"self.{map_lock}" in held
                        R.check(ok, r_map, F, qn, norm(stmt(n)), f"{what} the shared defaultdict without the map-level lock: two first users of a channel can each create a queue and one message is lost", n.lineno)
                        if is_store:
                            removal_sites.append((qn, n))  # replacement of an entry
                    else:
                        R.ok(r_map, F, qn, norm(stmt(n)), "plain dict read", n.lineno)
                if isinstance(n, ast.Call) and isinstance(n.func, ast.Attribute) and map_expr(n.func.value, cname):
                    m = n.func.attr
                    held = locks_held(n)
                    if m in REMOVERS:
                        removal_sites.append((qn, n))
                    elif m in ("setdefault", "update", "__setitem__"):
                        ok = cname == TRANSPORT and map_lock is not None and f"self.{map_lock}" in held
                        R.check(ok, r_map, F, qn, norm(stmt(n)), "insertion into the shared channel map without the map-level lock", n.lineno)
                    elif m in ("items", "keys", "values"):
                        p = parent(n)
                        snap = isinstance(p, ast.Call) and call_attr(p) in SNAPSHOT_FUNCS and p.args and p.args[0] is n
                        under = map_lock is not None and f"self.{map_lock}" in held
                        R.check(bool(snap or under), r_map, F, qn, norm(stmt(n)), "live iteration over the shared map while publishers insert (RuntimeError: dictionary changed size during iteration kills the subscriber)", n.lineno)
                    elif m in ("get", "__contains__", "copy"):
                        R.ok(r_map, F, qn, norm(stmt(n)), "atomic read", n.lineno)
                if isinstance(n, (ast.For, ast.comprehension)) and map_expr(n.iter, cname):
                    R.violation(r_map, F, qn, norm(n) if isinstance(n, ast.For) else norm(n.iter), "live iteration over the shared map while publishers insert", getattr(n, "lineno", 0))

    # factory creates a fresh unbounded deque and a fresh lock per channel
    r_fac = R.rule("C14-D1-factory", "each channel gets its own fresh unbounded deque and its own fresh lock", 1)
    if factory is not None:
        body = factory.body if isinstance(factory, ast.Lambda) else None
        ok = False
        why = "queue factory is not a lambda returning (deque(), Lock())"
        if isinstance(body, ast.Tuple) and len(body.elts) == 2:
            dq, lk = body.elts
            ok = (
                isinstance(dq, ast.Call) and call_attr(dq) == "deque" and not dq.keywords and len(dq.args) == 0
                and isinstance(lk, ast.Call) and call_attr(lk) in ("Lock", "RLock") and not factory.args.args and not factory.args.defaults and not factory.args.kw_defaults
            )
            if isinstance(dq, ast.Call) and (kwarg(dq, "maxlen") is not None or len(dq.args) > 1):
                why = "per-channel deque is bounded (maxlen): messages beyond the bound are silently dropped"
        R.check(ok, r_fac, F, f"{TRANSPORT}.__init__", norm(factory), why, getattr(factory, "lineno", 0))
    else:
        R.note("shared map is not a defaultdict; explicit creation sites are covered by the map-lockset rule")
        R.ok(r_fac, F, f"{TRANSPORT}.__init__", "explicit creation", "no factory")

    # ---- deque protocol ---------------------------------------------------------------
    r_cons = R.rule("C14-D2-consumer", "the consumer's emptiness test and pop are one critical section under the channel's own lock, and the pop is guarded by the test", 1)
    r_fifo = R.rule("C14-D3-fifo", "producers append at one end and consumers pop from the other end of the same deque; nothing is re-queued by a consumer", 2)
    producer_ends: Set[str] = set()
    consumer_ends: Set[str] = set()
    n_pop = 0
    for qn, fn, qv, lv, kv in deque_bindings:
        for n in ast.walk(fn):
            if isinstance(n, ast.Call) and isinstance(n.func, ast.Attribute) and isinstance(n.func.value, ast.Name) and n.func.value.id == qv:
                m = n.func.attr
                held = locks_held(n)
                if m in ("append", "appendleft", "extend", "extendleft", "insert"):
                    if fn.name == "__iter__" or qn.startswith(SUBSCRIPTION):
                        R.violation(r_fifo, F, qn, norm(stmt(n)), "a consumer puts a message back into the queue (duplication / reordering)", n.lineno)
                    else:
                        producer_ends.add("right" if m in ("append", "extend") else "left" if m in ("appendleft", "extendleft") else "middle")
                        publish_append_locks.append(held)
                        R.ok(r_fifo, F, qn, norm(stmt(n)), f"producer end via {m}", n.lineno)
                elif m in ("popleft", "pop"):
                    n_pop += 1
                    consumer_ends.add("left" if m == "popleft" else "right")
                    w = enclosing_with(n, lv)
                    ok_lock = w is not None
                    guarded = False
                    if w is not None:
                        for a in ancestors(n):
                            if a is w:
                                break
                            if isinstance(a, ast.IfExp) and _mentions(a.test, qv) and _within(n, a.body):
                                guarded = True
                            if isinstance(a, (ast.If, ast.While)) and _mentions(a.test, qv) and any(_within(n, s) for s in a.body):
                                guarded = True
                            if isinstance(a, ast.Try) and any(_within(n, s) for s in a.body) and any(h.type is None or "IndexError" in ast.unparse(h.type) for h in a.handlers):
                                guarded = True
                    R.check(ok_lock, r_cons, F, qn, norm(stmt(n)), f"pop from the channel deque outside `with {lv}:` (its own lock): two consumers can both see the same head / the test and pop are not atomic", n.lineno)
                    if ok_lock:
                        R.check(guarded, r_cons, F, qn, norm(stmt(n)) + " [guarded]", "pop is not guarded by an emptiness test inside the same critical section (IndexError on a race, or test outside the lock)", n.lineno)
                elif m in ("clear", "remove", "rotate", "reverse"):
                    R.violation(r_fifo, F, qn, norm(stmt(n)), f"deque.{m}() on a channel queue loses or reorders messages", n.lineno)
            # emptiness tests on q outside its lock, when a pop exists in this function
            if isinstance(n, ast.Name) and n.id == qv and isinstance(n.ctx, ast.Load):
                p = parent(n)
                is_method_recv = isinstance(p, ast.Attribute)
                in_test = any((isinstance(a, (ast.If, ast.While, ast.IfExp)) and _within(n, a.test)) for a in ancestors(n))
                if in_test and not is_method_recv or (is_method_recv and isinstance(parent(p), ast.Call) and call_attr(parent(p)) in ("__len__", "__bool__")):
                    has_pop = any(isinstance(c, ast.Call) and isinstance(c.func, ast.Attribute) and isinstance(c.func.value, ast.Name) and c.func.value.id == qv and c.func.attr in ("pop", "popleft") for c in ast.walk(fn))
                    if has_pop:
                        R.check(enclosing_with(n, lv) is not None, r_cons, F, qn, norm(stmt(n)) + " [test]", "emptiness test on the channel deque outside its lock (check-then-act not atomic)", n.lineno)
            if isinstance(n, ast.Subscript) and isinstance(n.value, ast.Name) and n.value.id == qv and qn.startswith(SUBSCRIPTION):
                R.violation(r_fifo, F, qn, norm(stmt(n)), "consumer peeks into the deque instead of popping (a message can be delivered twice)", n.lineno)
    if n_pop == 0:
        R.violation(r_cons, F, f"{SUBSCRIPTION}.__iter__", "consumer pop", "the consumer never removes a message from the channel deque (the same message is delivered again)", 0)
    ends_ok = (producer_ends, consumer_ends) in (({"right"}, {"left"}), ({"left"}, {"right"}))
    R.check(ends_ok, r_fifo, F, f"{TRANSPORT}.publish / {SUBSCRIPTION}.__iter__", f"producer ends {sorted(producer_ends)} / consumer ends {sorted(consumer_ends)}",
            "producer and consumer do not use opposite ends of the deque: messages of one channel are not received in publication order", 0)

    # ---- entry stability --------------------------------------------------------------
    r_stab = R.rule("C14-D1-entry-stability", "a channel's (deque, lock) entry is never removed or replaced while a publisher may have fetched it and not yet appended", 1)
    if not removal_sites:
        R.ok(r_stab, F, TRANSPORT, "no removal/replacement site on the channel map", "0 sites")
    for qn, n in removal_sites:
        held = locks_held(n)
        safe = map_lock is not None and f"self.{map_lock}" in held and publish_append_locks and all(f"self.{map_lock}" in h for h in publish_append_locks)
        R.check(bool(safe), r_stab, F, qn, norm(stmt(n)), "an entry is removed/replaced while publish() holds a reference fetched earlier and appends afterwards: the message lands in an orphaned deque and is never delivered", getattr(n, "lineno", 0))

    # ---- exactly-once hand-over + routing --------------------------------------------
    it = repo.func(F, f"{SUBSCRIPTION}.__iter__")
    r_once = R.rule("C14-D2-once", "every popped message is yielded exactly once before the next pop or the end of the iteration, and only popped messages are yielded", 2)
    r_route = R.rule("C14-D3-routing", "every yield is dominated by fnmatch(<channel of the popped queue>, self.<pattern>) holding", 1)
    yields = [n for n in walk_no_nested(it) if isinstance(n, (ast.Yield, ast.YieldFrom))]
    if not yields:
        raise AnalysisError("InMemorySubscription.__iter__ has no yield")
    binding = next((b for b in deque_bindings if b[1] is it), None)
    if binding is None:
        raise AnalysisError("__iter__: (queue, lock) binding from the channel map not recognised")
    _, _, qv, lv, kv = binding
    msg_vars: Set[str] = set()
    pop_stmts: List[ast.AST] = []
    for n in walk_no_nested(it):
        if isinstance(n, ast.Assign) and len(n.targets) == 1 and isinstance(n.targets[0], ast.Name):
            pops = [c for c in ast.walk(n.value) if isinstance(c, ast.Call) and isinstance(c.func, ast.Attribute) and c.func.attr in ("pop", "popleft") and isinstance(c.func.value, ast.Name) and c.func.value.id == qv]
            if pops:
                v = n.value
                shape_ok = v is pops[0] or (isinstance(v, ast.IfExp) and v.body is pops[0] and isinstance(v.orelse, ast.Constant) and v.orelse.value is None)
                if shape_ok:
                    msg_vars.add(n.targets[0].id)
                    pop_stmts.append(n)
    for y in yields:
        v = y.value
        ok = isinstance(y, ast.Yield) and isinstance(v, ast.Name) and v.id in msg_vars
        if ok:
            # the message variable has no other definition
            others = [a for a in walk_no_nested(it) if isinstance(a, ast.Assign) and any(isinstance(t, ast.Name) and t.id == v.id for t in a.targets) and a not in pop_stmts
                      and not (isinstance(a.value, ast.Constant) and a.value.value is None)]
            ok = not others
        R.check(bool(ok), r_once, F, f"{SUBSCRIPTION}.__iter__", norm(stmt(y)), "a yielded value is not (only) the message just popped from the queue", y.lineno)

    def fold(test: ast.AST) -> Optional[bool]:
        names = {n.id for n in ast.walk(test) if isinstance(n, ast.Name)}
        if names and names <= msg_vars and not any(isinstance(n, ast.Call) for n in ast.walk(test)):
            if isinstance(test, ast.Name):
                return True
            if isinstance(test, ast.Compare) and len(test.ops) == 1 and isinstance(test.ops[0], ast.IsNot) and isinstance(test.comparators[0], ast.Constant):
                return True
            if isinstance(test, ast.UnaryOp) and isinstance(test.op, ast.Not):
                return False
            if isinstance(test, ast.Compare) and len(test.ops) == 1 and isinstance(test.ops[0], ast.Is) and isinstance(test.comparators[0], ast.Constant):
                return False
        return None

    g = CFG(it, fold=fold, may_raise=lambda part: set())
    # sinks: every (re)definition of the message variable ends the life of the popped message
    sink_ids = [n.id for n in g.nodes if n.ast is not None and n.kind == "stmt" and isinstance(n.ast, ast.Assign)
                and any(isinstance(t, ast.Name) and t.id in msg_vars for t in n.ast.targets)]
    is_yield = lambda n: n.ast is not None and n.kind == "stmt" and any(isinstance(x, ast.Yield) for x in walk_no_nested(n.ast))
    for ps in pop_stmts:
        pn = g.nodes_for(ps)
        if not pn:
            continue
        starts = [t for t, lab in g.succ[pn[0]] if lab == "n"]
        saved = {sid: g.succ[sid] for sid in sink_ids}
        for sid in sink_ids:
            g.succ[sid] = []
        try:
            cnt = g.counts(starts, is_yield, count_start=True)
        finally:
            for sid, v in saved.items():
                g.succ[sid] = v
        got = set(cnt.get(g.ret_exit, set()))
        for sid in sink_ids:
            got |= cnt.get(sid, set())
        R.check(got <= {1} and bool(got), r_once, F, f"{SUBSCRIPTION}.__iter__", norm(ps) + " -> yield",
                f"between popping a message and the next pop / end of iteration the message is yielded {sorted(got)} time(s) (0 = lost, 2 = duplicated)", ps.lineno)

    def route_atom(e: ast.AST) -> Optional[bool]:
        if isinstance(e, ast.Call) and call_attr(e) in ("fnmatch", "fnmatchcase") and len(e.args) == 2:
            a, b = e.args
            if isinstance(a, ast.Name) and a.id == kv and dotted_name(b) == f"self.{sub_pattern}":
                return True
        return None

    g2 = CFG(it, may_raise=lambda part: set())
    ynodes = [n.id for n in g2.nodes if n.ast is not None and n.kind == "stmt" and any(isinstance(x, (ast.Yield, ast.YieldFrom)) for x in walk_no_nested(n.ast))]
    pnodes = [n.id for n in g2.nodes if n.ast is not None and any(ps is n.ast for ps in pop_stmts)]
    holds, path, guards = returns_only_through(g2, route_atom, targets=ynodes + pnodes)
    R.check(holds and guards > 0, r_route, F, f"{SUBSCRIPTION}.__iter__", f"fnmatch({kv}, self.{sub_pattern}) dominates pop and yield",
            "a message can be taken from / yielded for a channel that does not match the subscription pattern", it.lineno, path)


def stmt(n: ast.AST) -> ast.AST:
    from ..engine import stmt_of
    return stmt_of(n)


def _mentions(e: ast.AST, name: str) -> bool:
    return any(isinstance(n, ast.Name) and n.id == name for n in ast.walk(e))


def _within(n: ast.AST, root: ast.AST) -> bool:
    return any(x is n for x in ast.walk(root))
