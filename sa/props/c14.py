"""C14 - in-memory transport: exactly once, in channel order.

Static lockset / protocol rules on semantiva/execution/transport/in_memory.py.
"""
from __future__ import annotations

import ast
from typing import Dict, List, Optional, Set, Tuple

from ..cfg import CFG, edges_guaranteeing, returns_only_through
from ..engine import (
    AnalysisError,
    FuncNode,
    Repo,
    ancestors,
    call_attr,
    call_name,
    calls_in,
    dotted_name,
    kwarg,
    norm,
    parent,
    qualname_of,
    walk_no_nested,
)
from ..report import Report

F = "semantiva/execution/transport/in_memory.py"
TRANSPORT = "InMemorySemantivaTransport"
SUBSCRIPTION = "InMemorySubscription"
SNAPSHOT_FUNCS = {"list", "tuple", "sorted", "dict"}
REMOVERS = {"pop", "popitem", "clear", "__delitem__"}
INSERTERS = {"setdefault", "update", "__setitem__", "__getitem__"}


def locks_held(node: ast.AST) -> List[str]:
    """Dotted names of context managers of every enclosing ``with`` (innermost first)."""
    out: List[str] = []
    for a in ancestors(node):
        if isinstance(a, (ast.With, ast.AsyncWith)):
            for it in a.items:
                d = dotted_name(it.context_expr)
                if d:
                    out.append(d)
        if isinstance(a, FuncNode + (ast.Lambda,)):
            break
    return out


def enclosing_with(node: ast.AST, lock: str) -> Optional[ast.With]:
    for a in ancestors(node):
        if isinstance(a, ast.With) and any(dotted_name(it.context_expr) == lock for it in a.items):
            return a
        if isinstance(a, FuncNode + (ast.Lambda,)):
            return None
    return None


# ---------------------------------------------------------------------------------------------------
# provenance of values taken from the shared channel map (role discovery, independent of local names)
# ---------------------------------------------------------------------------------------------------
K_MAP, K_ITEMS, K_ENTRIES, K_ENTRY, K_KEYS, K_KEY = "map", "items", "entries", "entry", "keys", "key"
PASS_THROUGH = {"list", "tuple", "sorted", "iter", "reversed"}


def is_new_entry(e: ast.AST) -> bool:
    """``(deque(...), Lock())`` - a freshly created channel entry."""
    return (
        isinstance(e, ast.Tuple) and len(e.elts) == 2
        and isinstance(e.elts[0], ast.Call) and call_attr(e.elts[0]) == "deque"
        and isinstance(e.elts[1], ast.Call) and call_attr(e.elts[1]) in ("Lock", "RLock")
    )


def fresh_entry_ok(e: ast.AST) -> Tuple[bool, str]:
    """The value is (fresh unbounded deque, fresh lock)."""
    why = "channel entry is not built as (deque(), Lock())"
    if isinstance(e, ast.Tuple) and len(e.elts) == 2:
        dq, lk = e.elts
        if isinstance(dq, ast.Call) and call_attr(dq) == "deque" and (kwarg(dq, "maxlen") is not None or len(dq.args) > 1):
            return False, "per-channel deque is bounded (maxlen): messages beyond the bound are silently dropped"
        ok = (
            isinstance(dq, ast.Call) and call_attr(dq) == "deque" and not dq.keywords and len(dq.args) == 0
            and isinstance(lk, ast.Call) and call_attr(lk) in ("Lock", "RLock")
        )
        return ok, why
    return False, why


class Prov:
    """Flow-insensitive kinds of expressions in the methods of one class:
    the live map, (key, entry) item collections, entry collections, single entries, keys.

    ``env[fn][name] = (kind, key)``; ``attr[name]`` for ``self.<name>`` containers fed with entries;
    ``helper[name]`` for methods of the class returning / yielding such values.
    ``feeds`` records the sites that put an entry into a container or hand it out of a helper
    (``.append(entry)``, ``yield entry``, comprehension elements): routing obligations move there.
    """

    def __init__(self, cls: ast.ClassDef, map_attr: str):
        self.cls = cls
        self.map_attr = map_attr
        self.methods: Dict[str, ast.AST] = {n.name: n for n in cls.body if isinstance(n, FuncNode)}
        self.env: Dict[int, Dict[str, Tuple[str, Optional[str]]]] = {id(f): {} for f in self.methods.values()}
        self.attr: Dict[str, str] = {}
        self.helper: Dict[str, str] = {}
        self.bindings: List[Tuple[ast.AST, str, str, Optional[str], ast.AST]] = []  # (fn, qvar, lockvar, keyvar, source expr)
        # container key ("attr:x" / "name:<fnid>:x" / "helper:x") -> [(fn, site node, key name)]
        self.feeds: Dict[str, List[Tuple[ast.AST, ast.AST, Optional[str], str]]] = {}
        for _ in range(6):
            before = (repr(self.env), repr(self.attr), repr(self.helper))
            for f in self.methods.values():
                self._scan(f, final=False)
            if before == (repr(self.env), repr(self.attr), repr(self.helper)):
                break
        self.feeds = {}
        for f in self.methods.values():
            self._scan(f, final=True)
        # a (queue, lock) pair handed to a helper of the class binds the helper's parameters
        self.param_bindings: Dict[Tuple[str, str], Tuple[ast.AST, ast.Call]] = {}
        for f in list(self.methods.values()):
            for c in ast.walk(f):
                if not (isinstance(c, ast.Call) and isinstance(c.func, ast.Attribute) and isinstance(c.func.value, ast.Name)
                        and c.func.value.id == "self" and c.func.attr in self.methods and self.methods[c.func.attr] is not f):
                    continue
                h = self.methods[c.func.attr]
                hp = [a.arg for a in h.args.args][1:]
                passed: Dict[str, str] = {}  # caller name -> helper parameter
                for i, a in enumerate(c.args):
                    if isinstance(a, ast.Name) and i < len(hp):
                        passed[a.id] = hp[i]
                for kw_ in c.keywords:
                    if kw_.arg and isinstance(kw_.value, ast.Name):
                        passed[kw_.value.id] = kw_.arg
                for bfn, qv, lv, _key, _src in list(self.bindings):
                    if bfn is f and qv in passed and lv in passed:
                        nb = (h, passed[qv], passed[lv], None, c)
                        if not any(b[0] is h and b[1] == nb[1] and b[2] == nb[2] for b in self.bindings):
                            self.bindings.append(nb)
                        self.param_bindings[(h.name, passed[qv])] = (f, c)

    # -- kinds --------------------------------------------------------------------------------------
    def kind(self, e: Optional[ast.AST], fn: ast.AST) -> Tuple[Optional[str], Optional[str]]:
        if e is None:
            return None, None
        if dotted_name(e) == f"self.{self.map_attr}":
            return K_MAP, None
        if isinstance(e, ast.Name):
            return self.env[id(fn)].get(e.id, (None, None))
        if isinstance(e, ast.Attribute) and isinstance(e.value, ast.Name) and e.value.id == "self":
            return self.attr.get(e.attr), None
        if isinstance(e, ast.NamedExpr):
            return self.kind(e.value, fn)
        if isinstance(e, ast.IfExp):
            a, b = self.kind(e.body, fn), self.kind(e.orelse, fn)
            return a if a[0] else b
        if isinstance(e, ast.BoolOp):
            for v in e.values:
                k = self.kind(v, fn)
                if k[0]:
                    return k
            return None, None
        if is_new_entry(e):
            return K_ENTRY, None
        if isinstance(e, ast.Subscript):
            k, key = self.kind(e.value, fn)
            if k == K_MAP:
                return K_ENTRY, _name(e.slice)
            if k in (K_ITEMS, K_ENTRIES, K_KEYS):
                if isinstance(e.slice, ast.Slice):
                    return k, None
                return {K_ENTRIES: K_ENTRY, K_KEYS: K_KEY}.get(k), None
            return None, None
        if isinstance(e, (ast.ListComp, ast.GeneratorExp, ast.SetComp)):
            k, _key = self.kind(e.elt, fn)
            return (K_ENTRIES if k == K_ENTRY else K_KEYS if k == K_KEY else None), None
        if isinstance(e, ast.Call):
            f = e.func
            if isinstance(f, ast.Attribute):
                if isinstance(f.value, ast.Name) and f.value.id == "self" and f.attr in self.methods:
                    return self.helper.get(f.attr), None
                k, _ = self.kind(f.value, fn)
                if k == K_MAP:
                    if f.attr == "items":
                        return K_ITEMS, None
                    if f.attr == "values":
                        return K_ENTRIES, None
                    if f.attr == "keys":
                        return K_KEYS, None
                    if f.attr in ("get", "setdefault", "pop", "__getitem__"):
                        return K_ENTRY, _name(e.args[0]) if e.args else None
                    if f.attr == "copy":
                        return K_MAP, None
                if k in (K_ITEMS, K_ENTRIES, K_KEYS) and f.attr == "copy":
                    return k, None
            if isinstance(f, ast.Name) and e.args:
                k, _ = self.kind(e.args[0], fn)
                if f.id in PASS_THROUGH:
                    return (K_KEYS if k == K_MAP else k if k in (K_ITEMS, K_ENTRIES, K_KEYS) else None), None
                if f.id == "dict" and k == K_MAP:
                    return K_MAP, None
        return None, None

    # -- one pass over a method ----------------------------------------------------------------------
    def _set(self, fn: ast.AST, name: str, k: Tuple[Optional[str], Optional[str]]) -> None:
        if k[0] is not None:
            self.env[id(fn)][name] = k

    def _bind_target(self, fn: ast.AST, target: ast.AST, k: Tuple[Optional[str], Optional[str]], src: ast.AST, final: bool) -> None:
        kind, key = k
        if isinstance(target, ast.Name):
            self._set(fn, target.id, k)
        elif isinstance(target, ast.Attribute) and isinstance(target.value, ast.Name) and target.value.id == "self":
            if kind in (K_ENTRIES, K_ITEMS, K_KEYS) and target.attr != self.map_attr:
                self.attr[target.attr] = kind
                if final:
                    self.feeds.setdefault(f"attr:{target.attr}", []).append((fn, src, None, "value"))
        elif isinstance(target, (ast.Tuple, ast.List)) and len(target.elts) == 2 and kind == K_ENTRY:
            a, b = target.elts
            if isinstance(a, ast.Name) and isinstance(b, ast.Name) and final:
                self.bindings.append((fn, a.id, b.id, key, src))

    def _bind_loop(self, fn: ast.AST, target: ast.AST, it: ast.AST, final: bool) -> None:
        k, _ = self.kind(it, fn)
        if k == K_ITEMS and isinstance(target, (ast.Tuple, ast.List)) and len(target.elts) == 2:
            kt, vt = target.elts
            key = kt.id if isinstance(kt, ast.Name) else None
            if key:
                self._set(fn, key, (K_KEY, None))
            self._bind_target(fn, vt, (K_ENTRY, key), it, final)
        elif k == K_ENTRIES:
            self._bind_target(fn, target, (K_ENTRY, None), it, final)
        elif k in (K_KEYS, K_MAP) and isinstance(target, ast.Name):
            self._set(fn, target.id, (K_KEY, None))

    def _container_key(self, e: ast.AST, fn: ast.AST) -> Optional[str]:
        if isinstance(e, ast.Name):
            return f"name:{id(fn)}:{e.id}"
        if isinstance(e, ast.Attribute) and isinstance(e.value, ast.Name) and e.value.id == "self" and e.attr != self.map_attr:
            return f"attr:{e.attr}"
        return None

    def _scan(self, fn: ast.AST, final: bool) -> None:
        ret_kinds: Set[str] = set()
        for n in ast.walk(fn):
            if isinstance(n, (ast.For, ast.AsyncFor, ast.comprehension)):
                self._bind_loop(fn, n.target, n.iter, final)
        for n in ast.walk(fn):
            if isinstance(n, ast.Assign):
                k = self.kind(n.value, fn)
                for t in n.targets:
                    if isinstance(t, ast.Subscript):
                        continue
                    self._bind_target(fn, t, k, n.value, final)
            elif isinstance(n, ast.AnnAssign) and n.value is not None:
                self._bind_target(fn, n.target, self.kind(n.value, fn), n.value, final)
            elif isinstance(n, ast.NamedExpr):
                self._bind_target(fn, n.target, self.kind(n.value, fn), n.value, final)
            elif isinstance(n, ast.Call) and isinstance(n.func, ast.Attribute) and n.func.attr in ("append", "add", "extend", "insert", "appendleft") and n.args:
                ck = self._container_key(n.func.value, fn)
                arg = n.args[-1]
                k, key = self.kind(arg, fn)
                # a (deque, lock) pair is itself no container of entries: q.append(msg) is not a feed
                if ck and ((k == K_ENTRY and n.func.attr != "extend") or (k == K_ENTRIES and n.func.attr == "extend")):
                    if ck.startswith("attr:"):
                        self.attr[ck[5:]] = K_ENTRIES
                    else:
                        self._set(fn, n.func.value.id, (K_ENTRIES, None))
                    if final:
                        self.feeds.setdefault(ck, []).append((fn, n if k == K_ENTRY else arg, key, "site" if k == K_ENTRY else "value"))
            elif isinstance(n, ast.Return) and n.value is not None and _owner(n) is fn:
                k, key = self.kind(n.value, fn)
                if k:
                    ret_kinds.add(k)
                    if final:
                        self.feeds.setdefault(f"helper:{fn.name}", []).append((fn, n.value, key if k == K_ENTRY else None, "entry" if k == K_ENTRY else "value"))
            elif isinstance(n, ast.Yield) and n.value is not None and _owner(n) is fn:
                k, key = self.kind(n.value, fn)
                if k == K_ENTRY:
                    ret_kinds.add(K_ENTRIES)
                    if final:
                        self.feeds.setdefault(f"helper:{fn.name}", []).append((fn, n, key, "site"))
            elif isinstance(n, ast.YieldFrom) and _owner(n) is fn:
                k, key = self.kind(n.value, fn)
                if k == K_ENTRIES:
                    ret_kinds.add(K_ENTRIES)
                    if final:
                        self.feeds.setdefault(f"helper:{fn.name}", []).append((fn, n.value, None, "value"))
        if len(ret_kinds) == 1:
            self.helper[fn.name] = next(iter(ret_kinds))

    # -- where do the entries of a collection come from ------------------------------------------------
    def origins(self, e: ast.AST, fn: ast.AST, seen: Optional[Set[str]] = None) -> List[Tuple[ast.AST, ast.AST, Optional[str], str]]:
        """Sites at which the entries reaching collection expression *e* are selected:
        (function, node, key name, how) with how in {'site', 'comp', 'unfiltered'}."""
        seen = set() if seen is None else seen
        out: List[Tuple[ast.AST, ast.AST, Optional[str], str]] = []
        if isinstance(e, ast.Call) and isinstance(e.func, ast.Name) and e.func.id in PASS_THROUGH and e.args:
            return self.origins(e.args[0], fn, seen)
        if isinstance(e, ast.Call) and isinstance(e.func, ast.Attribute) and e.func.attr == "copy":
            return self.origins(e.func.value, fn, seen)
        if isinstance(e, ast.Subscript) and isinstance(e.slice, ast.Slice):
            return self.origins(e.value, fn, seen)
        if isinstance(e, (ast.ListComp, ast.GeneratorExp, ast.SetComp)):
            _k, key = self.kind(e.elt, fn)
            return [(fn, e, key, "comp")]
        ck = None
        if isinstance(e, ast.Call) and isinstance(e.func, ast.Attribute) and isinstance(e.func.value, ast.Name) and e.func.value.id == "self" and e.func.attr in self.methods:
            ck = f"helper:{e.func.attr}"
        else:
            ck = self._container_key(e, fn)
        if ck is None or ck in seen:
            return [(fn, e, None, "unfiltered")] if ck is None else []
        seen.add(ck)
        feeds = list(self.feeds.get(ck, []))
        if isinstance(e, ast.Name):
            for v in _assigned(fn, e.id):
                if self.kind(v, fn)[0] in (K_ENTRIES, K_ITEMS):
                    out += self.origins(v, fn, seen)
        for ffn, node, key, tag in feeds:
            if tag in ("site", "entry"):
                out.append((ffn, node, key, "site"))
            else:
                out += self.origins(node, ffn, seen)
        if not out and not feeds:
            out.append((fn, e, None, "unfiltered"))
        return out


def _name(e: ast.AST) -> Optional[str]:
    return e.id if isinstance(e, ast.Name) else None


def _owner(n: ast.AST) -> Optional[ast.AST]:
    for a in ancestors(n):
        if isinstance(a, FuncNode + (ast.Lambda,)):
            return a
    return None


def _assigned(fn: ast.AST, name: str) -> List[ast.AST]:
    out: List[ast.AST] = []
    for n in ast.walk(fn):
        if isinstance(n, ast.Assign) and any(isinstance(t, ast.Name) and t.id == name for t in n.targets):
            out.append(n.value)
        elif isinstance(n, ast.AnnAssign) and isinstance(n.target, ast.Name) and n.target.id == name and n.value is not None:
            out.append(n.value)
    return out


def run(repo: Repo, R: Report) -> None:
    mod = repo.module(F)
    tcls = repo.cls(F, TRANSPORT)
    scls = repo.cls(F, SUBSCRIPTION)
    R.assume(
        "single C-level calls on dict/deque (d.get, list(d.items()), q.append, q.popleft) are atomic under CPython",
        "a defaultdict miss runs the Python-level factory between the failed lookup and the store (not atomic)",
        "liveness (a subscriber that exits when momentarily empty) is by design and not part of the statement",
    )
    R.undecided("actual schedules (nothing is executed); fairness / liveness")

    # ---- shared state discovered from __init__ -------------------------------
    tinit = repo.func(F, f"{TRANSPORT}.__init__")
    shared_map = None
    map_lock = None
    factory: Optional[ast.AST] = None
    for st in walk_no_nested(tinit):
        tgt = val = None
        if isinstance(st, ast.Assign) and len(st.targets) == 1:
            tgt, val = st.targets[0], st.value
        elif isinstance(st, ast.AnnAssign):
            tgt, val = st.target, st.value
        d = dotted_name(tgt) if tgt is not None else None
        if d and d.startswith("self.") and isinstance(val, ast.Call):
            if call_attr(val) == "defaultdict":
                shared_map = d[5:]
                factory = val.args[0] if val.args else None
            elif call_attr(val) in ("Lock", "RLock"):
                map_lock = d[5:]
    if shared_map is None:
        # a plain dict with explicit creation is also a legitimate design
        for st in walk_no_nested(tinit):
            if isinstance(st, (ast.Assign, ast.AnnAssign)):
                tgt = st.targets[0] if isinstance(st, ast.Assign) else st.target
                d = dotted_name(tgt)
                # the attribute handed to the subscriptions (role), whatever it is called
                handed = {dotted_name(c.args[0]) for m_ in tcls.body if isinstance(m_, FuncNode) for c in calls_in(m_)
                          if call_attr(c) == SUBSCRIPTION and c.args}
                for m_ in tcls.body:
                    if isinstance(m_, FuncNode):
                        for c in calls_in(m_):
                            if call_attr(c) == SUBSCRIPTION and c.args and isinstance(c.args[0], ast.Name):
                                from ..engine import assigned_value as _av
                                handed |= {dotted_name(v) for v in _av(m_, c.args[0].id)}
                if d and d.startswith("self.") and d in handed and shared_map is None:
                    shared_map = d[5:]
    if shared_map is None:
        raise AnalysisError("shared channel map not found in InMemorySemantivaTransport.__init__")
    is_defaultdict = factory is not None

    # alias in the subscription: attribute assigned from the constructor parameter
    sinit = repo.func(F, f"{SUBSCRIPTION}.__init__")
    sparams = [a.arg for a in sinit.args.args]
    sub_map = None
    sub_pattern = None
    pattern_param = None
    for st in walk_no_nested(sinit):
        if isinstance(st, ast.Assign) and len(st.targets) == 1 and isinstance(st.value, ast.Name) and st.value.id in sparams:
            d = dotted_name(st.targets[0])
            if d and d.startswith("self."):
                idx = sparams.index(st.value.id)
                if idx == 1:
                    sub_map = d[5:]
                elif idx == 2:
                    sub_pattern = d[5:]
                    pattern_param = st.value.id
    if sub_map is None or sub_pattern is None:
        raise AnalysisError("InMemorySubscription.__init__: queue map / pattern attributes not recognised")

    # ---- R4 alias -------------------------------------------------------------
    r_alias = R.rule("C14-D1-alias", "every subscription is constructed on the shared channel map itself (not a copy or a per-channel view) and with the caller's pattern", 1)
    n_ctor = 0
    for qn, fn in [(q, n) for q, n in mod.defs.items() if isinstance(n, FuncNode)]:
        for c in calls_in(fn):
            if call_attr(c) == SUBSCRIPTION:
                n_ctor += 1
                a0 = c.args[0] if c.args else kwarg(c, sparams[1])
                a1 = c.args[1] if len(c.args) > 1 else kwarg(c, sparams[2])
                vals = [a0] if a0 is not None else []
                if isinstance(a0, ast.Name):
                    from ..engine import assigned_value
                    vals = assigned_value(fn, a0.id) or [a0]
                ok0 = bool(vals) and all(dotted_name(v) == f"self.{shared_map}" for v in vals)
                R.check(ok0, r_alias, F, qn, norm(c), "subscription does not see the transport's live channel map: channels created later (or the entry a publisher uses) are invisible to it", c.lineno)
                fparams = [a.arg for a in fn.args.args]
                ok1 = isinstance(a1, ast.Name) and a1.id in fparams
                R.check(ok1, r_alias, F, qn, norm(c) + " [pattern]", "subscription pattern is not the caller's channel pattern unchanged", c.lineno)
    if n_ctor == 0:
        raise AnalysisError("no construction of InMemorySubscription found")

    # ---- map access sites --------------------------------------------------------
    r_map = R.rule("C14-D1-map-lockset", "every access to the shared channel map that can insert (subscript on the defaultdict, setdefault, store) holds the map-level lock; iteration is over a snapshot; entries are never removed or replaced while a publisher may hold them", 2)
    publish_append_locks: List[List[str]] = []
    removal_sites: List[Tuple[str, ast.AST]] = []

    prov = {TRANSPORT: Prov(tcls, shared_map), SUBSCRIPTION: Prov(scls, sub_map)}

    def map_expr(e: ast.AST, cls_name: str, fn: Optional[ast.AST] = None) -> bool:
        d = dotted_name(e)
        if d == (f"self.{shared_map}" if cls_name == TRANSPORT else f"self.{sub_map}"):
            return True
        return fn is not None and isinstance(e, ast.Name) and prov[cls_name].kind(e, fn)[0] == K_MAP

    # (queue, lock) pairs taken out of the map, found by provenance (direct, through locals, helpers, caches)
    deque_bindings: List[Tuple[str, ast.AST, str, str, Optional[str]]] = []  # (qualname, func, qvar, lockvar, channelvar)
    binding_src: Dict[Tuple[int, str], ast.AST] = {}
    for cname in (TRANSPORT, SUBSCRIPTION):
        for bfn, a, b, key, src in prov[cname].bindings:
            tup = (f"{cname}.{bfn.name}", bfn, a, b, key)
            if tup not in deque_bindings:
                deque_bindings.append(tup)
                binding_src[(id(bfn), a)] = src

    r_create = R.rule("C14-D1-create-once", "an explicit store of a new channel entry into the shared map is, inside the map lock's critical section, guarded by a test that the channel has no entry yet (check and create are one atomic step)", 0)
    creation_values: List[Tuple[str, ast.AST]] = []

    # per-class scan
    for cls, cname in ((tcls, TRANSPORT), (scls, SUBSCRIPTION)):
        for fn in [n for n in cls.body if isinstance(n, FuncNode)]:
            qn = f"{cname}.{fn.name}"
            for n in ast.walk(fn):
                # classify accesses of the map
                if isinstance(n, ast.Subscript) and map_expr(n.value, cname, fn):
                    held = locks_held(n)
                    is_store = isinstance(n.ctx, (ast.Store, ast.Del))
                    if isinstance(n.ctx, ast.Del):
                        removal_sites.append((qn, n))
                    elif is_store or is_defaultdict:
                        what = "store into" if is_store else "implicit insertion through"
                        ok = cname == TRANSPORT and map_lock is not None and f"self.{map_lock}" in held
                        R.check(ok, r_map, F, qn, norm(stmt(n)), f"{what} the shared defaultdict without the map-level lock: two first users of a channel can each create a queue and one message is lost", n.lineno)
                        if is_store:
                            st_ = stmt(n)
                            val = getattr(st_, "value", None)
                            if val is not None and is_new_entry(val):
                                creation_values.append((qn, val))
                            created = ok and _guarded_creation(n, f"self.{map_lock}", lambda e, _fn=fn, _c=cname: map_expr(e, _c, _fn))
                            R.check(created, r_create, F, qn, norm(st_) + " [create-once]",
                                    "a channel entry is stored without first testing, under the map lock, that the channel has none: two first publishers of a channel both create a queue, the second store replaces the first and the messages already appended to it are lost", n.lineno)
                            if not created:
                                removal_sites.append((qn, n))  # replacement of an entry
                    else:
                        R.ok(r_map, F, qn, norm(stmt(n)), "plain dict read", n.lineno)
                if isinstance(n, ast.Call) and isinstance(n.func, ast.Attribute) and map_expr(n.func.value, cname, fn):
                    m = n.func.attr
                    held = locks_held(n)
                    if m in REMOVERS:
                        removal_sites.append((qn, n))
                    elif m in ("setdefault", "update", "__setitem__"):
                        ok = cname == TRANSPORT and map_lock is not None and f"self.{map_lock}" in held
                        R.check(ok, r_map, F, qn, norm(stmt(n)), "insertion into the shared channel map without the map-level lock", n.lineno)
                    elif m in ("items", "keys", "values"):
                        p = parent(n)
                        snap = isinstance(p, ast.Call) and call_attr(p) in SNAPSHOT_FUNCS and p.args and p.args[0] is n
                        under = map_lock is not None and f"self.{map_lock}" in held
                        R.check(bool(snap or under), r_map, F, qn, norm(stmt(n)), "live iteration over the shared map while publishers insert (RuntimeError: dictionary changed size during iteration kills the subscriber)", n.lineno)
                    elif m in ("get", "__contains__", "copy"):
                        R.ok(r_map, F, qn, norm(stmt(n)), "atomic read", n.lineno)
                if isinstance(n, (ast.For, ast.comprehension)) and map_expr(n.iter, cname, fn):
                    R.violation(r_map, F, qn, norm(n) if isinstance(n, ast.For) else norm(n.iter), "live iteration over the shared map while publishers insert", getattr(n, "lineno", 0))

    # factory creates a fresh unbounded deque and a fresh lock per channel
    r_fac = R.rule("C14-D1-factory", "each channel gets its own fresh unbounded deque and its own fresh lock", 1)
    if factory is not None:
        body = factory.body if isinstance(factory, ast.Lambda) else None
        ok = False
        why = "queue factory is not a lambda returning (deque(), Lock())"
        if isinstance(body, ast.Tuple) and len(body.elts) == 2:
            dq, lk = body.elts
            ok = (
                isinstance(dq, ast.Call) and call_attr(dq) == "deque" and not dq.keywords and len(dq.args) == 0
                and isinstance(lk, ast.Call) and call_attr(lk) in ("Lock", "RLock") and not factory.args.args and not factory.args.defaults and not factory.args.kw_defaults
            )
            if isinstance(dq, ast.Call) and (kwarg(dq, "maxlen") is not None or len(dq.args) > 1):
                why = "per-channel deque is bounded (maxlen): messages beyond the bound are silently dropped"
        R.check(ok, r_fac, F, f"{TRANSPORT}.__init__", norm(factory), why, getattr(factory, "lineno", 0))
    elif not creation_values:
        R.note("shared map is not a defaultdict; explicit creation sites are covered by the map-lockset rule")
        R.ok(r_fac, F, f"{TRANSPORT}.__init__", "explicit creation", "no factory")
    for cqn, val in creation_values:
        okv, why = fresh_entry_ok(val)
        R.check(okv, r_fac, F, cqn, norm(val), why, getattr(val, "lineno", 0))

    # ---- deque protocol ---------------------------------------------------------------
    r_cons = R.rule("C14-D2-consumer", "the consumer's emptiness test and pop are one critical section under the channel's own lock, and the pop is guarded by the test", 1)
    r_fifo = R.rule("C14-D3-fifo", "producers append at one end and consumers pop from the other end of the same deque; nothing is re-queued by a consumer", 2)
    producer_ends: Set[str] = set()
    consumer_ends: Set[str] = set()
    n_pop = 0
    for qn, fn, qv, lv, kv in deque_bindings:
        for n in ast.walk(fn):
            if isinstance(n, ast.Call) and isinstance(n.func, ast.Attribute) and isinstance(n.func.value, ast.Name) and n.func.value.id == qv:
                m = n.func.attr
                held = locks_held(n)
                if m in ("append", "appendleft", "extend", "extendleft", "insert"):
                    if fn.name == "__iter__" or qn.startswith(SUBSCRIPTION):
                        R.violation(r_fifo, F, qn, norm(stmt(n)), "a consumer puts a message back into the queue (duplication / reordering)", n.lineno)
                    else:
                        producer_ends.add("right" if m in ("append", "extend") else "left" if m in ("appendleft", "extendleft") else "middle")
                        publish_append_locks.append(held)
                        R.ok(r_fifo, F, qn, norm(stmt(n)), f"producer end via {m}", n.lineno)
                elif m in ("popleft", "pop"):
                    n_pop += 1
                    consumer_ends.add("left" if m == "popleft" else "right")
                    w = enclosing_with(n, lv)
                    ok_lock = w is not None
                    guarded = False
                    if w is not None:
                        for a in ancestors(n):
                            if a is w:
                                break
                            if isinstance(a, ast.IfExp) and _mentions(a.test, qv) and _within(n, a.body):
                                guarded = True
                            if isinstance(a, (ast.If, ast.While)) and _mentions(a.test, qv) and any(_within(n, s) for s in a.body):
                                guarded = True
                            if isinstance(a, ast.Try) and any(_within(n, s) for s in a.body) and any(h.type is None or "IndexError" in ast.unparse(h.type) for h in a.handlers):
                                guarded = True
                    R.check(ok_lock, r_cons, F, qn, norm(stmt(n)), f"pop from the channel deque outside `with {lv}:` (its own lock): two consumers can both see the same head / the test and pop are not atomic", n.lineno)
                    if ok_lock:
                        R.check(guarded, r_cons, F, qn, norm(stmt(n)) + " [guarded]", "pop is not guarded by an emptiness test inside the same critical section (IndexError on a race, or test outside the lock)", n.lineno)
                elif m in ("clear", "remove", "rotate", "reverse"):
                    R.violation(r_fifo, F, qn, norm(stmt(n)), f"deque.{m}() on a channel queue loses or reorders messages", n.lineno)
            # emptiness tests on q outside its lock, when a pop exists in this function
            if isinstance(n, ast.Name) and n.id == qv and isinstance(n.ctx, ast.Load):
                p = parent(n)
                is_method_recv = isinstance(p, ast.Attribute)
                in_test = any((isinstance(a, (ast.If, ast.While, ast.IfExp)) and _within(n, a.test)) for a in ancestors(n))
                if in_test and not is_method_recv or (is_method_recv and isinstance(parent(p), ast.Call) and call_attr(parent(p)) in ("__len__", "__bool__")):
                    has_pop = any(isinstance(c, ast.Call) and isinstance(c.func, ast.Attribute) and isinstance(c.func.value, ast.Name) and c.func.value.id == qv and c.func.attr in ("pop", "popleft") for c in ast.walk(fn))
                    if has_pop:
                        R.check(enclosing_with(n, lv) is not None, r_cons, F, qn, norm(stmt(n)) + " [test]", "emptiness test on the channel deque outside its lock (check-then-act not atomic)", n.lineno)
            if isinstance(n, ast.Subscript) and isinstance(n.value, ast.Name) and n.value.id == qv and qn.startswith(SUBSCRIPTION):
                R.violation(r_fifo, F, qn, norm(stmt(n)), "consumer peeks into the deque instead of popping (a message can be delivered twice)", n.lineno)
    if n_pop == 0:
        R.violation(r_cons, F, f"{SUBSCRIPTION}.__iter__", "consumer pop", "the consumer never removes a message from the channel deque (the same message is delivered again)", 0)
    ends_ok = (producer_ends, consumer_ends) in (({"right"}, {"left"}), ({"left"}, {"right"}))
    R.check(ends_ok, r_fifo, F, f"{TRANSPORT}.publish / {SUBSCRIPTION}.__iter__", f"producer ends {sorted(producer_ends)} / consumer ends {sorted(consumer_ends)}",
            "producer and consumer do not use opposite ends of the deque: messages of one channel are not received in publication order", 0)

    # ---- entry stability --------------------------------------------------------------
    r_stab = R.rule("C14-D1-entry-stability", "a channel's (deque, lock) entry is never removed or replaced while a publisher may have fetched it and not yet appended", 1)
    if not removal_sites:
        R.ok(r_stab, F, TRANSPORT, "no removal/replacement site on the channel map", "0 sites")
    for qn, n in removal_sites:
        held = locks_held(n)
        safe = (map_lock is not None and f"self.{map_lock}" in held and publish_append_locks and all(f"self.{map_lock}" in h for h in publish_append_locks)
                and not prov[SUBSCRIPTION].attr)  # a subscription that caches entries keeps serving a removed one
        R.check(bool(safe), r_stab, F, qn, norm(stmt(n)), "an entry is removed/replaced while publish() holds a reference fetched earlier and appends afterwards: the message lands in an orphaned deque and is never delivered", getattr(n, "lineno", 0))

    # ---- exactly-once hand-over + routing --------------------------------------------
    it = repo.func(F, f"{SUBSCRIPTION}.__iter__")
    r_once = R.rule("C14-D2-once", "every popped message is yielded exactly once before the next pop or the end of the iteration, and only popped messages are yielded", 2)
    r_route = R.rule("C14-D3-routing", "every yield is dominated by fnmatch(<channel of the popped queue>, self.<pattern>) holding", 1)
    yields = [n for n in walk_no_nested(it) if isinstance(n, (ast.Yield, ast.YieldFrom))]
    if not yields:
        raise AnalysisError("InMemorySubscription.__iter__ has no yield")
    binding = next((b for b in deque_bindings if b[1] is it), None)
    if binding is None:
        raise AnalysisError("__iter__: (queue, lock) binding from the channel map not recognised")
    _, _, qv, lv, kv = binding
    msg_vars: Set[str] = set()
    pop_stmts: List[ast.AST] = []
    for n in walk_no_nested(it):
        if isinstance(n, ast.Assign) and len(n.targets) == 1 and isinstance(n.targets[0], ast.Name):
            pops = [c for c in ast.walk(n.value) if isinstance(c, ast.Call) and isinstance(c.func, ast.Attribute) and c.func.attr in ("pop", "popleft") and isinstance(c.func.value, ast.Name) and c.func.value.id == qv]
            if not pops and isinstance(n.value, ast.Call) and _pop_helper_call(prov[SUBSCRIPTION], n.value, qv):
                # msg = self._take(q, lock): a helper whose every result is the message it popped from q (or None)
                msg_vars.add(n.targets[0].id)
                pop_stmts.append(n)
            if pops:
                v = n.value
                shape_ok = v is pops[0] or (isinstance(v, ast.IfExp) and v.body is pops[0] and isinstance(v.orelse, ast.Constant) and v.orelse.value is None)
                if shape_ok:
                    msg_vars.add(n.targets[0].id)
                    pop_stmts.append(n)
    for y in yields:
        v = y.value
        ok = isinstance(y, ast.Yield) and isinstance(v, ast.Name) and v.id in msg_vars
        if ok:
            # the message variable has no other definition
            others = [a for a in walk_no_nested(it) if isinstance(a, ast.Assign) and any(isinstance(t, ast.Name) and t.id == v.id for t in a.targets) and a not in pop_stmts
                      and not (isinstance(a.value, ast.Constant) and a.value.value is None)]
            ok = not others
        R.check(bool(ok), r_once, F, f"{SUBSCRIPTION}.__iter__", norm(stmt(y)), "a yielded value is not (only) the message just popped from the queue", y.lineno)

    def fold(test: ast.AST) -> Optional[bool]:
        names = {n.id for n in ast.walk(test) if isinstance(n, ast.Name)}
        if names and names <= msg_vars and not any(isinstance(n, ast.Call) for n in ast.walk(test)):
            if isinstance(test, ast.Name):
                return True
            if isinstance(test, ast.Compare) and len(test.ops) == 1 and isinstance(test.ops[0], ast.IsNot) and isinstance(test.comparators[0], ast.Constant):
                return True
            if isinstance(test, ast.UnaryOp) and isinstance(test.op, ast.Not):
                return False
            if isinstance(test, ast.Compare) and len(test.ops) == 1 and isinstance(test.ops[0], ast.Is) and isinstance(test.comparators[0], ast.Constant):
                return False
        return None

    g = CFG(it, fold=fold, may_raise=lambda part: set())
    # sinks: every (re)definition of the message variable ends the life of the popped message
    sink_ids = [n.id for n in g.nodes if n.ast is not None and n.kind == "stmt" and isinstance(n.ast, ast.Assign)
                and any(isinstance(t, ast.Name) and t.id in msg_vars for t in n.ast.targets)]
    is_yield = lambda n: n.ast is not None and n.kind == "stmt" and any(isinstance(x, ast.Yield) for x in walk_no_nested(n.ast))
    for ps in pop_stmts:
        pn = g.nodes_for(ps)
        if not pn:
            continue
        starts = [t for t, lab in g.succ[pn[0]] if lab == "n"]
        saved = {sid: g.succ[sid] for sid in sink_ids}
        for sid in sink_ids:
            g.succ[sid] = []
        try:
            cnt = g.counts(starts, is_yield, count_start=True)
        finally:
            for sid, v in saved.items():
                g.succ[sid] = v
        got = set(cnt.get(g.ret_exit, set()))
        for sid in sink_ids:
            got |= cnt.get(sid, set())
        R.check(got <= {1} and bool(got), r_once, F, f"{SUBSCRIPTION}.__iter__", norm(ps) + " -> yield",
                f"between popping a message and the next pop / end of iteration the message is yielded {sorted(got)} time(s) (0 = lost, 2 = duplicated)", ps.lineno)

    def make_atom(key: Optional[str]):
        def route_atom(e: ast.AST) -> Optional[bool]:
            if key is not None and isinstance(e, ast.Call) and call_attr(e) in ("fnmatch", "fnmatchcase") and len(e.args) == 2 and not e.keywords:
                a, b = e.args
                if isinstance(a, ast.Name) and a.id == key and dotted_name(b) == f"self.{sub_pattern}":
                    return True
            return None
        return route_atom

    def routed_at(rfn: ast.AST, node: ast.AST, key: Optional[str]) -> Tuple[bool, List[str]]:
        """Statement of *node* in *rfn* is reachable only through a branch on which fnmatch(key, pattern) holds."""
        if key is None:
            return False, []
        gg = CFG(rfn, may_raise=lambda part: set())
        st_ = stmt(node)
        ids = [x.id for x in gg.nodes if x.ast is st_]
        if not ids:
            return False, []
        holds_, path_, guards_ = returns_only_through(gg, make_atom(key), targets=ids)
        return bool(holds_ and guards_ > 0), path_

    if kv is not None:
        g2 = CFG(it, may_raise=lambda part: set())
        ynodes = [n.id for n in g2.nodes if n.ast is not None and n.kind == "stmt" and any(isinstance(x, (ast.Yield, ast.YieldFrom)) for x in walk_no_nested(n.ast))]
        pnodes = [n.id for n in g2.nodes if n.ast is not None and any(ps is n.ast for ps in pop_stmts)]
        holds, path, guards = returns_only_through(g2, make_atom(kv), targets=ynodes + pnodes)
        R.check(holds and guards > 0, r_route, F, f"{SUBSCRIPTION}.__iter__", f"fnmatch({kv}, self.{sub_pattern}) dominates pop and yield",
                "a message can be taken from / yielded for a channel that does not match the subscription pattern", it.lineno, path)
    else:
        # the consumer iterates over entries selected elsewhere (helper, generator, cached list):
        # the routing obligation sits where an entry is selected
        src = binding_src.get((id(it), qv))
        sites = prov[SUBSCRIPTION].origins(src, it) if src is not None else []
        if not sites:
            R.violation(r_route, F, f"{SUBSCRIPTION}.__iter__", norm(src) if src is not None else "queue source",
                        "the consumer's queues are not selected by fnmatch(<channel>, self.<pattern>) anywhere", it.lineno)
        for sfn, node, key, how in sites:
            sqn = f"{SUBSCRIPTION}.{getattr(sfn, 'name', '?')}"
            if how == "comp":
                ok_r = key is not None and any(
                    "T" in edges_guaranteeing(cond, make_atom(key)) for gen in node.generators for cond in gen.ifs)
                path_r: List[str] = []
            elif how == "site":
                ok_r, path_r = routed_at(sfn, node, key)
            else:
                ok_r, path_r = False, []
            R.check(ok_r, r_route, F, sqn, norm(stmt(node)) + " [selects a queue for the consumer]",
                    "a channel's queue is handed to the consumer without fnmatch(<its channel>, self.<pattern>) holding: messages of channels that do not match the subscription pattern are yielded", getattr(node, "lineno", 0), path_r)

    # ---- scan completeness ------------------------------------------------------------------------------
    r_scan = R.rule("C14-D3-scan-complete", "state a subscription keeps between scans to skip channels (a progress marker used to slice or to skip the scan) is computed from the snapshot that was actually scanned, never from another read of the live map", 0)
    sp = prov[SUBSCRIPTION]
    marker_uses: Dict[str, ast.AST] = {}
    for mfn in sp.methods.values():
        for n in ast.walk(mfn):
            reads: List[ast.AST] = []
            if isinstance(n, ast.Subscript) and isinstance(n.slice, ast.Slice) and sp.kind(n.value, mfn)[0] in (K_ITEMS, K_ENTRIES, K_KEYS):
                reads = list(ast.walk(n.slice))
            elif isinstance(n, (ast.If, ast.While, ast.IfExp)) and any(sp.kind(x, mfn)[0] == K_MAP for x in ast.walk(n.test)):
                reads = list(ast.walk(n.test))
            elif isinstance(n, ast.Call) and call_attr(n) == "islice" and n.args and sp.kind(n.args[0], mfn)[0] in (K_ITEMS, K_ENTRIES, K_KEYS, K_MAP):
                reads = [x for a in n.args[1:] for x in ast.walk(a)]
            for x in reads:
                if isinstance(x, ast.Attribute) and isinstance(x.value, ast.Name) and x.value.id == "self" and x.attr not in (sub_map, sub_pattern):
                    marker_uses.setdefault(x.attr, n)
    for mfn in sp.methods.values():
        if mfn.name == "__init__":
            continue
        for n in ast.walk(mfn):
            tgts: List[ast.AST] = []
            if isinstance(n, ast.Assign):
                tgts = list(n.targets)
            elif isinstance(n, (ast.AugAssign, ast.AnnAssign)) and n.value is not None:
                tgts = [n.target]
            for t in tgts:
                if isinstance(t, ast.Attribute) and isinstance(t.value, ast.Name) and t.value.id == "self" and t.attr in marker_uses:
                    live = [x for x in ast.walk(n.value) if sp.kind(x, mfn)[0] == K_MAP]
                    R.check(not live, r_scan, F, f"{SUBSCRIPTION}.{mfn.name}", norm(n),
                            f"the scan-progress marker self.{t.attr} is taken from a fresh read of the live channel map, not from the snapshot that was scanned: a channel created between the snapshot and this read counts as scanned without ever having been matched, and its messages are never delivered to this subscription", n.lineno)


def _is_pop_of(v: ast.AST, q: str) -> bool:
    def pop(c: ast.AST) -> bool:
        return (isinstance(c, ast.Call) and isinstance(c.func, ast.Attribute) and c.func.attr in ("pop", "popleft")
                and isinstance(c.func.value, ast.Name) and c.func.value.id == q and not c.args)
    return pop(v) or (isinstance(v, ast.IfExp) and pop(v.body) and isinstance(v.orelse, ast.Constant) and v.orelse.value is None)


def _pop_helper_call(sp: "Prov", call: ast.Call, qv: str) -> bool:
    """``self.h(.., q, ..)`` where every value returned by ``h`` is the message popped from the parameter bound to q, or None."""
    f = call.func
    if not (isinstance(f, ast.Attribute) and isinstance(f.value, ast.Name) and f.value.id == "self" and f.attr in sp.methods):
        return False
    h = sp.methods[f.attr]
    hp = [a.arg for a in h.args.args][1:]
    pq = None
    for i, a in enumerate(call.args):
        if isinstance(a, ast.Name) and a.id == qv and i < len(hp):
            pq = hp[i]
    for k in call.keywords:
        if isinstance(k.value, ast.Name) and k.value.id == qv:
            pq = k.arg
    if pq is None or any(isinstance(x, (ast.Yield, ast.YieldFrom)) for x in ast.walk(h)):
        return False
    rets = [r for r in ast.walk(h) if isinstance(r, ast.Return)]
    n_pops = 0
    for r in rets:
        v = r.value
        if v is None or (isinstance(v, ast.Constant) and v.value is None):
            continue
        if _is_pop_of(v, pq):
            n_pops += 1
            continue
        if isinstance(v, ast.Name):
            defs = _assigned(h, v.id)
            if defs and all(_is_pop_of(d, pq) or (isinstance(d, ast.Constant) and d.value is None) for d in defs) and any(_is_pop_of(d, pq) for d in defs):
                n_pops += 1
                continue
        return False
    return n_pops > 0


def _guarded_creation(sub: ast.Subscript, lock: str, is_map) -> bool:
    """The store ``M[k] = ...`` lies, within ``with <lock>:``, on a branch on which ``k`` is known to have no entry."""
    w = enclosing_with(sub, lock)
    if w is None:
        return False
    key = ast.dump(sub.slice)
    st_ = stmt(sub)

    def lookup(e: ast.AST) -> bool:
        if isinstance(e, ast.NamedExpr):
            e = e.value
        return (isinstance(e, ast.Call) and isinstance(e.func, ast.Attribute) and e.func.attr == "get" and is_map(e.func.value)
                and len(e.args) in (1, 2) and ast.dump(e.args[0]) == key
                and (len(e.args) == 1 or (isinstance(e.args[1], ast.Constant) and e.args[1].value is None)))

    def fresh(name: str, before: ast.AST) -> bool:
        """every assignment of *name* inside the critical section before *before* is a lookup of the key (at least one)."""
        defs = []
        for a in ast.walk(w):
            if isinstance(a, ast.Assign):
                names = [t.id for t in a.targets if isinstance(t, ast.Name)]
            elif isinstance(a, ast.NamedExpr) and isinstance(a.target, ast.Name):
                names = [a.target.id]
            else:
                continue
            inside_branches = isinstance(before, ast.If) and any(_within(a, s_) for s_ in before.body + before.orelse)
            if name in names and getattr(a, "lineno", 0) <= getattr(before, "end_lineno", getattr(before, "lineno", 0)) and not inside_branches:
                defs.append(a)
        return bool(defs) and all(lookup(a.value) for a in defs)

    def mk_atom(at: ast.AST):
        def is_val(e: ast.AST) -> bool:
            return lookup(e) or (isinstance(e, ast.Name) and fresh(e.id, at))

        def atom(e: ast.AST) -> Optional[bool]:
            if isinstance(e, ast.Compare) and len(e.ops) == 1:
                op, l, r = e.ops[0], e.left, e.comparators[0]
                if isinstance(op, (ast.In, ast.NotIn)) and ast.dump(l) == key and is_map(r):
                    return isinstance(op, ast.NotIn)
                if isinstance(r, ast.Constant) and r.value is None and is_val(l):
                    if isinstance(op, (ast.Is, ast.Eq)):
                        return True
                    if isinstance(op, (ast.IsNot, ast.NotEq)):
                        return False
            if is_val(e):
                return False  # an entry is a non-empty tuple: truthy <=> present
            return None
        return atom

    cur: ast.AST = st_
    for a in ancestors(st_):
        if a is w:
            break
        if isinstance(a, ast.If):
            g = edges_guaranteeing(a.test, mk_atom(a))
            if ("T" in g and any(_within(st_, s) for s in a.body)) or ("F" in g and any(_within(st_, s) for s in a.orelse)):
                return True
        if isinstance(a, ast.ExceptHandler) and a.type is not None and "KeyError" in ast.unparse(a.type):
            t = parent(a)
            if isinstance(t, ast.Try) and any(isinstance(x, ast.Subscript) and isinstance(x.ctx, ast.Load) and is_map(x.value) and ast.dump(x.slice) == key for s in t.body for x in ast.walk(s)):
                return True
        cur = a
    return False


def stmt(n: ast.AST) -> ast.AST:
    from ..engine import stmt_of
    return stmt_of(n)


def _mentions(e: ast.AST, name: str) -> bool:
    return any(isinstance(n, ast.Name) and n.id == name for n in ast.walk(e))


def _within(n: ast.AST, root: ast.AST) -> bool:
    return any(x is n for x in ast.walk(root))
