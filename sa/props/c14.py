"""C14 - in-memory transport: exactly once, in channel order.

Static lockset / protocol rules on semantiva/execution/transport/in_memory.py.
"""
from __future__ import annotations

import ast
import re
from typing import Dict, List, Optional, Set, Tuple

from ..cfg import CFG, edges_guaranteeing, reaching_defs, returns_only_through
from ..engine import (
    AnalysisError,
    FuncNode,
    Repo,
    ancestors,
    call_attr,
    call_name,
    calls_in,
    dotted_name,
    kwarg,
    norm,
    parent,
    qualname_of,
    walk_no_nested,
)
from ..normal import nfunc
from ..report import Report

F = "semantiva/execution/transport/in_memory.py"
TRANSPORT = "InMemorySemantivaTransport"
SUBSCRIPTION = "InMemorySubscription"
SNAPSHOT_FUNCS = {"list", "tuple", "sorted", "dict"}
REMOVERS = {"pop", "popitem", "clear", "__delitem__"}
INSERTERS = {"setdefault", "update", "__setitem__", "__getitem__"}
STD_MATCHERS = ("fnmatch.fnmatch", "fnmatch.fnmatchcase")
# local spellings of the matcher in the analysed module: the two standard names plus every alias the module
# imports them under (``from fnmatch import fnmatch as matches``); filled per run, checked by C14-D3-pattern-identity
_MATCHERS: Set[str] = {"fnmatch", "fnmatchcase"}


def is_match_call(e: ast.AST) -> bool:
    return isinstance(e, ast.Call) and call_attr(e) in _MATCHERS


def _lock_names(e: ast.AST) -> List[str]:
    """Dotted name of a context-manager expression and, for a local bound once to a lock expression
    (``guard = self._lock``), what it names."""
    d = dotted_name(e)
    out = [d] if d else []
    if isinstance(e, ast.Name):
        fn = next((a for a in ancestors(e) if isinstance(a, FuncNode + (ast.Lambda,))), None)
        if fn is not None and not isinstance(fn, ast.Lambda):
            stores = [x for x in ast.walk(fn) if isinstance(x, ast.Name) and x.id == e.id and isinstance(x.ctx, ast.Store)]
            vals = [n.value for n in ast.walk(fn) if isinstance(n, ast.Assign) and len(n.targets) == 1 and isinstance(n.targets[0], ast.Name) and n.targets[0].id == e.id]
            if len(stores) == 1 and len(vals) == 1 and e.id not in {a.arg for a in fn.args.args}:
                d2 = dotted_name(vals[0])
                # the lock expression read is itself stable: an attribute of self, or a local bound once
                if d2 and d2 != e.id and (d2.startswith("self.") or sum(1 for x in ast.walk(fn) if isinstance(x, ast.Name) and x.id == d2 and isinstance(x.ctx, ast.Store)) == 1):
                    out.append(d2)
    return out


def _lock_method_call(st: ast.AST, method: str) -> Optional[ast.AST]:
    """Receiver of the expression statement ``<lock>.<method>()`` (a blocking acquire / a release), else None."""
    if not (isinstance(st, ast.Expr) and isinstance(st.value, ast.Call) and isinstance(st.value.func, ast.Attribute) and st.value.func.attr == method):
        return None
    c = st.value
    if method == "release" and (c.args or c.keywords):
        return None
    if method == "acquire":
        # acquire() / acquire(True) / acquire(blocking=True): returns only with the lock held
        if len(c.args) > 1 or any(k.arg != "blocking" for k in c.keywords):
            return None
        flags = list(c.args) + [k.value for k in c.keywords]
        if any(not (isinstance(x, ast.Constant) and x.value is True) for x in flags):
            return None
    return c.func.value


def _siblings(st: ast.AST) -> List[ast.AST]:
    p = parent(st)
    if p is None:
        return []
    for _f, v in ast.iter_fields(p):
        if isinstance(v, list) and any(x is st for x in v):
            return v
    return []


def _try_locks(t: ast.AST) -> List[str]:
    """Locks held throughout the body of ``<lock>.acquire(); try: ... finally: <lock>.release()``: the statement right
    before the ``try`` is the blocking acquire and the ``finally`` releases the same lock (the explicit spelling of
    ``with <lock>:``)."""
    if not isinstance(t, ast.Try) or not t.finalbody:
        return []
    sibs = _siblings(t)
    i = next((k for k, x in enumerate(sibs) if x is t), 0)
    if i == 0:
        return []
    acq = _lock_method_call(sibs[i - 1], "acquire")
    if acq is None:
        return []
    names = _lock_names(acq)
    for st in t.finalbody:
        rel = _lock_method_call(st, "release")
        if rel is not None and set(_lock_names(rel)) & set(names):
            return names
    return []


def _in_final(node: ast.AST, t: ast.Try) -> bool:
    return any(x is node for s in t.finalbody for x in ast.walk(s))


def locks_held(node: ast.AST) -> List[str]:
    """Dotted names of context managers of every enclosing ``with`` (innermost first); an enclosing
    ``acquire(); try: ... finally: release()`` counts as the ``with`` it spells out."""
    out: List[str] = []
    for a in ancestors(node):
        if isinstance(a, (ast.With, ast.AsyncWith)):
            for it in a.items:
                out.extend(_lock_names(it.context_expr))
        if isinstance(a, ast.Try) and not _in_final(node, a):
            out.extend(_try_locks(a))
        if isinstance(a, FuncNode + (ast.Lambda,)):
            break
    return out


def enclosing_with(node: ast.AST, lock: str) -> Optional[ast.AST]:
    for a in ancestors(node):
        if isinstance(a, ast.With) and any(lock in _lock_names(it.context_expr) for it in a.items):
            return a
        if isinstance(a, ast.Try) and not _in_final(node, a) and lock in _try_locks(a):
            return a
        if isinstance(a, FuncNode + (ast.Lambda,)):
            return None
    return None


# ---------------------------------------------------------------------------------------------------
# provenance of values taken from the shared channel map (role discovery, independent of local names)
# ---------------------------------------------------------------------------------------------------
K_MAP, K_ITEMS, K_ENTRIES, K_ENTRY, K_KEYS, K_KEY = "map", "items", "entries", "entry", "keys", "key"
K_ITEM = "item"  # one (channel, entry) pair of the map's items
PASS_THROUGH = {"list", "tuple", "sorted", "iter", "reversed"}


def is_new_entry(e: ast.AST) -> bool:
    """``(deque(...), Lock())`` - a freshly created channel entry."""
    return (
        isinstance(e, ast.Tuple) and len(e.elts) == 2
        and isinstance(e.elts[0], ast.Call) and call_attr(e.elts[0]) == "deque"
        and isinstance(e.elts[1], ast.Call) and call_attr(e.elts[1]) in ("Lock", "RLock")
    )


def fresh_entry_ok(e: ast.AST) -> Tuple[bool, str]:
    """The value is (fresh unbounded deque, fresh lock)."""
    why = "channel entry is not built as (deque(), Lock())"
    if isinstance(e, ast.Tuple) and len(e.elts) == 2:
        dq, lk = e.elts
        if isinstance(dq, ast.Call) and call_attr(dq) == "deque" and (kwarg(dq, "maxlen") is not None or len(dq.args) > 1):
            return False, "per-channel deque is bounded (maxlen): messages beyond the bound are silently dropped"
        ok = (
            isinstance(dq, ast.Call) and call_attr(dq) == "deque" and not dq.keywords and len(dq.args) == 0
            and isinstance(lk, ast.Call) and call_attr(lk) in ("Lock", "RLock")
        )
        return ok, why
    return False, why


class Prov:
    """Flow-insensitive kinds of expressions in the methods of one class:
    the live map, (key, entry) item collections, entry collections, single entries, keys.

    ``env[fn][name] = (kind, key)``; ``attr[name]`` for ``self.<name>`` containers fed with entries;
    ``helper[name]`` for methods of the class returning / yielding such values.
    ``feeds`` records the sites that put an entry into a container or hand it out of a helper
    (``.append(entry)``, ``yield entry``, comprehension elements): routing obligations move there.
    """

    def __init__(self, cls: ast.ClassDef, map_attr: str, methods: Optional[Dict[str, ast.AST]] = None,
                 seed: Optional[Dict[str, Dict[str, str]]] = None):
        self.cls = cls
        self.map_attr = map_attr
        self.methods: Dict[str, ast.AST] = dict(methods) if methods is not None else {n.name: n for n in cls.body if isinstance(n, FuncNode)}
        self.env: Dict[int, Dict[str, Tuple[str, Optional[str]]]] = {id(f): {} for f in self.methods.values()}
        # kinds known from outside: {method: {parameter: kind}} (the constructor's map parameter is the live map)
        for mname, kinds in (seed or {}).items():
            if mname in self.methods:
                for pn_, k_ in kinds.items():
                    self.env[id(self.methods[mname])][pn_] = (k_, None)
        self.attr: Dict[str, str] = {}
        self.helper: Dict[str, str] = {}
        self.bindings: List[Tuple[ast.AST, str, str, Optional[str], ast.AST]] = []  # (fn, qvar, lockvar, keyvar, source expr)
        # container key ("attr:x" / "name:<fnid>:x" / "helper:x") -> [(fn, site node, key name)]
        self.feeds: Dict[str, List[Tuple[ast.AST, ast.AST, Optional[str], str]]] = {}
        for _ in range(6):
            before = (repr(self.env), repr(self.attr), repr(self.helper))
            for f in self.methods.values():
                self._scan(f, final=False)
            if before == (repr(self.env), repr(self.attr), repr(self.helper)):
                break
        self.feeds = {}
        for f in self.methods.values():
            self._scan(f, final=True)
        # a (queue, lock) pair handed to a helper of the class binds the helper's parameters
        self.param_bindings: Dict[Tuple[str, str], Tuple[ast.AST, ast.Call]] = {}
        for f in list(self.methods.values()):
            for c in ast.walk(f):
                if not (isinstance(c, ast.Call) and isinstance(c.func, ast.Attribute) and isinstance(c.func.value, ast.Name)
                        and c.func.value.id == "self" and c.func.attr in self.methods and self.methods[c.func.attr] is not f):
                    continue
                h = self.methods[c.func.attr]
                hp = [a.arg for a in h.args.args][1:]
                passed: Dict[str, str] = {}  # caller name -> helper parameter
                for i, a in enumerate(c.args):
                    if isinstance(a, ast.Name) and i < len(hp):
                        passed[a.id] = hp[i]
                for kw_ in c.keywords:
                    if kw_.arg and isinstance(kw_.value, ast.Name):
                        passed[kw_.value.id] = kw_.arg
                for bfn, qv, lv, _key, _src in list(self.bindings):
                    if bfn is f and qv in passed and lv in passed:
                        nb = (h, passed[qv], passed[lv], None, c)
                        if not any(b[0] is h and b[1] == nb[1] and b[2] == nb[2] for b in self.bindings):
                            self.bindings.append(nb)
                        self.param_bindings[(h.name, passed[qv])] = (f, c)

    # -- kinds --------------------------------------------------------------------------------------
    def kind(self, e: Optional[ast.AST], fn: ast.AST) -> Tuple[Optional[str], Optional[str]]:
        if e is None:
            return None, None
        if dotted_name(e) == f"self.{self.map_attr}":
            return K_MAP, None
        if isinstance(e, ast.Name):
            return self.env[id(fn)].get(e.id, (None, None))
        if isinstance(e, ast.Attribute) and isinstance(e.value, ast.Name) and e.value.id == "self":
            return self.attr.get(e.attr), None
        if isinstance(e, ast.NamedExpr):
            return self.kind(e.value, fn)
        if isinstance(e, ast.IfExp):
            a, b = self.kind(e.body, fn), self.kind(e.orelse, fn)
            return a if a[0] else b
        if isinstance(e, ast.BoolOp):
            for v in e.values:
                k = self.kind(v, fn)
                if k[0]:
                    return k
            return None, None
        if is_new_entry(e):
            return K_ENTRY, None
        if isinstance(e, ast.Subscript):
            k, key = self.kind(e.value, fn)
            if k == K_MAP:
                return K_ENTRY, _name(e.slice)
            if k == K_ITEM and isinstance(e.slice, ast.Constant) and e.slice.value in (0, 1):
                return (K_KEY if e.slice.value == 0 else K_ENTRY), None
            if k in (K_ITEMS, K_ENTRIES, K_KEYS):
                if isinstance(e.slice, ast.Slice):
                    return k, None
                if k == K_ITEMS:
                    return K_ITEM, None
                return {K_ENTRIES: K_ENTRY, K_KEYS: K_KEY}.get(k), None
            return None, None
        if isinstance(e, (ast.ListComp, ast.GeneratorExp, ast.SetComp)):
            k, _key = self.kind(e.elt, fn)
            return (K_ENTRIES if k == K_ENTRY else K_KEYS if k == K_KEY else None), None
        if isinstance(e, ast.Call):
            f = e.func
            if isinstance(f, ast.Attribute):
                if isinstance(f.value, ast.Name) and f.value.id == "self" and f.attr in self.methods:
                    return self.helper.get(f.attr), None
                k, _ = self.kind(f.value, fn)
                if k == K_MAP:
                    if f.attr == "items":
                        return K_ITEMS, None
                    if f.attr == "values":
                        return K_ENTRIES, None
                    if f.attr == "keys":
                        return K_KEYS, None
                    if f.attr in ("get", "setdefault", "pop", "__getitem__"):
                        return K_ENTRY, _name(e.args[0]) if e.args else None
                    if f.attr == "copy":
                        return K_MAP, None
                if k in (K_ITEMS, K_ENTRIES, K_KEYS) and f.attr == "copy":
                    return k, None
            if isinstance(f, ast.Name) and e.args:
                k, _ = self.kind(e.args[0], fn)
                if f.id in PASS_THROUGH:
                    return (K_KEYS if k == K_MAP else k if k in (K_ITEMS, K_ENTRIES, K_KEYS) else None), None
                if f.id == "dict" and k == K_MAP:
                    return K_MAP, None
        return None, None

    # -- one pass over a method ----------------------------------------------------------------------
    def _set(self, fn: ast.AST, name: str, k: Tuple[Optional[str], Optional[str]]) -> None:
        if k[0] is not None:
            self.env[id(fn)][name] = k

    def _bind_target(self, fn: ast.AST, target: ast.AST, k: Tuple[Optional[str], Optional[str]], src: ast.AST, final: bool) -> None:
        kind, key = k
        if isinstance(target, ast.Name):
            self._set(fn, target.id, k)
        elif isinstance(target, ast.Attribute) and isinstance(target.value, ast.Name) and target.value.id == "self":
            if kind in (K_ENTRIES, K_ITEMS, K_KEYS, K_MAP) and target.attr != self.map_attr:
                # K_MAP: a copy of the map kept in an attribute (the live map itself is ``map_attr`` only)
                self.attr[target.attr] = kind
                if final:
                    self.feeds.setdefault(f"attr:{target.attr}", []).append((fn, src, None, "value"))
        elif isinstance(target, (ast.Tuple, ast.List)) and len(target.elts) == 2 and kind == K_ITEM:
            # ``channel, entry = item`` / ``channel, (q, lock) = item``
            kt, vt = target.elts
            kname = kt.id if isinstance(kt, ast.Name) else None
            if kname:
                self._set(fn, kname, (K_KEY, None))
            self._bind_target(fn, vt, (K_ENTRY, kname), src, final)
        elif isinstance(target, (ast.Tuple, ast.List)) and len(target.elts) == 2 and kind == K_ENTRY:
            a, b = target.elts
            if isinstance(a, ast.Name) and isinstance(b, ast.Name) and final:
                self.bindings.append((fn, a.id, b.id, key, src))

    def _bind_loop(self, fn: ast.AST, target: ast.AST, it: ast.AST, final: bool) -> None:
        k, _ = self.kind(it, fn)
        if k == K_ITEMS and isinstance(target, (ast.Tuple, ast.List)) and len(target.elts) == 2:
            kt, vt = target.elts
            key = kt.id if isinstance(kt, ast.Name) else None
            if key:
                self._set(fn, key, (K_KEY, None))
            self._bind_target(fn, vt, (K_ENTRY, key), it, final)
        elif k == K_ITEMS and isinstance(target, ast.Name):
            self._set(fn, target.id, (K_ITEM, None))
        elif k == K_ENTRIES:
            self._bind_target(fn, target, (K_ENTRY, None), it, final)
        elif k in (K_KEYS, K_MAP) and isinstance(target, ast.Name):
            self._set(fn, target.id, (K_KEY, None))

    def _container_key(self, e: ast.AST, fn: ast.AST) -> Optional[str]:
        if isinstance(e, ast.Name):
            return f"name:{id(fn)}:{e.id}"
        if isinstance(e, ast.Attribute) and isinstance(e.value, ast.Name) and e.value.id == "self" and e.attr != self.map_attr:
            return f"attr:{e.attr}"
        return None

    def _scan(self, fn: ast.AST, final: bool) -> None:
        ret_kinds: Set[str] = set()
        for n in ast.walk(fn):
            if isinstance(n, (ast.For, ast.AsyncFor, ast.comprehension)):
                self._bind_loop(fn, n.target, n.iter, final)
        for n in ast.walk(fn):
            if isinstance(n, ast.Assign):
                k = self.kind(n.value, fn)
                for t in n.targets:
                    if isinstance(t, ast.Subscript):
                        continue
                    self._bind_target(fn, t, k, n.value, final)
            elif isinstance(n, ast.AnnAssign) and n.value is not None:
                self._bind_target(fn, n.target, self.kind(n.value, fn), n.value, final)
            elif isinstance(n, ast.NamedExpr):
                self._bind_target(fn, n.target, self.kind(n.value, fn), n.value, final)
            elif isinstance(n, ast.Call) and isinstance(n.func, ast.Attribute) and n.func.attr in ("append", "add", "extend", "insert", "appendleft") and n.args:
                ck = self._container_key(n.func.value, fn)
                arg = n.args[-1]
                k, key = self.kind(arg, fn)
                # a (deque, lock) pair is itself no container of entries: q.append(msg) is not a feed
                if ck and ((k == K_ENTRY and n.func.attr != "extend") or (k == K_ENTRIES and n.func.attr == "extend")):
                    if ck.startswith("attr:"):
                        self.attr[ck[5:]] = K_ENTRIES
                    else:
                        self._set(fn, n.func.value.id, (K_ENTRIES, None))
                    if final:
                        self.feeds.setdefault(ck, []).append((fn, n if k == K_ENTRY else arg, key, "site" if k == K_ENTRY else "value"))
            elif isinstance(n, ast.Return) and n.value is not None and _owner(n) is fn:
                k, key = self.kind(n.value, fn)
                if k:
                    ret_kinds.add(k)
                    if final:
                        self.feeds.setdefault(f"helper:{fn.name}", []).append((fn, n.value, key if k == K_ENTRY else None, "entry" if k == K_ENTRY else "value"))
            elif isinstance(n, ast.Yield) and n.value is not None and _owner(n) is fn:
                k, key = self.kind(n.value, fn)
                if k == K_ENTRY:
                    ret_kinds.add(K_ENTRIES)
                    if final:
                        self.feeds.setdefault(f"helper:{fn.name}", []).append((fn, n, key, "site"))
            elif isinstance(n, ast.YieldFrom) and _owner(n) is fn:
                k, key = self.kind(n.value, fn)
                if k == K_ENTRIES:
                    ret_kinds.add(K_ENTRIES)
                    if final:
                        self.feeds.setdefault(f"helper:{fn.name}", []).append((fn, n.value, None, "value"))
        if len(ret_kinds) == 1:
            self.helper[fn.name] = next(iter(ret_kinds))

    # -- where do the entries of a collection come from ------------------------------------------------
    def origins(self, e: ast.AST, fn: ast.AST, seen: Optional[Set[str]] = None) -> List[Tuple[ast.AST, ast.AST, Optional[str], str]]:
        """Sites at which the entries reaching collection expression *e* are selected:
        (function, node, key name, how) with how in {'site', 'comp', 'unfiltered'}."""
        seen = set() if seen is None else seen
        out: List[Tuple[ast.AST, ast.AST, Optional[str], str]] = []
        if isinstance(e, ast.Call) and isinstance(e.func, ast.Name) and e.func.id in PASS_THROUGH and e.args:
            return self.origins(e.args[0], fn, seen)
        if isinstance(e, ast.Call) and isinstance(e.func, ast.Attribute) and e.func.attr == "copy":
            return self.origins(e.func.value, fn, seen)
        if isinstance(e, ast.Subscript) and isinstance(e.slice, ast.Slice):
            return self.origins(e.value, fn, seen)
        if isinstance(e, (ast.ListComp, ast.GeneratorExp, ast.SetComp)):
            _k, key = self.kind(e.elt, fn)
            return [(fn, e, key, "comp")]
        ck = None
        if isinstance(e, ast.Call) and isinstance(e.func, ast.Attribute) and isinstance(e.func.value, ast.Name) and e.func.value.id == "self" and e.func.attr in self.methods:
            ck = f"helper:{e.func.attr}"
        else:
            ck = self._container_key(e, fn)
        if ck is None or ck in seen:
            return [(fn, e, None, "unfiltered")] if ck is None else []
        seen.add(ck)
        feeds = list(self.feeds.get(ck, []))
        if isinstance(e, ast.Name):
            for v in _assigned(fn, e.id):
                if self.kind(v, fn)[0] in (K_ENTRIES, K_ITEMS):
                    out += self.origins(v, fn, seen)
        for ffn, node, key, tag in feeds:
            if tag in ("site", "entry"):
                out.append((ffn, node, key, "site"))
            else:
                out += self.origins(node, ffn, seen)
        if not out and not feeds:
            out.append((fn, e, None, "unfiltered"))
        return out


def _name(e: ast.AST) -> Optional[str]:
    return e.id if isinstance(e, ast.Name) else None


def _owner(n: ast.AST) -> Optional[ast.AST]:
    for a in ancestors(n):
        if isinstance(a, FuncNode + (ast.Lambda,)):
            return a
    return None


def _assigned(fn: ast.AST, name: str) -> List[ast.AST]:
    out: List[ast.AST] = []
    for n in ast.walk(fn):
        if isinstance(n, ast.Assign) and any(isinstance(t, ast.Name) and t.id == name for t in n.targets):
            out.append(n.value)
        elif isinstance(n, ast.AnnAssign) and isinstance(n.target, ast.Name) and n.target.id == name and n.value is not None:
            out.append(n.value)
    return out


def run(repo: Repo, R: Report) -> None:
    mod = repo.module(F)
    tcls = repo.cls(F, TRANSPORT)
    scls = repo.cls(F, SUBSCRIPTION)
    R.assume(
        "single C-level calls on dict/deque (d.get, list(d.items()), q.append, q.popleft) are atomic under CPython",
        "a defaultdict miss runs the Python-level factory between the failed lookup and the store (not atomic)",
        "liveness (a subscriber that exits when momentarily empty) is by design and not part of the statement",
    )
    R.undecided("actual schedules (nothing is executed); fairness / liveness")

    # the methods are analysed in normal form (private helpers with a tail return inlined at their call, module
    # constants substituted, if/else of one assignment merged); a helper absorbed at every call is analysed there,
    # in the context (locks held, channel known) it really runs in
    nmethods = _normal_methods(repo, mod, {TRANSPORT: tcls, SUBSCRIPTION: scls})

    # ---- shared state discovered from __init__ (normal form: a set-up helper of the constructor is part of it) ----
    repo.func(F, f"{TRANSPORT}.__init__")  # anchor
    tinit = nmethods[TRANSPORT]["__init__"]
    shared_map = None
    map_lock = None
    factory: Optional[ast.AST] = None
    for st in walk_no_nested(tinit):
        tgt = val = None
        if isinstance(st, ast.Assign) and len(st.targets) == 1:
            tgt, val = st.targets[0], st.value
        elif isinstance(st, ast.AnnAssign):
            tgt, val = st.target, st.value
        d = dotted_name(tgt) if tgt is not None else None
        if d and d.startswith("self.") and isinstance(val, ast.Call):
            if call_attr(val) == "defaultdict":
                shared_map = d[5:]
                factory = val.args[0] if val.args else None
            elif call_attr(val) in ("Lock", "RLock"):
                map_lock = d[5:]
    if shared_map is None:
        # a plain dict with explicit creation is also a legitimate design
        for st in walk_no_nested(tinit):
            if isinstance(st, (ast.Assign, ast.AnnAssign)):
                tgt = st.targets[0] if isinstance(st, ast.Assign) else st.target
                d = dotted_name(tgt)
                # the attribute handed to the subscriptions (role), whatever it is called
                handed = {dotted_name(c.args[0]) for m_ in tcls.body if isinstance(m_, FuncNode) for c in calls_in(m_)
                          if call_attr(c) == SUBSCRIPTION and c.args}
                for m_ in tcls.body:
                    if isinstance(m_, FuncNode):
                        for c in calls_in(m_):
                            if call_attr(c) == SUBSCRIPTION and c.args and isinstance(c.args[0], ast.Name):
                                from ..engine import assigned_value as _av
                                handed |= {dotted_name(v) for v in _av(m_, c.args[0].id)}
                if d and d.startswith("self.") and d in handed and shared_map is None:
                    shared_map = d[5:]
    if shared_map is None:
        raise AnalysisError("shared channel map not found in InMemorySemantivaTransport.__init__")
    is_defaultdict = factory is not None

    # local spellings of the standard matcher in this module
    _MATCHERS.clear()
    _MATCHERS.update({"fnmatch", "fnmatchcase"})
    _MATCHERS.update(alias for alias, tgt in mod.imports.items() if tgt in STD_MATCHERS)

    # alias in the subscription: attributes assigned from the constructor parameters (by position: map, pattern)
    repo.func(F, f"{SUBSCRIPTION}.__init__")  # anchor
    sinit = nmethods[SUBSCRIPTION]["__init__"]
    sparams = [a.arg for a in sinit.args.args]
    if len(sparams) < 3:
        raise AnalysisError("InMemorySubscription.__init__: (self, queue map, pattern) parameters not recognised")
    sfl = _Flow(sinit)
    sub_map = None
    map_rebinds: List[Tuple[ast.AST, ast.AST]] = []
    # attributes that take something computed from the map parameter (a copy, a snapshot, a filtered view of it)
    derived_maps: List[Tuple[str, ast.AST, ast.AST]] = []
    pattern_param = sparams[2]
    # (attribute, store statement, what the stored value stands for, parameter it names | None, statements rebinding it)
    pat_stores: List[Tuple[str, ast.AST, ast.AST, Optional[str], List[ast.AST]]] = []
    for st in walk_no_nested(sinit):
        s_tgt = st.targets[0] if isinstance(st, ast.Assign) and len(st.targets) == 1 else st.target if isinstance(st, ast.AnnAssign) else None
        if s_tgt is None or getattr(st, "value", None) is None:
            continue
        d = dotted_name(s_tgt)
        if not (d and d.startswith("self.") and d.count(".") == 1):
            continue
        at = sfl.node_of(st)
        pname, rebinds, shown = _entry_param(sfl, sinit, st.value, at)
        if pname == sparams[1]:
            sub_map = d[5:]
            map_rebinds += [(st, rb) for rb in rebinds]
        elif pname == pattern_param or (pname is None and _mentions(shown, pattern_param) and not _mentions(shown, sparams[1])):
            pat_stores.append((d[5:], st, shown, pname, rebinds))
        elif pname is None and _mentions(shown, sparams[1]):
            derived_maps.append((d[5:], st, shown))
    # the pattern attribute: the one that takes the pattern parameter itself; failing that (the constructor stores
    # something computed from the parameter) the one the matcher is called with
    direct = [p_ for p_ in pat_stores if p_[3] == pattern_param]
    if not direct:
        used = {x.attr for m_ in nmethods[SUBSCRIPTION].values() for c in ast.walk(m_) if is_match_call(c)
                for a in c.args for x in ast.walk(a) if isinstance(x, ast.Attribute) and isinstance(x.value, ast.Name) and x.value.id == "self"}
        direct = [p_ for p_ in pat_stores if p_[0] in used]
    sub_pattern = direct[0][0] if direct and len({p_[0] for p_ in direct}) == 1 else None
    r_alias = R.rule("C14-D1-alias", "every subscription is constructed on the shared channel map itself (not a copy or a per-channel view) and with the caller's pattern", 1)
    if sub_map is None and derived_maps:
        # no attribute holds the map argument itself: what the subscription keeps is computed from it at subscribe time
        # (a copy, a snapshot of its items, a filtered view) - the one its other methods read stands in for the map below
        read_elsewhere = {x.attr for k_, m_ in nmethods[SUBSCRIPTION].items() if m_ is not sinit for x in ast.walk(m_)
                          if isinstance(x, ast.Attribute) and isinstance(x.ctx, ast.Load) and _recv_is_self(x.value)}
        cands = [dm for dm in derived_maps if dm[0] in read_elsewhere] or derived_maps
        d_attr, d_st, d_shown = cands[0]
        R.violation(r_alias, F, f"{SUBSCRIPTION}.__init__", norm(d_st),
                    f"the subscription keeps `{norm(d_shown)[:80]}`, something computed from the channel map at subscribe time, instead of the transport's live map `{sparams[1]}`: "
                    "a channel a publisher creates afterwards never appears in it, so messages published to a not-yet-existing channel are never delivered to this matching subscription", d_st.lineno)
        sub_map = d_attr
    if sub_map is None or sub_pattern is None:
        raise AnalysisError("InMemorySubscription.__init__: queue map / pattern attributes not recognised")

    # ---- the pattern matched is the pattern subscribed to --------------------------------------------------
    r_pid = R.rule("C14-D3-pattern-identity", "the pattern a subscription matches channel names against is the caller's pattern unchanged: the attribute the routing test reads is written only by the constructor, from the entry value of its pattern parameter, and the matcher called is the standard library's fnmatch", 2)
    for attr_, st, shown, pname, rebinds in pat_stores:
        if attr_ != sub_pattern:
            continue
        if pname is None:
            R.violation(r_pid, F, f"{SUBSCRIPTION}.__init__", norm(st), f"the stored pattern is computed (`{norm(shown)}`), not the pattern argument itself: the subscription matches channels against another pattern than the one subscribed to - matching messages are never delivered to it and messages of channels that do not match it are yielded", st.lineno)
        elif rebinds:
            rb = rebinds[0]
            R.violation(r_pid, F, f"{SUBSCRIPTION}.__init__", norm(rb), f"the pattern argument `{pname}` is rewritten before it is stored in self.{attr_}: the subscription matches channels against another pattern than the one subscribed to - matching messages are never delivered to it and messages of channels that do not match it are yielded", getattr(rb, "lineno", st.lineno))
        else:
            R.ok(r_pid, F, f"{SUBSCRIPTION}.__init__", norm(st), "pattern argument stored unchanged", st.lineno)
    # written nowhere else (methods in normal form: a setter inlined into the constructor was judged there)
    scopes: List[Tuple[str, ast.AST, bool]] = [(f"{cn}.{k}", f_, cn == SUBSCRIPTION) for cn in nmethods for k, f_ in nmethods[cn].items()]
    scopes += [(q, n, False) for q, n in mod.defs.items() if isinstance(n, FuncNode) and "." not in q]
    for qn, f_, in_sub in scopes:
        if f_ is sinit:
            continue
        for x in ast.walk(f_):
            if isinstance(x, ast.Attribute) and x.attr == sub_pattern and isinstance(x.ctx, (ast.Store, ast.Del)):
                recv_self = isinstance(x.value, ast.Name) and x.value.id == "self"
                if in_sub or not recv_self:
                    R.violation(r_pid, F, qn, norm(stmt(x)), f"the subscription's pattern attribute `{sub_pattern}` is rewritten after construction: from then on channels are matched against another pattern than the one subscribed to", x.lineno)
    # the matcher is the standard library's: each spelling used in the subscription is bound by an import of
    # fnmatch.fnmatch / fnmatch.fnmatchcase (or reached through the imported module) and by nothing else
    seen_spellings: Set[str] = set()
    for k, m_ in nmethods[SUBSCRIPTION].items():
        for c in ast.walk(m_):
            if not is_match_call(c):
                continue
            sp_ = dotted_name(c.func) or norm(c.func)
            if sp_ in seen_spellings:
                continue
            seen_spellings.add(sp_)
            head = sp_.split(".")[0]
            if isinstance(c.func, ast.Name):
                ok_b = mod.imports.get(head) in STD_MATCHERS
            else:
                ok_b = isinstance(c.func, ast.Attribute) and isinstance(c.func.value, ast.Name) and mod.imports.get(head) == "fnmatch"
            other = _other_bindings(mod.tree, head)
            R.check(bool(ok_b and not other), r_pid, F, f"{SUBSCRIPTION}.{k}", norm(c) + " [matcher]",
                    f"`{sp_}` is not (only) the standard library's fnmatch here" + (f" (also bound by `{norm(other[0])[:80]}`)" if other else "") + ": channels are matched by other rules than the subscription pattern's", c.lineno)

    # ---- R4 alias -------------------------------------------------------------
    n_ctor = 0
    for st, rb in map_rebinds:
        R.violation(r_alias, F, f"{SUBSCRIPTION}.__init__", norm(rb), f"the channel map handed to the subscription is replaced before it is stored (`{norm(st)}`): the subscription does not see the transport's live channel map", getattr(rb, "lineno", 0))
    for qn, fn in [(q, n) for q, n in mod.defs.items() if isinstance(n, FuncNode)]:
        for c in calls_in(fn):
            if call_attr(c) == SUBSCRIPTION:
                n_ctor += 1
                a0 = c.args[0] if c.args else kwarg(c, sparams[1])
                a1 = c.args[1] if len(c.args) > 1 else kwarg(c, sparams[2])
                vals = [a0] if a0 is not None else []
                if isinstance(a0, ast.Name):
                    from ..engine import assigned_value
                    vals = assigned_value(fn, a0.id) or [a0]
                ok0 = bool(vals) and all(dotted_name(v) == f"self.{shared_map}" for v in vals)
                R.check(ok0, r_alias, F, qn, norm(c), "subscription does not see the transport's live channel map: channels created later (or the entry a publisher uses) are invisible to it", c.lineno)
                # the parameter itself, or a local naming it (``pattern = channel``), still the caller's value at the call
                ok1, rb1 = False, []
                if isinstance(a1, ast.Name):
                    fl_ = _Flow(fn)
                    pn1, rb1, _shown = _entry_param(fl_, fn, a1, fl_.node_of(c))
                    ok1 = pn1 is not None and pn1 != "self" and not rb1
                R.check(ok1, r_alias, F, qn, norm(c) + " [pattern]", "subscription pattern is not the caller's channel pattern unchanged"
                        + (f" (rewritten by `{norm(rb1[0])[:80]}`)" if rb1 else ""), c.lineno)
    if n_ctor == 0:
        raise AnalysisError("no construction of InMemorySubscription found")

    # ---- the map and its lock are the same objects for the life of the transport ---------------------------
    _guard_identity(repo, R, mod, tcls, nmethods[TRANSPORT], shared_map, map_lock, sub_map)

    # ---- map access sites --------------------------------------------------------
    r_map = R.rule("C14-D1-map-lockset", "every access to the shared channel map that can insert (subscript on the defaultdict, setdefault, store) holds the map-level lock; iteration is over a snapshot; entries are never removed or replaced while a publisher may hold them", 2)
    publish_append_locks: List[List[str]] = []
    removal_sites: List[Tuple[str, ast.AST]] = []

    prov = {TRANSPORT: Prov(tcls, shared_map, nmethods[TRANSPORT]),
            SUBSCRIPTION: Prov(scls, sub_map, nmethods[SUBSCRIPTION], seed={"__init__": {sparams[1]: K_MAP}})}

    def map_expr(e: ast.AST, cls_name: str, fn: Optional[ast.AST] = None) -> bool:
        d = dotted_name(e)
        if d == (f"self.{shared_map}" if cls_name == TRANSPORT else f"self.{sub_map}"):
            return True
        return fn is not None and isinstance(e, ast.Name) and prov[cls_name].kind(e, fn)[0] == K_MAP and not map_copy(e, cls_name, fn)

    def map_copy(e: ast.AST, cls_name: str, fn: ast.AST, depth: int = 0) -> bool:
        """*e* is a private copy of the map made in one C-level call (`<map>.copy()`, `dict(<map>)`) or a local every
        binding of which is one: walking it or storing into it does not touch the map shared with publishers (the
        entries it holds are still the shared (deque, lock) pairs - Prov keeps following them)."""
        if isinstance(e, ast.Call):
            return prov[cls_name].kind(e, fn)[0] == K_MAP  # kind() gives K_MAP to a call only for those two forms
        if isinstance(e, ast.Name) and depth < 3:
            vals = _assigned(fn, e.id)
            n_bind = sum(1 for x in ast.walk(fn) if (isinstance(x, ast.Name) and x.id == e.id and isinstance(x.ctx, (ast.Store, ast.Del))) or (isinstance(x, ast.arg) and x.arg == e.id))
            return bool(vals) and len(vals) == n_bind and all(map_copy(v, cls_name, fn, depth + 1) for v in vals)
        return False

    # (queue, lock) pairs taken out of the map, found by provenance (direct, through locals, helpers, caches)
    deque_bindings: List[Tuple[str, ast.AST, str, str, Optional[str]]] = []  # (qualname, func, qvar, lockvar, channelvar)
    binding_src: Dict[Tuple[int, str], ast.AST] = {}
    for cname in (TRANSPORT, SUBSCRIPTION):
        for bfn, a, b, key, src in prov[cname].bindings:
            tup = (f"{cname}.{bfn.name}", bfn, a, b, key)
            if tup not in deque_bindings:
                deque_bindings.append(tup)
                binding_src[(id(bfn), a)] = src

    r_create = R.rule("C14-D1-create-once", "an explicit store of a new channel entry into the shared map is, inside the map lock's critical section, guarded by a test that the channel has no entry yet (check and create are one atomic step)", 0)
    creation_values: List[Tuple[str, ast.AST]] = []

    # per-class scan
    for cls, cname in ((tcls, TRANSPORT), (scls, SUBSCRIPTION)):
        for fn in prov[cname].methods.values():
            qn = f"{cname}.{fn.name}"
            for n in ast.walk(fn):
                # classify accesses of the map
                if isinstance(n, ast.Subscript) and map_expr(n.value, cname, fn):
                    held = locks_held(n)
                    is_store = isinstance(n.ctx, (ast.Store, ast.Del))
                    if isinstance(n.ctx, ast.Del):
                        removal_sites.append((qn, n))
                    elif is_store or is_defaultdict:
                        what = "store into" if is_store else "implicit insertion through"
                        ok = cname == TRANSPORT and map_lock is not None and f"self.{map_lock}" in held
                        R.check(ok, r_map, F, qn, norm(stmt(n)), f"{what} the shared defaultdict without the map-level lock: two first users of a channel can each create a queue and one message is lost", n.lineno)
                        if is_store:
                            st_ = stmt(n)
                            val = getattr(st_, "value", None)
                            if val is not None and is_new_entry(val):
                                creation_values.append((qn, val))
                            created = ok and _guarded_creation(n, f"self.{map_lock}", lambda e, _fn=fn, _c=cname: map_expr(e, _c, _fn))
                            R.check(created, r_create, F, qn, norm(st_) + " [create-once]",
                                    "a channel entry is stored without first testing, under the map lock, that the channel has none: two first publishers of a channel both create a queue, the second store replaces the first and the messages already appended to it are lost", n.lineno)
                            if not created:
                                removal_sites.append((qn, n))  # replacement of an entry
                    else:
                        R.ok(r_map, F, qn, norm(stmt(n)), "plain dict read", n.lineno)
                if isinstance(n, ast.Call) and isinstance(n.func, ast.Attribute) and map_expr(n.func.value, cname, fn):
                    m = n.func.attr
                    held = locks_held(n)
                    if m in REMOVERS:
                        removal_sites.append((qn, n))
                    elif m in ("setdefault", "update", "__setitem__"):
                        ok = cname == TRANSPORT and map_lock is not None and f"self.{map_lock}" in held
                        R.check(ok, r_map, F, qn, norm(stmt(n)), "insertion into the shared channel map without the map-level lock", n.lineno)
                    elif m in ("items", "keys", "values"):
                        p = parent(n)
                        snap = isinstance(p, ast.Call) and call_attr(p) in SNAPSHOT_FUNCS and p.args and p.args[0] is n
                        under = map_lock is not None and f"self.{map_lock}" in held
                        R.check(bool(snap or under), r_map, F, qn, norm(stmt(n)), "live iteration over the shared map while publishers insert (RuntimeError: dictionary changed size during iteration kills the subscriber)", n.lineno)
                    elif m in ("get", "__contains__", "copy"):
                        R.ok(r_map, F, qn, norm(stmt(n)), "atomic read", n.lineno)
                if isinstance(n, (ast.For, ast.comprehension)) and map_expr(n.iter, cname, fn):
                    R.violation(r_map, F, qn, norm(n) if isinstance(n, ast.For) else norm(n.iter), "live iteration over the shared map while publishers insert", getattr(n, "lineno", 0))

    # factory creates a fresh unbounded deque and a fresh lock per channel
    r_fac = R.rule("C14-D1-factory", "each channel gets its own fresh unbounded deque and its own fresh lock", 1)
    if factory is not None:
        body, no_params = _factory_result(factory, tinit, mod, tcls)
        ok = False
        why = "queue factory does not return (deque(), Lock())"
        if isinstance(body, ast.Tuple) and len(body.elts) == 2:
            dq, lk = body.elts
            ok = (
                isinstance(dq, ast.Call) and call_attr(dq) == "deque" and not dq.keywords and len(dq.args) == 0
                and isinstance(lk, ast.Call) and call_attr(lk) in ("Lock", "RLock") and no_params
            )
            if isinstance(dq, ast.Call) and (kwarg(dq, "maxlen") is not None or len(dq.args) > 1):
                why = "per-channel deque is bounded (maxlen): messages beyond the bound are silently dropped"
        R.check(ok, r_fac, F, f"{TRANSPORT}.__init__", norm(factory), why, getattr(factory, "lineno", 0))
    elif not creation_values:
        R.note("shared map is not a defaultdict; explicit creation sites are covered by the map-lockset rule")
        R.ok(r_fac, F, f"{TRANSPORT}.__init__", "explicit creation", "no factory")
    for cqn, val in creation_values:
        okv, why = fresh_entry_ok(val)
        R.check(okv, r_fac, F, cqn, norm(val), why, getattr(val, "lineno", 0))

    # ---- deque protocol ---------------------------------------------------------------
    if not any(b[0].startswith(SUBSCRIPTION) for b in deque_bindings):
        # nothing below can be decided: which local is a channel's deque / lock on the consumer side is unknown
        raise AnalysisError("consumer side: no (queue, lock) binding taken from the channel map recognised in InMemorySubscription")
    r_cons = R.rule("C14-D2-consumer", "the consumer's emptiness test and pop are one critical section under the channel's own lock, and the pop is guarded by the test", 1)
    r_fifo = R.rule("C14-D3-fifo", "producers append at one end and consumers pop from the other end of the same deque; nothing is re-queued by a consumer", 2)
    producer_ends: Set[str] = set()
    consumer_ends: Set[str] = set()
    n_pop = 0
    for qn, fn, qv, lv, kv in deque_bindings:
        for n in ast.walk(fn):
            if isinstance(n, ast.Call) and isinstance(n.func, ast.Attribute) and isinstance(n.func.value, ast.Name) and n.func.value.id == qv:
                m = n.func.attr
                held = locks_held(n)
                if m in ("append", "appendleft", "extend", "extendleft", "insert"):
                    if fn.name == "__iter__" or qn.startswith(SUBSCRIPTION):
                        R.violation(r_fifo, F, qn, norm(stmt(n)), "a consumer puts a message back into the queue (duplication / reordering)", n.lineno)
                    else:
                        producer_ends.add("right" if m in ("append", "extend") else "left" if m in ("appendleft", "extendleft") else "middle")
                        publish_append_locks.append(held)
                        R.ok(r_fifo, F, qn, norm(stmt(n)), f"producer end via {m}", n.lineno)
                elif m in ("popleft", "pop"):
                    n_pop += 1
                    consumer_ends.add("left" if m == "popleft" else "right")
                    w = enclosing_with(n, lv)
                    ok_lock = w is not None
                    guarded = w is not None and _pop_guarded(fn, w, n, qv)
                    R.check(ok_lock, r_cons, F, qn, norm(stmt(n)), f"pop from the channel deque outside `with {lv}:` (its own lock): two consumers can both see the same head / the test and pop are not atomic", n.lineno)
                    if ok_lock:
                        R.check(guarded, r_cons, F, qn, norm(stmt(n)) + " [guarded]", "pop is not guarded by an emptiness test inside the same critical section (IndexError on a race, or test outside the lock)", n.lineno)
                elif m in ("clear", "remove", "rotate", "reverse"):
                    R.violation(r_fifo, F, qn, norm(stmt(n)), f"deque.{m}() on a channel queue loses or reorders messages", n.lineno)
            # emptiness tests on q outside its lock, when a pop exists in this function
            if isinstance(n, ast.Name) and n.id == qv and isinstance(n.ctx, ast.Load):
                p = parent(n)
                is_method_recv = isinstance(p, ast.Attribute)
                in_test = any((isinstance(a, (ast.If, ast.While, ast.IfExp)) and _within(n, a.test)) for a in ancestors(n))
                if in_test and not is_method_recv or (is_method_recv and isinstance(parent(p), ast.Call) and call_attr(parent(p)) in ("__len__", "__bool__")):
                    has_pop = any(isinstance(c, ast.Call) and isinstance(c.func, ast.Attribute) and isinstance(c.func.value, ast.Name) and c.func.value.id == qv and c.func.attr in ("pop", "popleft") for c in ast.walk(fn))
                    if has_pop:
                        R.check(enclosing_with(n, lv) is not None, r_cons, F, qn, norm(stmt(n)) + " [test]", "emptiness test on the channel deque outside its lock (check-then-act not atomic)", n.lineno)
            if isinstance(n, ast.Subscript) and isinstance(n.value, ast.Name) and n.value.id == qv and qn.startswith(SUBSCRIPTION):
                R.violation(r_fifo, F, qn, norm(stmt(n)), "consumer peeks into the deque instead of popping (a message can be delivered twice)", n.lineno)
    if n_pop == 0:
        R.violation(r_cons, F, f"{SUBSCRIPTION}.__iter__", "consumer pop", "the consumer never removes a message from the channel deque (the same message is delivered again)", 0)
    ends_ok = (producer_ends, consumer_ends) in (({"right"}, {"left"}), ({"left"}, {"right"}))
    R.check(ends_ok, r_fifo, F, f"{TRANSPORT}.publish / {SUBSCRIPTION}.__iter__", f"producer ends {sorted(producer_ends)} / consumer ends {sorted(consumer_ends)}",
            "producer and consumer do not use opposite ends of the deque: messages of one channel are not received in publication order", 0)

    # ---- a message is filed under the channel it was published to ------------------------------------
    r_cid = R.rule("C14-D3-channel-identity", "a producer files the message in the queue of the channel name it was called with, unchanged (the key of the channel-map lookup in a public producer is the entry value of one of its parameters)", 0)
    for qn, fn, qv, lv, kv in deque_bindings:
        if not qn.startswith(TRANSPORT + ".") or (fn.name.startswith("_") and not fn.name.startswith("__")):
            continue  # a private helper files under what its caller passes: decided at the public entry point only
        if not any(isinstance(c, ast.Call) and isinstance(c.func, ast.Attribute) and isinstance(c.func.value, ast.Name) and c.func.value.id == qv
                   and c.func.attr in ("append", "appendleft", "extend", "extendleft", "insert") for c in ast.walk(fn)):
            continue
        src = binding_src.get((id(fn), qv))
        kexpr: Optional[ast.AST] = None
        if isinstance(src, ast.Subscript) and map_expr(src.value, TRANSPORT, fn):
            kexpr = src.slice
        elif isinstance(src, ast.Call) and isinstance(src.func, ast.Attribute) and map_expr(src.func.value, TRANSPORT, fn) and src.args and src.func.attr in ("get", "setdefault", "__getitem__"):
            kexpr = src.args[0]
        elif src is not None and kv is not None:
            kexpr = ast.Name(id=kv, ctx=ast.Load())
        if kexpr is None or src is None:
            continue
        fl_ = _Flow(fn)
        pn_, rb_, shown_ = _entry_param(fl_, fn, kexpr, fl_.node_of(stmt(src)))
        if pn_ is None or pn_ == "self":
            R.violation(r_cid, F, qn, norm(stmt(src)), f"the message is filed under `{norm(shown_)}`, a name computed in the producer, not the channel it was published to: a subscription whose pattern matches the published channel never receives it, and one that matches the computed name receives a message of a channel it did not subscribe to", getattr(src, "lineno", 0))
        elif rb_:
            R.violation(r_cid, F, qn, norm(rb_[0]), f"the channel argument `{pn_}` is rewritten before the queue lookup `{norm(stmt(src))}`: the message is filed under another channel than the one it was published to", getattr(rb_[0], "lineno", 0))
        else:
            R.ok(r_cid, F, qn, norm(stmt(src)), f"filed under parameter {pn_}", getattr(src, "lineno", 0))

    # ---- critical sections end before control leaves the transport -----------------------------------------
    _lock_scope(R, prov, deque_bindings, map_lock)

    # ---- a channel's lock is released by its holder only -------------------------------------------------
    _release_owned(R, prov, deque_bindings)

    # ---- every scan reads the live map ------------------------------------------------------------------
    _live_scan(R, prov[SUBSCRIPTION], deque_bindings, sub_map)

    # ---- entry stability --------------------------------------------------------------
    r_stab = R.rule("C14-D1-entry-stability", "a channel's (deque, lock) entry is never removed or replaced while a publisher may have fetched it and not yet appended", 1)
    if not removal_sites:
        R.ok(r_stab, F, TRANSPORT, "no removal/replacement site on the channel map", "0 sites")
    for qn, n in removal_sites:
        held = locks_held(n)
        safe = (map_lock is not None and f"self.{map_lock}" in held and publish_append_locks and all(f"self.{map_lock}" in h for h in publish_append_locks)
                and not prov[SUBSCRIPTION].attr)  # a subscription that caches entries keeps serving a removed one
        R.check(bool(safe), r_stab, F, qn, norm(stmt(n)), "an entry is removed/replaced while publish() holds a reference fetched earlier and appends afterwards: the message lands in an orphaned deque and is never delivered", getattr(n, "lineno", 0))

    # ---- exactly-once hand-over + routing --------------------------------------------
    repo.func(F, f"{SUBSCRIPTION}.__iter__")  # anchor
    it = prov[SUBSCRIPTION].methods["__iter__"]
    r_once = R.rule("C14-D2-once", "every popped message is handed on exactly once (yielded by the iterator / returned by a helper whose caller yields it) before the next pop or the end of the function, and only popped messages are yielded", 2)
    r_route = R.rule("C14-D3-routing", "every yield is dominated by fnmatch(<channel of the popped queue>, self.<pattern>) holding", 1)
    if not any(isinstance(n, (ast.Yield, ast.YieldFrom)) for n in walk_no_nested(it)):
        raise AnalysisError("InMemorySubscription.__iter__ has no yield")
    hand = _HandOver(R, prov[SUBSCRIPTION], deque_bindings, binding_src, sub_pattern, r_once, r_route)
    top = hand.analyse(it, "yield")
    for chk in top["checks"]:
        chk()
    if not top["pops"]:
        if not any(b[1] is it for b in deque_bindings):
            raise AnalysisError("__iter__: (queue, lock) binding from the channel map not recognised")
    # a function of the subscription that pops from a channel queue but whose hand-over was not analysed
    for qn_, fn_, qv_, _lv, _kv in deque_bindings:
        if qn_.startswith(SUBSCRIPTION) and id(fn_) not in hand.done and any(
                isinstance(c, ast.Call) and isinstance(c.func, ast.Attribute) and c.func.attr in ("pop", "popleft")
                and isinstance(c.func.value, ast.Name) and c.func.value.id == qv_ for c in ast.walk(fn_)):
            R.violation(r_once, F, qn_, "consumer pop", "messages are taken from a channel queue by a function whose result the iterator does not hand on (they are never yielded)", fn_.lineno)

    # ---- "no message" and "a message" cannot be confused -------------------------------------------------------
    _message_truthiness(repo, R, mod, prov, deque_bindings, hand, it, top)

    # ---- scan completeness ------------------------------------------------------------------------------
    r_scan = R.rule("C14-D3-scan-complete", "state a subscription keeps between scans to skip channels (a progress marker used to slice or to skip the scan) is computed from the snapshot that was actually scanned, never from another read of the live map", 0)
    sp = prov[SUBSCRIPTION]
    marker_uses: Dict[str, ast.AST] = {}
    for mfn in sp.methods.values():
        for n in ast.walk(mfn):
            reads: List[ast.AST] = []
            if isinstance(n, ast.Subscript) and isinstance(n.slice, ast.Slice) and sp.kind(n.value, mfn)[0] in (K_ITEMS, K_ENTRIES, K_KEYS):
                reads = list(ast.walk(n.slice))
            elif isinstance(n, (ast.If, ast.While, ast.IfExp)) and any(sp.kind(x, mfn)[0] == K_MAP for x in ast.walk(n.test)):
                reads = list(ast.walk(n.test))
            elif isinstance(n, ast.Call) and call_attr(n) == "islice" and n.args and sp.kind(n.args[0], mfn)[0] in (K_ITEMS, K_ENTRIES, K_KEYS, K_MAP):
                reads = [x for a in n.args[1:] for x in ast.walk(a)]
            for x in reads:
                if isinstance(x, ast.Attribute) and isinstance(x.value, ast.Name) and x.value.id == "self" and x.attr not in (sub_map, sub_pattern):
                    marker_uses.setdefault(x.attr, n)
    for mfn in sp.methods.values():
        if mfn.name == "__init__":
            continue
        for n in ast.walk(mfn):
            tgts: List[ast.AST] = []
            if isinstance(n, ast.Assign):
                tgts = list(n.targets)
            elif isinstance(n, (ast.AugAssign, ast.AnnAssign)) and n.value is not None:
                tgts = [n.target]
            for t in tgts:
                if isinstance(t, ast.Attribute) and isinstance(t.value, ast.Name) and t.value.id == "self" and t.attr in marker_uses:
                    live = [x for x in ast.walk(n.value) if sp.kind(x, mfn)[0] == K_MAP]
                    R.check(not live, r_scan, F, f"{SUBSCRIPTION}.{mfn.name}", norm(n),
                            f"the scan-progress marker self.{t.attr} is taken from a fresh read of the live channel map, not from the snapshot that was scanned: a channel created between the snapshot and this read counts as scanned without ever having been matched, and its messages are never delivered to this subscription", n.lineno)


def _lock_scope(R: Report, prov: Dict[str, "Prov"], deque_bindings, map_lock: Optional[str]) -> None:
    """A critical section of the transport (a channel's own lock, the map lock) covers C-level queue / map operations only.
    A generator that suspends inside one keeps the lock for as long as its consumer handles the message (until the
    next ``next()`` or the collection of the generator); a callable supplied by the caller that is invoked inside one runs
    arbitrary consumer code under the lock.  Either way every publisher of that channel blocks meanwhile, and a consumer
    that publishes to the channel (re-queue, ping/pong between two consumers) - or waits for a thread that does - never
    returns: the messages still queued are never delivered."""
    r_ls = R.rule("C14-D2-lock-scope", "no channel lock and not the map lock is held while control is outside the transport: inside a critical section a generator never suspends (yield / yield from / await) and no caller-supplied callable is invoked", 1)
    for cname in (TRANSPORT, SUBSCRIPTION):
        for fn in prov[cname].methods.values():
            qn = f"{cname}.{fn.name}"
            known = {lv: "the channel's lock" for (_q, bfn, _qv, lv, _kv) in deque_bindings if bfn is fn}
            if map_lock is not None:
                known[f"self.{map_lock}"] = "the map lock"
            for n in ast.walk(fn):
                what = None
                if isinstance(n, (ast.Yield, ast.YieldFrom, ast.Await)):
                    what = "the generator suspends" if not isinstance(n, ast.Await) else "the coroutine suspends"
                elif isinstance(n, ast.Call) and isinstance(n.func, ast.Name):
                    # callables the caller supplied: parameters of this method and of the functions nested in it
                    owners = [a for a in ancestors(n) if isinstance(a, FuncNode + (ast.Lambda,))]
                    owners = owners[:next((i for i, a in enumerate(owners) if a is fn), len(owners) - 1) + 1]
                    pnames = {x.arg for o in owners for x in o.args.posonlyargs + o.args.args + o.args.kwonlyargs} - {"self", "cls"}
                    rebound = any(isinstance(x, ast.Name) and x.id == n.func.id and isinstance(x.ctx, ast.Store) for o in owners for x in ast.walk(o))
                    if n.func.id in pnames and not rebound:
                        what = f"the caller-supplied callable `{n.func.id}` is invoked"
                if what is None:
                    continue
                held = [h for h in locks_held(n) if h in known]
                if held:
                    R.violation(r_ls, F, qn, norm(stmt(n)), f"{what} while `{held[0]}` ({known[held[0]]}) is held: the lock stays held while consumer code runs - publishers of the channel block, "
                                "and a consumer that publishes to it (or waits for a thread that does) while handling the message deadlocks, so the remaining messages are never delivered", n.lineno)
                elif not isinstance(n, ast.Call):
                    R.ok(r_ls, F, qn, norm(stmt(n)), "suspension point outside every critical section", n.lineno)


def _release_owned(R: Report, prov: Dict[str, "Prov"], deque_bindings) -> None:
    """``threading.Lock.release()`` succeeds from any thread, whoever holds the lock.  The consumer's critical section
    (emptiness test + pop under the channel's own lock) excludes other consumers only while nobody else releases that lock:
    code that releases it without holding it (after an ``acquire(timeout=..)`` / ``acquire(False)`` whose result was not
    tested, inside the ``with`` block that releases it again on exit, through a reference handed to a timer) lets a second
    consumer into the section and makes the holder's own exit raise ``RuntimeError: release unlocked lock`` - in the
    consumer that is between ``popleft`` and ``yield``: the popped message is lost.  Decided on the CFG: every path from
    the function entry to a release passes a point at which the same lock was certainly acquired by this code."""
    r_ro = R.rule("C14-D2-release-owned", "a channel's lock is released only by the code that holds it: every explicit release() is the `finally` of its own blocking acquire, or is reachable only through a point where an acquire of the same lock certainly succeeded (a blocking acquire statement, the true edge of a test of the acquire's result); it is not released inside its own `with` block and `release` is not handed out as a callable", 0)
    done: Set[Tuple[int, str]] = set()
    for qn, fn, _qv, lv, _kv in deque_bindings:
        if (id(fn), lv) in done:
            continue
        done.add((id(fn), lv))

        def is_lock(e: ast.AST, lv=lv) -> bool:
            return lv in _lock_names(e)

        def acquire_of(e: ast.AST, is_lock=is_lock) -> bool:
            return isinstance(e, ast.Call) and isinstance(e.func, ast.Attribute) and e.func.attr in ("acquire", "__enter__") and is_lock(e.func.value)

        def report(node: ast.AST, why: str, path: Optional[List[str]] = None) -> None:
            R.violation(r_ro, F, qn, norm(stmt(node)), f"{why}: `threading.Lock.release()` does not check the owner, so the thread that really holds `{lv}` - a consumer inside its "
                        "test-and-pop critical section - loses the exclusion (a second consumer enters and both take the same head) and its own exit from the section raises "
                        "RuntimeError('release unlocked lock') after the pop and before the yield: the popped message is lost", getattr(node, "lineno", 0), path)

        flows: Dict[int, CFG] = {}
        for n in ast.walk(fn):
            if not (isinstance(n, ast.Attribute) and n.attr in ("release", "_release_save", "__exit__") and isinstance(n.ctx, ast.Load) and is_lock(n.value)):
                continue
            c = parent(n)
            if not (isinstance(c, ast.Call) and c.func is n):
                report(n, f"`{norm(n)}` is handed out as a callable: whoever calls it later releases the channel's lock without holding it")
                continue
            st_ = stmt(c)
            t = parent(st_)
            if isinstance(t, ast.Try) and any(x is st_ for x in t.finalbody) and lv in _try_locks(t):
                R.ok(r_ro, F, qn, norm(st_), "the `finally` of its own blocking acquire", c.lineno)
                continue
            w = enclosing_with(c, lv)
            if w is not None and not any(acquire_of(x) for x in ast.walk(w)):
                report(c, f"`{lv}` is released inside the block that holds it (`{norm(w).splitlines()[0][:60]}`) and released again when the block is left")
                continue
            owner = _owner(c) or fn
            if id(owner) not in flows:
                flows[id(owner)] = CFG(owner)
            g = flows[id(owner)]
            targets = g.nodes_for(st_)
            cur: Optional[ast.AST] = st_
            while not targets and cur is not None and cur is not owner:
                cur = parent(cur)
                targets = g.nodes_for(cur) if cur is not None else []
            # points at which the lock is certainly held by this code
            held_nodes: Set[int] = set()
            held_edges: Set[Tuple[int, str]] = set()
            for nd in g.nodes:
                if nd.kind == "stmt" and nd.ast is not None:
                    acq = _lock_method_call(nd.ast, "acquire")
                    if acq is not None and is_lock(acq):
                        held_nodes.add(nd.id)
                if nd.kind in ("if", "while") and nd.part is not None:
                    def atom(e: ast.AST, nd=nd, g=g) -> Optional[bool]:
                        if isinstance(e, ast.NamedExpr):
                            e = e.value
                        if acquire_of(e):
                            return True
                        if isinstance(e, ast.Name):
                            ds = reaching_defs(g, e.id, nd.id)
                            if ds and all(d.kind == "stmt" and isinstance(d.ast, (ast.Assign, ast.AnnAssign)) and getattr(d.ast, "value", None) is not None
                                          and acquire_of(d.ast.value)
                                          and all(isinstance(t_, ast.Name) for t_ in (d.ast.targets if isinstance(d.ast, ast.Assign) else [d.ast.target])) for d in ds):
                                return True
                        return None
                    for lab in edges_guaranteeing(nd.part, atom):
                        held_edges.add((nd.id, lab))
            targets = [t_ for t_ in targets if t_ not in held_nodes]
            seen = g.reach([g.entry], blocked=held_nodes, blocked_edges=held_edges)
            bad = [t_ for t_ in targets if t_ in seen]
            if bad:
                tried = next((x for x in ast.walk(owner) if acquire_of(x) and (x.args or x.keywords)), None)
                how = (f"`{norm(tried)}` returns False when the lock was not obtained (it does not raise) and the result is not tested" if tried is not None
                       else "no acquire of it by this code precedes the release on that path")
                report(c, f"`{norm(c)}` runs on a path on which this code does not hold `{lv}` ({how})", g.path_to(seen, bad[0]))
            else:
                R.ok(r_ro, F, qn, norm(st_), "reached only with the lock acquired by this code", c.lineno)


def _live_scan(R: Report, sp: "Prov", deque_bindings, sub_map: str) -> None:
    """Which channels exist is only known to the live map: a publisher creates a channel's entry at its first publish.
    Every use a method of the subscription makes of a channel's queue or lock is therefore preceded, in the same call, by a
    read of the live map (items / keys / values / lookup / one-call snapshot) - on every path.  A subscription that serves
    queues it remembered from an earlier call (a snapshot cached in an attribute, a copy made by the constructor) never
    sees a channel created since, and the messages published to it are never delivered to this matching subscription."""
    r_lv = R.rule("C14-D1-live-scan", "every use of a channel's queue or lock in the subscription is preceded, in the same call and on every path, by a read of the live channel map (a scan never works from channels remembered in the subscription's own state only)", 1)
    live_attr = f"self.{sub_map}"
    memo: Dict[int, bool] = {}

    def live_map(e: ast.AST, fn: ast.AST, depth: int = 0) -> bool:
        if dotted_name(e) == live_attr:
            return True
        if isinstance(e, ast.Name) and depth < 3 and e.id not in {a.arg for a in fn.args.args}:
            vals = _assigned(fn, e.id)
            n_bind = sum(1 for x in ast.walk(fn) if isinstance(x, ast.Name) and x.id == e.id and isinstance(x.ctx, (ast.Store, ast.Del)))
            return bool(vals) and len(vals) == n_bind and all(live_map(v, fn, depth + 1) for v in vals)
        return False

    def reads_live(part: Optional[ast.AST], fn: ast.AST, depth: int) -> bool:
        if part is None:
            return False
        for x in ast.walk(part):
            if isinstance(x, ast.Subscript) and live_map(x.value, fn):
                return True
            if isinstance(x, ast.Call):
                if isinstance(x.func, ast.Attribute) and live_map(x.func.value, fn):
                    return True
                if isinstance(x.func, ast.Name) and x.func.id in PASS_THROUGH | {"dict", "set", "frozenset"} and x.args and live_map(x.args[0], fn):
                    return True
                if (isinstance(x.func, ast.Attribute) and _recv_is_self(x.func.value) and x.func.attr in sp.methods
                        and sp.methods[x.func.attr] is not fn and depth < 3 and always_reads(sp.methods[x.func.attr], depth + 1)):
                    return True
            if isinstance(x, (ast.For, ast.comprehension)) and live_map(x.iter, fn):
                return True
        return False

    def always_reads(h: ast.AST, depth: int) -> bool:
        """Every path from the entry of helper *h* to a point where it hands something out (return, yield) reads the live map."""
        if id(h) in memo:
            return memo[id(h)]
        memo[id(h)] = False
        g = CFG(h, may_raise=lambda part: set())
        outs = [g.ret_exit] + [n.id for n in g.nodes if n.part is not None and not isinstance(n.ast, FuncNode)
                               and any(isinstance(x, (ast.Yield, ast.YieldFrom)) for x in walk_no_nested(n.part))]
        pred = lambda n: reads_live(n.part, h, depth)
        outs = [o for o in outs if not pred(g.nodes[o])]
        memo[id(h)] = not g.must_pass([g.entry], outs, pred)
        return memo[id(h)]

    for qn, fn, qv, lv, _kv in deque_bindings:
        if not qn.startswith(SUBSCRIPTION + ".") or fn.name == "__init__":
            continue
        params = {a.arg for a in fn.args.posonlyargs + fn.args.args + fn.args.kwonlyargs}
        if qv in params or lv in params:
            continue  # handed in by a caller: passing them is a use there
        g = CFG(fn, may_raise=lambda part: set())
        pred = lambda n, fn=fn: reads_live(n.part, fn, 0)

        def uses(n, qv=qv, lv=lv) -> bool:
            if n.part is None or isinstance(n.ast, FuncNode):
                return False
            return any(isinstance(x, ast.Name) and x.id in (qv, lv) and isinstance(x.ctx, ast.Load) for x in ast.walk(n.part))
        targets = [n.id for n in g.nodes if uses(n) and not pred(n)]
        bad = g.must_pass([g.entry], targets, pred)
        if bad:
            nid, path = bad[0]
            node = g.nodes[nid]
            shown = ("with " + ", ".join(norm(i.context_expr) for i in node.ast.items) if node.kind == "with" and isinstance(node.ast, (ast.With, ast.AsyncWith))
                     else f"{node.kind} {norm(node.part)}" if node.kind in ("if", "while", "for") else norm(node.ast).split("\n")[0])
            R.violation(r_lv, F, qn, shown[:160],
                        f"the queue / lock `{qv}` / `{lv}` of a channel is used on a path of this call that has not read the live channel map self.{sub_map}: the channels served come from what the subscription "
                        "remembered earlier, a channel created since is never scanned and the messages published to it are never delivered to this matching subscription", node.line, path)
        else:
            R.ok(r_lv, F, qn, f"uses of ({qv}, {lv})", "every use follows a read of the live map", fn.lineno)


CONTAINER_BASES = {"tuple", "list", "dict", "set", "frozenset", "str", "bytes", "bytearray", "deque", "OrderedDict", "defaultdict", "Counter", "ChainMap",
                   "UserDict", "UserList", "UserString", "Mapping", "MutableMapping", "Sequence", "MutableSequence", "Set", "MutableSet", "Collection", "Sized"}


def _truth_tested(fn: ast.AST, names: Set[str]) -> Optional[ast.AST]:
    """A place in *fn* where the truth value (not the identity) of a local in *names* decides a branch."""
    def hit(e: ast.AST) -> bool:
        if isinstance(e, ast.Name):
            return e.id in names
        if isinstance(e, ast.UnaryOp) and isinstance(e.op, ast.Not):
            return hit(e.operand)
        if isinstance(e, ast.BoolOp):
            return any(hit(v) for v in e.values)
        if isinstance(e, ast.NamedExpr):
            return hit(e.value) or (isinstance(e.target, ast.Name) and e.target.id in names)
        if isinstance(e, ast.Call) and isinstance(e.func, ast.Name) and e.func.id == "bool" and len(e.args) == 1:
            return hit(e.args[0])
        return False
    for n in ast.walk(fn):
        tests: List[ast.AST] = []
        if isinstance(n, (ast.If, ast.While, ast.IfExp, ast.Assert)):
            tests = [n.test]
        elif isinstance(n, ast.comprehension):
            tests = list(n.ifs)
        for t in tests:
            if hit(t):
                return t
    return None


def _message_truthiness(repo: Repo, R: Report, mod, prov, deque_bindings, hand: "_HandOver", it: ast.AST, top: dict) -> None:
    """The consumer tells "the queue was empty" (None) from "a message was taken" by the truth value of what it popped.
    That is only right when a message object can never be false: the class the producer instantiates (wherever it is
    defined) has no ``__bool__`` / ``__len__`` and is not an empty-able container."""
    r_t = R.rule("C14-D2-message-truthy", "where the consumer decides by truth value whether it took a message, the message class the producer instantiates can never be false (no __bool__ / __len__ anywhere in its MRO, not an empty-able container type): otherwise a popped message is taken for 'queue empty' and dropped", 1)
    sp = prov[SUBSCRIPTION]
    per_fn: List[Tuple[ast.AST, Set[str]]] = [(it, {m for _s, m, _q, _c in top["pops"] if m})]
    for name, summ in hand.summaries.items():
        if summ:
            per_fn.append((sp.methods[name], {m for _s, m, _q, _c in summ["pops"] if m}))
    used: List[Tuple[ast.AST, ast.AST]] = []
    for fn_, names in per_fn:
        if names:
            t = _truth_tested(fn_, names)
            if t is not None:
                used.append((fn_, t))
    if not used:
        R.ok(r_t, F, f"{SUBSCRIPTION}.__iter__", "popped message tested by identity", "no truth-value test of a popped message")
        return
    ufn, utest = used[0]
    # the class of what producers append
    classes: List[Tuple[object, ast.ClassDef, ast.AST]] = []
    for qn, fn, qv, _lv, _kv in deque_bindings:
        if not qn.startswith(TRANSPORT + "."):
            continue
        for c in ast.walk(fn):
            if isinstance(c, ast.Call) and isinstance(c.func, ast.Attribute) and isinstance(c.func.value, ast.Name) and c.func.value.id == qv \
                    and c.func.attr in ("append", "appendleft") and c.args:
                vals = _assigned(fn, c.args[0].id) if isinstance(c.args[0], ast.Name) else [c.args[0]]
                for v in vals:
                    if isinstance(v, ast.Call):
                        r_ = repo.resolve_name(mod, v.func, v)
                        if r_ is not None and isinstance(r_[1], ast.ClassDef) and not any(x[1] is r_[1] for x in classes):
                            classes.append((r_[0], r_[1], v))
    if not classes:
        R.note("C14-D2-message-truthy: the class of the published message object is not resolvable inside the package; truthiness assumed")
        R.ok(r_t, F, f"{SUBSCRIPTION}.{getattr(ufn, 'name', '?')}", norm(utest), "message class not in the package")
        return
    for cmod, ccls, ctor in classes:
        repo.module(cmod.rel)
        bad: Optional[Tuple[str, ast.AST, str, str]] = None
        for m_, c_ in repo.mro(cmod, ccls):
            for st in c_.body:
                nm = st.name if isinstance(st, FuncNode) else next((t.id for t in getattr(st, "targets", []) if isinstance(t, ast.Name)), None) if isinstance(st, ast.Assign) else None
                if nm in ("__bool__", "__len__") and bad is None:
                    bad = (m_.rel, st, c_.name, f"{c_.name}.{nm} decides the truth value of a message")
            for b in c_.bases:
                bn = (dotted_name(b.value if isinstance(b, ast.Subscript) else b) or "").split(".")[-1]
                r_ = repo.resolve_name(m_, b.value if isinstance(b, ast.Subscript) else b, c_)
                if r_ is not None and isinstance(r_[1], ast.ClassDef):
                    continue
                if bn in CONTAINER_BASES and bad is None:
                    bad = (m_.rel, c_, c_.name, f"{c_.name} is a {bn}: an empty instance is false")
                if bn == "NamedTuple" and not any(isinstance(st, ast.AnnAssign) for st in c_.body) and bad is None:
                    bad = (m_.rel, c_, c_.name, f"{c_.name} is a NamedTuple without fields: every instance is false")
        where = f"`{norm(utest)}` in {SUBSCRIPTION}.{getattr(ufn, 'name', '?')}"
        if bad is not None:
            rel_, node_, cname_, txt = bad
            R.violation(r_t, rel_, cname_ if not isinstance(node_, FuncNode) else f"{cname_}.{node_.name}", norm(node_).split("\n")[0][:120],
                        f"{txt}, but the consumer takes a false value for 'queue empty' ({where}): a message that evaluates false is popped from its channel and never yielded - it is lost", getattr(node_, "lineno", 0))
        else:
            R.ok(r_t, cmod.rel, ccls.name, f"class {ccls.name}", "instances are always true", ccls.lineno)


def _recv_is_self(e: Optional[ast.AST]) -> bool:
    return isinstance(e, ast.Name) and e.id == "self"


def _dict_of(e: ast.AST) -> Optional[ast.AST]:
    """``X`` when *e* is the attribute dictionary of X (``X.__dict__`` / ``vars(X)``)."""
    if isinstance(e, ast.Attribute) and e.attr == "__dict__":
        return e.value
    if isinstance(e, ast.Call) and isinstance(e.func, ast.Name) and e.func.id == "vars" and len(e.args) == 1 and not e.keywords:
        return e.args[0]
    return None


def _attr_rebinds(tree: ast.AST, names: Set[str]) -> List[Tuple[ast.AST, str, Optional[ast.AST], str]]:
    """Sites in *tree* that bind or delete an attribute named in *names* on some object, whatever the spelling:
    ``X.a = ..`` / ``X.a += ..`` / ``del X.a`` / ``for X.a in`` / ``with .. as X.a``, ``setattr(X, 'a', ..)`` /
    ``delattr`` / ``object.__setattr__(X, 'a', ..)``, stores into ``X.__dict__`` / ``vars(X)`` (subscript, update, pop,
    clear).  -> (node, attribute, receiver X, verb)."""
    out: List[Tuple[ast.AST, str, Optional[ast.AST], str]] = []
    for n in ast.walk(tree):
        if isinstance(n, ast.Attribute) and n.attr in names and isinstance(n.ctx, (ast.Store, ast.Del)):
            out.append((n, n.attr, n.value, "deleted" if isinstance(n.ctx, ast.Del) else "rebound"))
        elif isinstance(n, ast.Call):
            ca = call_attr(n)
            consts = [a for a in n.args[:2] if isinstance(a, ast.Constant) and isinstance(a.value, str) and a.value in names]
            if ca in ("setattr", "delattr", "__setattr__", "__delattr__") and consts:
                recv = next((a for a in n.args[:2] if a is not consts[0]), None)
                if isinstance(n.func, ast.Attribute) and len(n.args) == (1 if ca == "__delattr__" else 2) and n.args[0] is consts[0]:
                    recv = n.func.value  # X.__setattr__('a', v)
                out.append((n, consts[0].value, recv, "deleted" if ca in ("delattr", "__delattr__") else "rebound"))
            elif isinstance(n.func, ast.Attribute) and _dict_of(n.func.value) is not None:
                recv = _dict_of(n.func.value)
                m = n.func.attr
                hit: Optional[str] = None
                if m == "clear":
                    hit = sorted(names)[0]
                elif m in ("pop", "setdefault", "__setitem__", "__delitem__") and n.args and isinstance(n.args[0], ast.Constant) and n.args[0].value in names:
                    hit = n.args[0].value
                elif m == "update":
                    keys = [k.arg for k in n.keywords if k.arg] + [k.value for a in n.args if isinstance(a, ast.Dict) for k in a.keys if isinstance(k, ast.Constant)]
                    hit = next((k for k in keys if k in names), None)
                if hit is not None:
                    out.append((n, hit, recv, "deleted" if m in ("clear", "pop", "__delitem__") else "rebound"))
        elif isinstance(n, ast.Subscript) and isinstance(n.ctx, (ast.Store, ast.Del)) and _dict_of(n.value) is not None:
            if isinstance(n.slice, ast.Constant) and n.slice.value in names:
                out.append((n, n.slice.value, _dict_of(n.value), "deleted" if isinstance(n.ctx, ast.Del) else "rebound"))
    return out


def _guard_identity(repo: Repo, R: Report, mod, tcls: ast.ClassDef, tmethods: Dict[str, ast.AST], shared_map: str, map_lock: Optional[str], sub_map: Optional[str] = None) -> None:
    """Mutual exclusion is a statement about ONE lock object, delivery about ONE map object: both are created by the
    constructor and stay bound for the life of the transport.  A publisher that is inside ``with self.<lock>:`` holds the
    object the attribute named when it entered; a method that binds a new lock (or map) to the attribute lets the next
    publisher enter a critical section of its own (or file its message in a map no subscription reads)."""
    r_id = R.rule("C14-D1-guard-identity", "the shared channel map and the lock that guards insertions into it are the same two objects for the whole life of the transport: bound by the constructor only - no method rebinds or deletes the attributes (assignment, setattr, __dict__), re-runs the constructor, or releases the lock other than as the `finally` of its own acquire", 1)
    roles = {shared_map: "channel map"}
    if map_lock is not None:
        roles[map_lock] = "map lock"
    names = set(roles)

    def why(attr: str, verb: str) -> str:
        if roles[attr] == "map lock":
            return (f"the map lock self.{attr} is {verb} after construction: a publisher already inside `with self.{attr}:` holds the old lock object, the next one "
                    "takes the new one, both run the creation of a channel's queue at the same time and the second store discards the queue the first one appends to - a message is lost")
        return (f"the channel map self.{attr} is {verb} after construction: subscriptions (and publishers that already fetched an entry) keep the old map, "
                "later publishers file their messages in the new one - messages are never delivered to the existing matching subscriptions")

    # constructor-only helpers that were not absorbed into the normal form of __init__
    raw_init = next((n for n in tcls.body if isinstance(n, FuncNode) and n.name == "__init__"), None)

    def ctor_only(name: str) -> bool:
        if not name.startswith("_") or name.startswith("__") or raw_init is None:
            return False
        refs = [x for x in ast.walk(mod.tree) if (isinstance(x, ast.Attribute) and x.attr == name) or (isinstance(x, ast.Name) and x.id == name)]
        in_init = {id(x) for x in ast.walk(raw_init)}
        ok = bool(refs) and all(id(x) in in_init and isinstance(x, ast.Attribute) and _recv_is_self(x.value) and isinstance(parent(x), ast.Call) and parent(x).func is x for x in refs)
        return ok and not any(m is not mod and re.search(r"\b%s\b" % re.escape(name), m.source) for m in repo.modules.values())

    seen_sites: Set[Tuple[str, Tuple[int, int]]] = set()

    def report(qn: str, rel: str, node: ast.AST, attr: str, verb: str) -> None:
        key = (getattr(node, "lineno", 0), getattr(node, "col_offset", 0))
        if (rel, key) in seen_sites:
            return
        seen_sites.add((rel, key))
        R.violation(r_id, rel, qn, norm(stmt(node)), why(attr, verb), getattr(node, "lineno", 0))

    # (1) methods of the transport (normal form; nested functions included) other than the constructor
    for k, f_ in tmethods.items():
        if k == "__init__" or ctor_only(k):
            continue
        qn = f"{TRANSPORT}.{k}"
        for node, attr, recv, verb in _attr_rebinds(f_, names):
            # through self; through another receiver only the lock (an object of another class, e.g. the subscription
            # just built, may have an attribute of its own that is called like the map)
            if _recv_is_self(recv) or attr == map_lock:
                report(qn, F, node, attr, verb)
        for c in ast.walk(f_):
            if isinstance(c, ast.Call) and isinstance(c.func, ast.Attribute) and c.func.attr == "__init__" and (
                    _recv_is_self(c.func.value) or (c.args and _recv_is_self(c.args[0]) and not (isinstance(c.func.value, ast.Call) and call_attr(c.func.value) == "super"))):
                R.violation(r_id, F, qn, norm(stmt(c)), "the constructor is run again on a live transport: " + why(shared_map, "re-created"), c.lineno)
    # (2) the rest of the module, subclasses, and any module that names the attributes: a store through another receiver
    #     (`transport.<lock> = ...`), or through self in a subclass of the transport
    sub_methods: Set[int] = set()
    for smod, scls_ in repo.subclasses(tcls):
        for m_ in scls_.body:
            if isinstance(m_, FuncNode) and m_.name != "__init__":
                sub_methods.add(id(m_))
                for node, attr, recv, verb in _attr_rebinds(m_, names):
                    report(f"{scls_.name}.{m_.name}", smod.rel, node, attr, verb)
    t_nodes = {id(x) for m_ in tcls.body for x in ast.walk(m_)}
    word = re.compile("|".join(r"\b%s\b" % re.escape(a) for a in sorted(names)))
    for rel, m in repo.modules.items():
        if m is not mod and not word.search(m.source):
            continue
        if m is not mod:
            repo.module(rel)  # consulted
        for node, attr, recv, verb in _attr_rebinds(m.tree, names):
            if id(node) in t_nodes or recv is None or _recv_is_self(recv) or (isinstance(recv, ast.Name) and recv.id == "cls"):
                continue  # self-stores of the transport were judged above; another class's own attribute of that name is not ours
            if m is mod and attr == sub_map and attr != map_lock:
                continue  # the subscription's own attribute of that name, set from outside
            fn_ = next((a for a in ancestors(node) if isinstance(a, FuncNode)), None)
            report(qualname_of(fn_) if fn_ is not None else "<module>", rel, node, attr, verb)
    # (3) the lock is released only by the `finally` that belongs to its acquire
    if map_lock is not None:
        lock_d = f"self.{map_lock}"
        for k, f_ in tmethods.items():
            for c in ast.walk(f_):
                if not (isinstance(c, ast.Call) and isinstance(c.func, ast.Attribute) and c.func.attr in ("release", "_release_save", "__exit__")):
                    continue
                if lock_d not in _lock_names(c.func.value):
                    continue
                st_ = stmt(c)
                t = parent(st_)
                paired = isinstance(t, ast.Try) and any(x is st_ for x in t.finalbody) and lock_d in _try_locks(t)
                R.check(paired, r_id, F, f"{TRANSPORT}.{k}", norm(st_), f"the map lock self.{map_lock} is released by code that did not acquire it (not the `finally` of `self.{map_lock}.acquire(); try:`): a publisher inside its critical section loses the exclusion it relies on, a second publisher creates the same channel's queue at the same time and one message is lost", c.lineno)
    for attr in sorted(names):
        R.ok(r_id, F, f"{TRANSPORT}.__init__", f"self.{attr}", f"{roles[attr]} bound by the constructor")


def _normal_methods(repo: Repo, mod, classes: Dict[str, ast.ClassDef]) -> Dict[str, Dict[str, ast.AST]]:
    """Normal form of every method of the two classes; private helpers whose every use was inlined are dropped
    (their body is analysed at each call site instead of out of context)."""
    out: Dict[str, Dict[str, ast.AST]] = {}
    for cname, cls in classes.items():
        out[cname] = {}
        for n in cls.body:
            if isinstance(n, FuncNode):
                try:
                    out[cname][n.name] = nfunc(repo, F, f"{cname}.{n.name}")
                except AnalysisError:
                    raise
                except Exception:
                    out[cname][n.name] = n

    def refs(tree: ast.AST, name: str) -> int:
        return sum(1 for x in ast.walk(tree) if (isinstance(x, ast.Attribute) and x.attr == name) or (isinstance(x, ast.Name) and x.id == name))

    for cname, cls in classes.items():
        for name in list(out[cname]):
            if not name.startswith("_") or name.startswith("__"):
                continue
            if not any(name in getattr(f, "_inlined", ()) for f in out[cname].values()):
                continue
            self_calls = sum(1 for m in cls.body if isinstance(m, FuncNode) for c in ast.walk(m)
                             if isinstance(c, ast.Call) and isinstance(c.func, ast.Attribute) and c.func.attr == name
                             and isinstance(c.func.value, ast.Name) and c.func.value.id == "self")
            if refs(mod.tree, name) != self_calls:
                continue  # referenced in another way (callback, another object, module level)
            if any(refs(f, name) for cn in out for k, f in out[cn].items() if not (cn == cname and k == name)):
                continue  # a call that could not be inlined remains
            if any(m is not mod and re.search(r"\b%s\b" % re.escape(name), m.source) for m in repo.modules.values()):
                continue
            del out[cname][name]
    return out


def _factory_result(factory: ast.AST, tinit: ast.AST, mod, tcls: ast.ClassDef) -> Tuple[Optional[ast.AST], bool]:
    """(expression a call of the default factory evaluates to, factory takes no arguments): a lambda, a local naming
    a lambda, a module-level function or a method / staticmethod of the transport whose body is one ``return``."""
    f = factory
    if isinstance(f, ast.Name):
        vals = [v for n in walk_no_nested(tinit) if isinstance(n, (ast.Assign, ast.AnnAssign)) and getattr(n, "value", None) is not None
                for t in (n.targets if isinstance(n, ast.Assign) else [n.target]) if isinstance(t, ast.Name) and t.id == f.id for v in [n.value]]
        if len(vals) == 1:
            f = vals[0]
        elif not vals and isinstance(mod.defs.get(f.id), ast.FunctionDef):
            f = mod.defs[f.id]
    elif isinstance(f, ast.Attribute) and isinstance(f.value, ast.Name) and f.value.id in ("self", tcls.name):
        m = next((n for n in tcls.body if isinstance(n, ast.FunctionDef) and n.name == f.attr), None)
        if m is not None:
            f = m
    if isinstance(f, ast.Lambda):
        a = f.args
        return f.body, not (a.args or a.posonlyargs or a.kwonlyargs or a.vararg or a.kwarg)
    if isinstance(f, ast.FunctionDef):
        body = [b for b in f.body if not (isinstance(b, ast.Expr) and isinstance(b.value, ast.Constant))]
        a = f.args
        static = any(dotted_name(d) == "staticmethod" for d in f.decorator_list)
        is_method = parent(f) is tcls and not static
        n_pos = len(a.args) + len(a.posonlyargs) - (1 if is_method else 0)
        if len(body) == 1 and isinstance(body[0], ast.Return) and body[0].value is not None:
            return body[0].value, not (n_pos > 0 or a.kwonlyargs or a.vararg or a.kwarg)
    return None, False


def _is_none(e: Optional[ast.AST]) -> bool:
    return e is None or (isinstance(e, ast.Constant) and e.value is None)


def _defines(n, name: str) -> bool:
    """CFG node *n* (re)binds local *name* (assignment incl. tuple targets, for-target, with-as, except-as, walrus)."""
    a = n.ast
    if a is None:
        return False
    if n.kind == "stmt" and isinstance(a, (ast.Assign, ast.AnnAssign, ast.AugAssign)):
        tgts = a.targets if isinstance(a, ast.Assign) else [a.target]
        if any(isinstance(x, ast.Name) and x.id == name and isinstance(x.ctx, ast.Store) for t in tgts for x in ast.walk(t)):
            return True
    if n.kind == "for" and isinstance(a, (ast.For, ast.AsyncFor)) and any(isinstance(x, ast.Name) and x.id == name for x in ast.walk(a.target)):
        return True
    if n.kind == "with" and isinstance(a, (ast.With, ast.AsyncWith)) and any(
            it.optional_vars is not None and any(isinstance(x, ast.Name) and x.id == name for x in ast.walk(it.optional_vars)) for it in a.items):
        return True
    if n.kind == "except" and isinstance(a, ast.ExceptHandler) and a.name == name:
        return True
    part = n.part if n.part is not None else (a if n.kind == "stmt" else None)
    if part is not None and any(isinstance(x, ast.NamedExpr) and isinstance(x.target, ast.Name) and x.target.id == name for x in walk_no_nested(part)):
        return True
    if n.kind == "stmt" and isinstance(a, (ast.Delete, ast.Import, ast.ImportFrom) + FuncNode + (ast.ClassDef,)):
        return name in {getattr(a, "name", None)} | {x.id for x in ast.walk(a) if isinstance(x, ast.Name) and isinstance(x.ctx, ast.Del)} | {
            (al.asname or al.name).split(".")[0] for al in getattr(a, "names", []) if isinstance(al, ast.alias)}
    return False


class _Flow:
    """Def/use questions on one function, answered on its CFG (not on statement order)."""

    def __init__(self, fn: ast.AST):
        self.fn = fn
        self.g = CFG(fn, may_raise=lambda part: set())
        self._defs: Dict[str, List[int]] = {}

    def defs(self, name: str) -> List[int]:
        if name not in self._defs:
            self._defs[name] = [n.id for n in self.g.nodes if _defines(n, name)]
        return self._defs[name]

    def node_of(self, node: ast.AST) -> Optional[int]:
        """CFG node in which expression / statement *node* is evaluated."""
        cur: Optional[ast.AST] = node
        while cur is not None and cur is not self.fn:
            ids = self.g.nodes_for(cur)
            if ids:
                return ids[0]
            cur = parent(cur)
        return None

    def stale_between(self, names: Set[str], d: int, use: int) -> bool:
        """Some name of *names* can be rebound after node *d* ran and before *use* runs."""
        for nm in names:
            for x in self.defs(nm):
                if x == d:
                    continue
                starts = [t for t, _l in self.g.succ[x] if t != d]
                if x == use or use in self.g.reach(starts, blocked={d}) or use in starts:
                    # x == use: the use node itself rebinds the name only after evaluating (for-target): harmless
                    if x == use:
                        continue
                    return True
        return False

    def resolve(self, name: str, use: int, depth: int = 0) -> Optional[ast.AST]:
        """The expression local *name* stands for at node *use*: it has one reaching definition there, a plain
        ``name = expr``, and nothing *expr* reads has been rebound since (so *expr* evaluated now gives the same value)."""
        if depth > 4 or name == "self":
            return None
        ds = self.defs(name)
        reaching = []
        for d in ds:
            blocked = {o for o in ds if o != d and o != use}
            starts = [t for t, _l in self.g.succ[d]]
            if use in starts or use in self.g.reach(starts, blocked=blocked):
                reaching.append(d)
        if len(reaching) != 1:
            return None
        d = reaching[0]
        a = self.g.nodes[d].ast
        if self.g.nodes[d].kind != "stmt":
            return None
        if isinstance(a, ast.Assign) and len(a.targets) == 1 and isinstance(a.targets[0], ast.Name) and a.targets[0].id == name:
            v = a.value
        elif isinstance(a, ast.AnnAssign) and isinstance(a.target, ast.Name) and a.target.id == name and a.value is not None:
            v = a.value
        else:
            return None
        if any(isinstance(x, (ast.NamedExpr, ast.Yield, ast.YieldFrom, ast.Await)) for x in ast.walk(v)):
            return None
        v = self.expand(v, d, depth + 1)
        names = {x.id for x in ast.walk(v) if isinstance(x, ast.Name) and x.id != "self"}
        if self.stale_between(names, d, use):
            return None
        return v

    def expand(self, e: ast.AST, use: int, depth: int = 0) -> ast.AST:
        """*e* with named sub-conditions / aliases replaced by what they stand for at node *use*
        (through ``not`` / ``and`` / ``or`` / the arguments of fnmatch; anything else is left as written)."""
        if isinstance(e, ast.Name) and isinstance(e.ctx, ast.Load):
            v = self.resolve(e.id, use, depth)
            if v is not None and (isinstance(v, (ast.Name, ast.UnaryOp, ast.BoolOp, ast.Compare)) or dotted_name(v) is not None
                                  or (isinstance(v, ast.Call) and (is_match_call(v) or call_attr(v) == "bool"))):
                return v
            return e
        if isinstance(e, ast.UnaryOp) and isinstance(e.op, ast.Not):
            return ast.UnaryOp(op=e.op, operand=self.expand(e.operand, use, depth))
        if isinstance(e, ast.BoolOp):
            return ast.BoolOp(op=e.op, values=[self.expand(v, use, depth) for v in e.values])
        if is_match_call(e) and not e.keywords:
            return ast.Call(func=e.func, args=[self.expand(x, use, depth) for x in e.args], keywords=[])
        if isinstance(e, ast.Call) and isinstance(e.func, ast.Name) and e.func.id == "bool" and len(e.args) == 1 and not e.keywords:
            return self.expand(e.args[0], use, depth)
        return e

    def only_through(self, atom, targets: List[int]) -> Tuple[bool, List[str], int]:
        """*targets* are reachable from the entry only over a branch edge on which *atom* holds
        (tests are read with their named sub-conditions expanded)."""
        blocked_edges: Set[Tuple[int, str]] = set()
        guards = 0
        for n in self.g.nodes:
            if n.kind in ("if", "while") and n.part is not None:
                e = edges_guaranteeing(self.expand(n.part, n.id), atom)
                if e:
                    guards += 1
                for lab in e:
                    blocked_edges.add((n.id, lab))
        seen = self.g.reach([self.g.entry], blocked_edges=blocked_edges)
        for t in targets:
            if t in seen:
                return False, self.g.path_to(seen, t), guards
        return True, [], guards


class _HandOver:
    """Exactly-once hand-over and routing on the consumer side.

    ``analyse(fn, mode)``: in the generator (mode 'yield') a popped message is handed on by ``yield``; a helper of
    the subscription that pops and *returns* the message (mode 'return') hands it on by ``return`` and its call is a
    pop statement of the caller.  The routing obligation sits in the function that takes the queue out of the channel
    map (it knows the channel); for a queue received as parameter it sits at the call."""

    def __init__(self, R: Report, sp: "Prov", deque_bindings, binding_src, sub_pattern: str, r_once: str, r_route: str):
        self.R, self.sp, self.deque_bindings, self.binding_src = R, sp, deque_bindings, binding_src
        self.sub_pattern, self.r_once, self.r_route = sub_pattern, r_once, r_route
        self.done: Set[int] = set()
        self.summaries: Dict[str, Optional[dict]] = {}
        self.flows: Dict[int, _Flow] = {}

    def flow(self, fn: ast.AST) -> _Flow:
        if id(fn) not in self.flows:
            self.flows[id(fn)] = _Flow(fn)
        return self.flows[id(fn)]

    # -- helpers of the subscription that return the message they popped ---------------------------------
    def helper(self, name: str) -> Optional[dict]:
        if name in self.summaries:
            return self.summaries[name]
        self.summaries[name] = None  # recursion: not a source
        h = self.sp.methods[name]
        if any(isinstance(x, (ast.Yield, ast.YieldFrom)) for x in walk_no_nested(h)):
            return None
        s = self.analyse(h, "return")
        if not s["pops"]:
            self.done.discard(id(h))
            return None
        for chk in s["checks"]:
            chk()
        self.summaries[name] = s
        return s

    def make_atom(self, key: Optional[str]):
        pat = f"self.{self.sub_pattern}"

        def route_atom(e: ast.AST) -> Optional[bool]:
            if key is not None and is_match_call(e) and len(e.args) == 2 and not e.keywords:
                a, b = e.args
                if isinstance(a, ast.Name) and a.id == key and dotted_name(b) == pat:
                    return True
            return None
        return route_atom

    def routed_at(self, rfn: ast.AST, node: ast.AST, key: Optional[str]) -> Tuple[bool, List[str]]:
        """Statement of *node* in *rfn* is reachable only through a branch on which fnmatch(key, pattern) holds."""
        if key is None:
            return False, []
        fl = self.flow(rfn)
        nid = fl.node_of(stmt(node))
        if nid is None:
            return False, []
        holds_, path_, guards_ = fl.only_through(self.make_atom(key), [nid])
        return bool(holds_ and guards_ > 0), path_

    # -- one function ------------------------------------------------------------------------------------
    def analyse(self, fn: ast.AST, mode: str) -> dict:
        R, sp, r_once, r_route = self.R, self.sp, self.r_once, self.r_route
        self.done.add(id(fn))
        qn = f"{SUBSCRIPTION}.{fn.name}"
        checks: List = []
        binds = [(qv, lv, kv) for (_q, bfn, qv, lv, kv) in self.deque_bindings if bfn is fn]
        qvars = {b[0] for b in binds}
        params = {a.arg for a in fn.args.args + fn.args.kwonlyargs + fn.args.posonlyargs}
        fl = self.flow(fn)

        def source(v: Optional[ast.AST]) -> Optional[Tuple[Optional[str], ast.Call]]:
            """*v* evaluates to the message just taken out of a channel queue, or to a false value when the queue
            was empty: (local naming the queue | None when a helper selects the queue itself, the taking call)."""
            core = v
            if isinstance(core, ast.IfExp):
                if _is_none(core.orelse) and not _is_none(core.body):
                    core = core.body
                elif _is_none(core.body):
                    core = core.orelse
                else:
                    return None
            elif isinstance(core, ast.BoolOp) and isinstance(core.op, ast.And):
                core = core.values[-1]
            if not (isinstance(core, ast.Call) and isinstance(core.func, ast.Attribute) and isinstance(core.func.value, ast.Name)):
                return None
            f = core.func
            if f.attr in ("pop", "popleft") and f.value.id in qvars:
                return f.value.id, core
            if f.value.id == "self" and f.attr in sp.methods and sp.methods[f.attr] is not fn:
                s = self.helper(f.attr)
                if s is None:
                    return None
                h = sp.methods[f.attr]
                hp = [a.arg for a in h.args.args][1:]
                passed: Dict[str, ast.AST] = {}
                for i, a in enumerate(core.args):
                    if i < len(hp):
                        passed[hp[i]] = a
                for k in core.keywords:
                    if k.arg:
                        passed[k.arg] = k.value
                mine: Set[str] = set()
                for pq in s["qparams"]:
                    a = passed.get(pq)
                    if not (isinstance(a, ast.Name) and a.id in qvars):
                        return None
                    mine.add(a.id)
                if len(mine) > 1:
                    return None
                return (next(iter(mine)) if mine else None), core
            return None

        # pop statements: ``m = <source>``; in a helper also ``return <source>``
        pop_stmts: List[Tuple[ast.AST, Optional[str], Optional[str], ast.Call]] = []  # (stmt, message local, queue local, call)
        for n in walk_no_nested(fn):
            tgt = val = None
            if isinstance(n, ast.Assign) and len(n.targets) == 1 and isinstance(n.targets[0], ast.Name):
                tgt, val = n.targets[0].id, n.value
            elif isinstance(n, ast.AnnAssign) and isinstance(n.target, ast.Name) and n.value is not None:
                tgt, val = n.target.id, n.value
            elif isinstance(n, ast.Return) and mode == "return" and not _is_none(n.value):
                val = n.value
            if val is None:
                continue
            src = source(val)
            if src is not None:
                pop_stmts.append((n, tgt, src[0], src[1]))
        msg_vars = {m for _s, m, _q, _c in pop_stmts if m is not None}
        taken = {id(c) for _s, _m, _q, c in pop_stmts}

        # every call that takes a message out of a queue is such a statement (the message is not dropped on the floor)
        for c in walk_no_nested(fn):
            if not (isinstance(c, ast.Call) and isinstance(c.func, ast.Attribute) and isinstance(c.func.value, ast.Name)) or id(c) in taken:
                continue
            f = c.func
            is_take = (f.attr in ("pop", "popleft") and f.value.id in qvars) or (
                f.value.id == "self" and f.attr in sp.methods and sp.methods[f.attr] is not fn and self.summaries.get(f.attr))
            if is_take:
                checks.append(lambda c=c: R.violation(r_once, F, qn, norm(stmt(c)) + " [taken]", "a message is taken out of a channel queue but not kept in a local that is handed on (it can only be lost)", c.lineno))

        # a message local has no definition other than pop statements and ``= None``
        dirty: Set[str] = set()
        pop_nodes = {id(s) for s, _m, _q, _c in pop_stmts}
        for m in msg_vars:
            for d in fl.defs(m):
                a = fl.g.nodes[d].ast
                if id(a) in pop_nodes:
                    continue
                if fl.g.nodes[d].kind == "stmt" and isinstance(a, (ast.Assign, ast.AnnAssign)) and _is_none(a.value) and a.value is not None:
                    continue
                dirty.add(m)

        def message_of(e: Optional[ast.AST], use: Optional[int]) -> Optional[str]:
            """The message local *e* stands for at node *use* (itself, or a current alias of it)."""
            if isinstance(e, ast.Name) and e.id in msg_vars:
                return e.id
            if isinstance(e, ast.Name) and use is not None:
                v = fl.resolve(e.id, use)
                if isinstance(v, ast.Name) and v.id in msg_vars:
                    return v.id
            return None

        # hand-over sites
        hands: List[Tuple[ast.AST, Optional[str]]] = []  # (statement, message local | None = not a popped message)
        for n in walk_no_nested(fn):
            if isinstance(n, ast.Yield):
                st_ = stmt(n)
                m = message_of(n.value, fl.node_of(st_))
                ok = mode == "yield" and m is not None and m not in dirty
                hands.append((st_, m))
                checks.append(lambda ok=ok, st_=st_, n=n: R.check(bool(ok), r_once, F, qn, norm(st_), "a yielded value is not (only) the message just popped from the queue", n.lineno))
            elif isinstance(n, ast.YieldFrom):
                st_ = stmt(n)
                hands.append((st_, None))
                checks.append(lambda st_=st_, n=n: R.violation(r_once, F, qn, norm(st_), "a yielded value is not (only) the message just popped from the queue", n.lineno))
            elif isinstance(n, ast.Return) and mode == "return" and not _is_none(n.value):
                if id(n) in pop_nodes:
                    hands.append((n, None))
                    checks.append(lambda n=n: R.ok(r_once, F, qn, norm(n), "returns the message it pops", n.lineno))
                    continue
                m = message_of(n.value, fl.node_of(n))
                ok = m is not None and m not in dirty
                hands.append((n, m))
                checks.append(lambda ok=ok, n=n: R.check(bool(ok), r_once, F, qn, norm(n), "a helper of the consumer returns something else than the message it just popped from the queue (or None)", n.lineno))
        hand_ids = {id(s) for s, _m in hands}

        # exactly one hand-over between a pop and the next (re)definition of the message local / the end
        aliases = {x.id for x in ast.walk(fn) if isinstance(x, ast.Name) and isinstance(x.ctx, ast.Store) and x.id not in msg_vars
                   and all(fl.g.nodes[d].kind == "stmt" and isinstance(fl.g.nodes[d].ast, ast.Assign) and isinstance(fl.g.nodes[d].ast.value, ast.Name)
                           and fl.g.nodes[d].ast.value.id in msg_vars for d in fl.defs(x.id)) and len(fl.defs(x.id)) == 1}
        msg_like = msg_vars | aliases

        def fold(test: ast.AST) -> Optional[bool]:
            names = {n.id for n in ast.walk(test) if isinstance(n, ast.Name)}
            if names and names <= msg_like and not any(isinstance(n, ast.Call) for n in ast.walk(test)):
                if isinstance(test, ast.Name):
                    return True
                if isinstance(test, ast.Compare) and len(test.ops) == 1 and isinstance(test.ops[0], ast.IsNot) and isinstance(test.comparators[0], ast.Constant):
                    return True
                if isinstance(test, ast.UnaryOp) and isinstance(test.op, ast.Not):
                    return False
                if isinstance(test, ast.Compare) and len(test.ops) == 1 and isinstance(test.ops[0], ast.Is) and isinstance(test.comparators[0], ast.Constant):
                    return False
            return None

        g = CFG(fn, fold=fold, may_raise=lambda part: set())
        sink_ids = [n.id for n in g.nodes if any(_defines(n, m) for m in msg_vars)]
        is_hand = lambda n: n.ast is not None and n.kind == "stmt" and id(n.ast) in hand_ids
        for ps, m, _q, _c in pop_stmts:
            pn = g.nodes_for(ps)
            if not pn or isinstance(ps, ast.Return):
                continue
            starts = [t for t, lab in g.succ[pn[0]] if lab == "n"]
            saved = {sid: g.succ[sid] for sid in sink_ids}
            for sid in sink_ids:
                g.succ[sid] = []
            try:
                cnt = g.counts(starts, is_hand, count_start=True)
            finally:
                for sid, v in saved.items():
                    g.succ[sid] = v
            got = set(cnt.get(g.ret_exit, set()))
            for sid in sink_ids:
                got |= cnt.get(sid, set())
            verb = "yielded" if mode == "yield" else "returned"
            checks.append(lambda got=got, ps=ps, verb=verb: R.check(got <= {1} and bool(got), r_once, F, qn, norm(ps) + (" -> yield" if verb == "yielded" else " -> return"),
                          f"between popping a message and the next pop / end of iteration the message is {verb} {sorted(got)} time(s) (0 = lost, 2 = duplicated)", ps.lineno))

        # routing: per queue local this function pops from
        qparams: Set[str] = set()
        for qv, lv, kv in binds:
            mine = [(s, m) for s, m, q, _c in pop_stmts if q == qv]
            if not mine:
                continue
            if qv in params:
                qparams.add(qv)  # the caller knows the channel: its call is a pop statement there
                continue
            my_msgs = {m for _s, m in mine}
            targets = [s for s, _m in mine] + [s for s, m in hands if m is None or m in my_msgs]
            if kv is not None:
                ids = [i for i in (fl.node_of(s) for s in targets) if i is not None]
                holds, path, guards = fl.only_through(self.make_atom(kv), ids)
                checks.append(lambda holds=holds, path=path, guards=guards, kv=kv: R.check(
                    holds and guards > 0, r_route, F, qn, f"fnmatch({kv}, self.{self.sub_pattern}) dominates pop and {'yield' if mode == 'yield' else 'return'}",
                    "a message can be taken from / yielded for a channel that does not match the subscription pattern", fn.lineno, path))
                continue
            # the consumer iterates over entries selected elsewhere (helper, generator, cached list):
            # the routing obligation sits where an entry is selected
            src = self.binding_src.get((id(fn), qv))
            sites = sp.origins(src, fn) if src is not None else []
            if not sites:
                checks.append(lambda src=src: R.violation(r_route, F, qn, norm(src) if src is not None else "queue source",
                              "the consumer's queues are not selected by fnmatch(<channel>, self.<pattern>) anywhere", fn.lineno))
            for sfn, node, key, how in sites:
                sqn = f"{SUBSCRIPTION}.{getattr(sfn, 'name', '?')}"
                if how == "comp":
                    ok_r = key is not None and any(
                        "T" in edges_guaranteeing(cond, self.make_atom(key)) for gen in node.generators for cond in gen.ifs)
                    path_r: List[str] = []
                elif how == "site":
                    ok_r, path_r = self.routed_at(sfn, node, key)
                else:
                    ok_r, path_r = False, []
                checks.append(lambda ok_r=ok_r, sqn=sqn, node=node, path_r=path_r: R.check(
                    ok_r, r_route, F, sqn, norm(stmt(node)) + " [selects a queue for the consumer]",
                    "a channel's queue is handed to the consumer without fnmatch(<its channel>, self.<pattern>) holding: messages of channels that do not match the subscription pattern are yielded", getattr(node, "lineno", 0), path_r))
        return {"pops": pop_stmts, "checks": checks, "qparams": qparams}


def _nonempty_atom(qv: str):
    """Polarity of a test as a statement about ``<qv> is non-empty``."""
    def is_len(e: ast.AST) -> bool:
        return (isinstance(e, ast.Call) and not e.keywords and len(e.args) == 1 and isinstance(e.args[0], ast.Name) and e.args[0].id == qv
                and ((isinstance(e.func, ast.Name) and e.func.id in ("len", "bool")) or False)) or (
            isinstance(e, ast.Call) and isinstance(e.func, ast.Attribute) and e.func.attr in ("__len__", "__bool__")
            and isinstance(e.func.value, ast.Name) and e.func.value.id == qv and not e.args)

    def atom(e: ast.AST) -> Optional[bool]:
        if isinstance(e, ast.Name) and e.id == qv:
            return True
        if is_len(e):
            return True
        if isinstance(e, ast.Compare) and len(e.ops) == 1 and isinstance(e.comparators[0], ast.Constant) and is_len(e.left):
            op, k = e.ops[0], e.comparators[0].value
            if (isinstance(op, (ast.Gt, ast.NotEq)) and k == 0) or (isinstance(op, ast.GtE) and k == 1):
                return True
            if (isinstance(op, (ast.Eq, ast.LtE)) and k == 0) or (isinstance(op, ast.Lt) and k == 1):
                return False
        if isinstance(e, ast.Compare) and len(e.ops) == 1 and isinstance(e.left, ast.Constant) and is_len(e.comparators[0]):
            op, k = e.ops[0], e.left.value
            if (isinstance(op, (ast.Lt, ast.NotEq)) and k == 0) or (isinstance(op, ast.LtE) and k == 1):
                return True
            if (isinstance(op, (ast.Eq, ast.GtE)) and k == 0) or (isinstance(op, ast.Gt) and k == 1):
                return False
        return None
    return atom


def _pop_guarded(fn: ast.AST, w: ast.AST, pop: ast.Call, qv: str) -> bool:
    """Inside the critical section *w* the pop only runs when a test made inside *w* found the deque non-empty
    (whatever way round the test is written), or an IndexError of the pop is caught."""
    atom = _nonempty_atom(qv)
    prev: ast.AST = pop
    for a in ancestors(pop):
        if a is w:
            break
        if isinstance(a, ast.IfExp):
            g_ = edges_guaranteeing(a.test, atom)
            if ("T" in g_ and _within(pop, a.body)) or ("F" in g_ and _within(pop, a.orelse)):
                return True
        if isinstance(a, ast.BoolOp) and isinstance(a.op, ast.And):
            idx = next((i for i, v in enumerate(a.values) if _within(pop, v)), 0)
            if any("T" in edges_guaranteeing(v, atom) for v in a.values[:idx]):
                return True
        if isinstance(a, ast.Try) and any(_within(pop, s) for s in a.body) and any(h.type is None or "IndexError" in ast.unparse(h.type) for h in a.handlers):
            return True
        prev = a
    g = CFG(fn, may_raise=lambda part: set())
    wn = g.nodes_for(w)
    if not wn and isinstance(w, ast.Try) and w.body:
        wn = g.nodes_for(w.body[0])  # critical section spelled acquire/try/finally: it starts at the first statement of the body
    st_ = stmt(pop)
    pn = g.nodes_for(st_)
    if not wn or not pn:
        return False
    blocked: Set[Tuple[int, str]] = set()
    for n in g.nodes:
        if n.kind in ("if", "while") and n.part is not None and n.ast is not None and _within(n.ast, w):
            for lab in edges_guaranteeing(n.part, atom):
                blocked.add((n.id, lab))
    if not blocked:
        return False
    seen = g.reach(wn, blocked_edges=blocked)
    return not any(p_ in seen for p_ in pn)


def _guarded_creation(sub: ast.Subscript, lock: str, is_map) -> bool:
    """The store ``M[k] = ...`` lies, within ``with <lock>:``, on a branch on which ``k`` is known to have no entry."""
    w = enclosing_with(sub, lock)
    if w is None:
        return False
    key = ast.dump(sub.slice)
    st_ = stmt(sub)

    def lookup(e: ast.AST) -> bool:
        if isinstance(e, ast.NamedExpr):
            e = e.value
        return (isinstance(e, ast.Call) and isinstance(e.func, ast.Attribute) and e.func.attr == "get" and is_map(e.func.value)
                and len(e.args) in (1, 2) and ast.dump(e.args[0]) == key
                and (len(e.args) == 1 or (isinstance(e.args[1], ast.Constant) and e.args[1].value is None)))

    def fresh(name: str, before: ast.AST) -> bool:
        """every assignment of *name* inside the critical section before *before* is a lookup of the key (at least one)."""
        defs = []
        for a in ast.walk(w):
            if isinstance(a, ast.Assign):
                names = [t.id for t in a.targets if isinstance(t, ast.Name)]
            elif isinstance(a, ast.NamedExpr) and isinstance(a.target, ast.Name):
                names = [a.target.id]
            else:
                continue
            inside_branches = isinstance(before, ast.If) and any(_within(a, s_) for s_ in before.body + before.orelse)
            if name in names and getattr(a, "lineno", 0) <= getattr(before, "end_lineno", getattr(before, "lineno", 0)) and not inside_branches:
                defs.append(a)
        return bool(defs) and all(lookup(a.value) for a in defs)

    def mk_atom(at: ast.AST):
        def is_val(e: ast.AST) -> bool:
            return lookup(e) or (isinstance(e, ast.Name) and fresh(e.id, at))

        def atom(e: ast.AST) -> Optional[bool]:
            if isinstance(e, ast.Compare) and len(e.ops) == 1:
                op, l, r = e.ops[0], e.left, e.comparators[0]
                if isinstance(op, (ast.In, ast.NotIn)) and ast.dump(l) == key and is_map(r):
                    return isinstance(op, ast.NotIn)
                if isinstance(r, ast.Constant) and r.value is None and is_val(l):
                    if isinstance(op, (ast.Is, ast.Eq)):
                        return True
                    if isinstance(op, (ast.IsNot, ast.NotEq)):
                        return False
            if is_val(e):
                return False  # an entry is a non-empty tuple: truthy <=> present
            return None
        return atom

    cur: ast.AST = st_
    for a in ancestors(st_):
        if a is w:
            break
        if isinstance(a, ast.If):
            g = edges_guaranteeing(a.test, mk_atom(a))
            if ("T" in g and any(_within(st_, s) for s in a.body)) or ("F" in g and any(_within(st_, s) for s in a.orelse)):
                return True
        if isinstance(a, ast.ExceptHandler) and a.type is not None and "KeyError" in ast.unparse(a.type):
            t = parent(a)
            if isinstance(t, ast.Try) and any(isinstance(x, ast.Subscript) and isinstance(x.ctx, ast.Load) and is_map(x.value) and ast.dump(x.slice) == key for s in t.body for x in ast.walk(s)):
                return True
        cur = a
    return False


def stmt(n: ast.AST) -> ast.AST:
    from ..engine import stmt_of
    return stmt_of(n)


def _entry_param(fl: "_Flow", fn: ast.AST, e: ast.AST, use: Optional[int]) -> Tuple[Optional[str], List[ast.AST], ast.AST]:
    """What expression *e* stands for at CFG node *use* of *fn*:
    (parameter of *fn* it names - directly or through locals bound to it - | None,
     statements that rebind that parameter and can run before *use* (empty = *e* is the caller's argument unchanged),
     the expression after resolving locals, for messages)."""
    a = fn.args
    params = [x.arg for x in a.posonlyargs + a.args + a.kwonlyargs]
    annotated_str = {x.arg for x in a.posonlyargs + a.args + a.kwonlyargs if isinstance(x.annotation, ast.Name) and x.annotation.id == "str"}

    def unwrap(x: ast.AST) -> ast.AST:
        # ``str(p)`` of a parameter declared ``p: str`` is p
        while (isinstance(x, ast.Call) and isinstance(x.func, ast.Name) and x.func.id == "str" and len(x.args) == 1 and not x.keywords
               and isinstance(x.args[0], ast.Name) and x.args[0].id in annotated_str):
            x = x.args[0]
        # ``p if p is not None else <default>`` / ``<default> if p is None else p`` is p whenever an argument was given
        if (isinstance(x, ast.IfExp) and isinstance(x.test, ast.Compare) and len(x.test.ops) == 1 and isinstance(x.test.left, ast.Name)
                and x.test.left.id in params and _is_none(x.test.comparators[0]) and x.test.comparators[0] is not None):
            keep_ = x.body if isinstance(x.test.ops[0], ast.IsNot) else x.orelse if isinstance(x.test.ops[0], ast.Is) else None
            if isinstance(keep_, ast.Name) and keep_.id == x.test.left.id:
                return keep_
        return x

    shown = unwrap(e)
    if isinstance(shown, ast.Name) and shown.id not in params and use is not None:
        v = fl.resolve(shown.id, use)
        if v is not None:
            shown = unwrap(v)
    if not (isinstance(shown, ast.Name) and shown.id in params) or use is None:
        return None, [], shown
    def none_atom(t: ast.AST) -> Optional[bool]:
        if (isinstance(t, ast.Compare) and len(t.ops) == 1 and isinstance(t.left, ast.Name) and t.left.id == shown.id
                and _is_none(t.comparators[0]) and t.comparators[0] is not None):
            return True if isinstance(t.ops[0], ast.Is) else False if isinstance(t.ops[0], ast.IsNot) else None
        return None

    rebinds: List[ast.AST] = []
    for d in fl.defs(shown.id):
        starts = [t for t, _l in fl.g.succ[d]]
        if use in starts or use in fl.g.reach(starts):
            if fl.g.nodes[d].ast is not None:
                # a default filled in on a branch only an omitted argument (``p is None``) takes rewrites no argument given
                only_none, _path, guards = fl.only_through(none_atom, [d])
                if only_none and guards > 0:
                    continue
                a_ = fl.g.nodes[d].ast
                if (fl.g.nodes[d].kind == "stmt" and isinstance(a_, ast.Assign) and len(a_.targets) == 1 and isinstance(a_.targets[0], ast.Name)
                        and isinstance(unwrap(a_.value), ast.Name) and unwrap(a_.value).id == shown.id):
                    continue  # ``p = p if p is not None else <default>``
                rebinds.append(fl.g.nodes[d].ast)
    return shown.id, rebinds, shown


def _other_bindings(tree: ast.AST, name: str) -> List[ast.AST]:
    """Binding sites of *name* anywhere in the module other than import statements."""
    out: List[ast.AST] = []
    for n in ast.walk(tree):
        if isinstance(n, FuncNode + (ast.ClassDef,)) and n.name == name:
            out.append(n)
        elif isinstance(n, ast.Name) and n.id == name and isinstance(n.ctx, (ast.Store, ast.Del)):
            out.append(stmt(n))
        elif isinstance(n, ast.arg) and n.arg == name:
            out.append(n)
        elif isinstance(n, ast.ExceptHandler) and n.name == name:
            out.append(n)
    return out


def _mentions(e: ast.AST, name: str) -> bool:
    return any(isinstance(n, ast.Name) and n.id == name for n in ast.walk(e))


def _within(n: ast.AST, root: ast.AST) -> bool:
    return any(x is n for x in ast.walk(root))
