"""Remaining C04 rules (D1, D2, D3a, D4) - filled in below."""
from ..engine import Repo
from ..report import Report


def run(repo: Repo, R: Report) -> None:
    return None
