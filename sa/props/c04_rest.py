"""C04 rules D1 (no ambient inputs), D2 (key-order insensitivity), D4 (same functions on both paths),
D5 (commutative normalisation = the C12 rules)."""
from __future__ import annotations

import ast
from typing import Dict, List, Optional, Set, Tuple

from ..engine import (
    AnalysisError,
    FuncNode,
    Repo,
    ancestors,
    assigned_value,
    call_attr,
    call_name,
    calls_in,
    dotted_name,
    kwarg,
    norm,
    qualname_of,
    slice_text,
    stmt_of,
    walk_no_nested,
)
from ..normal import nfunc
from ..report import Report

GRAPH = "semantiva/pipeline/graph_builder.py"
SEM = "semantiva/metadata/semantic_id.py"
SWEEP = "semantiva/data_processors/parametric_sweep_factory.py"
BUILDER = "semantiva/inspection/builder.py"
ORCH = "semantiva/execution/orchestrator/orchestrator.py"
IDENT = "semantiva/trace/runtime/run_space_identity.py"
PREP = "semantiva/pipeline/node_preprocess.py"
DESC = "semantiva/registry/descriptors.py"

AMBIENT_PREFIXES = ("time.", "random.", "secrets.", "datetime.", "os.environ", "os.getpid", "os.getcwd", "os.urandom", "socket.", "platform.", "getpass.")
AMBIENT_CALLS = {"uuid.uuid1", "uuid.uuid4", "uuid.uuid7", "uuid1", "uuid4", "id", "hash", "getpid", "getcwd", "time", "now", "utcnow", "today", "urandom", "random", "randint", "token_hex", "perf_counter", "monotonic"}
# hashing helpers and who may use which id prefix
PREFIX_OWNERS = {"plid-": (GRAPH, "compute_pipeline_id"), "plsemid-": (SEM, "compute_pipeline_semantic_id"), "plcid-": (SEM, "compute_pipeline_config_id")}


def identity_slice(repo: Repo) -> List[Tuple[str, str, ast.AST]]:
    """Functions whose code determines an identity (call-graph closure inside the package)."""
    roots: List[Tuple[str, str]] = [
        (GRAPH, "build_canonical_spec"), (GRAPH, "_canonical_node"), (GRAPH, "compute_pipeline_id"), (GRAPH, "compute_upstream_map"),
        (SEM, "compute_node_semantic_id"), (SEM, "compute_pipeline_config_id"), (SEM, "compute_pipeline_semantic_id"),
        (SEM, "normalize_expression_sig_v1"), (SEM, "_dump_ast_commutative"), (SEM, "variable_domain_signature"), (SEM, "_sha256_json"), (SEM, "_strip_ui_only"),
        (BUILDER, "build_inspection_payload"), (BUILDER, "_compute_run_space_spec_id"), (BUILDER, "_normalize_run_space"), (BUILDER, "_collect_required_context_keys"), (BUILDER, "_build_sweep_payload"),
        (IDENT, "RunSpaceIdentityService._rscf_v1"), (IDENT, "RunSpaceIdentityService._hash"),
        (DESC, "descriptor_to_json"), (PREP, "preprocess_node_config"),
    ]
    out = []
    seen = set()
    for rel, qn in roots:
        f = repo.maybe_func(rel, qn)
        if f is None:
            raise AnalysisError(f"identity slice anchor vanished: {rel}:{qn}")
        out.append((rel, qn, f))
        seen.add(id(f))
        # nested helpers
        for n in ast.walk(f):
            if isinstance(n, FuncNode) and n is not f and id(n) not in seen:
                seen.add(id(n))
                out.append((rel, qualname_of(n), n))
    create = repo.func(SWEEP, "ParametricSweepFactory.create")
    pm = next((n for n in ast.walk(create) if isinstance(n, FuncNode) and n.name == "_preprocessor_metadata"), None)
    if pm is None:
        raise AnalysisError("_preprocessor_metadata vanished")
    out.append((SWEEP, qualname_of(pm), pm))
    return out


# ---------------------------------------------------------------------------
# D3a process-lifetime state
# ---------------------------------------------------------------------------
STATE_EXEMPT = ("semantiva/registry/", "semantiva/logger/", "semantiva/exceptions/")  # name -> class resolution tables, logging
MUTABLE_CTORS = {"dict", "list", "set", "defaultdict", "OrderedDict", "WeakValueDictionary", "WeakKeyDictionary", "WeakSet", "deque", "Counter", "ChainMap", "bytearray"}


def _is_container_expr(v: Optional[ast.AST]) -> bool:
    if isinstance(v, (ast.Dict, ast.List, ast.Set, ast.DictComp, ast.ListComp, ast.SetComp)):
        return True
    return isinstance(v, ast.Call) and call_attr(v) in MUTABLE_CTORS


def _bindings(body: List[ast.stmt]) -> Dict[str, ast.AST]:
    out: Dict[str, ast.AST] = {}
    for st in body:
        if isinstance(st, (ast.If, ast.Try)):
            for blk in (st.body, st.orelse, getattr(st, "finalbody", [])):
                out.update(_bindings(blk))
            continue
        pairs = [(t, st.value) for t in st.targets] if isinstance(st, ast.Assign) else [(st.target, st.value)] if isinstance(st, ast.AnnAssign) else []
        for t, v in pairs:
            if isinstance(t, ast.Name) and _is_container_expr(v):
                out[t.id] = st
    return out


def _local_names(fn: ast.AST) -> Set[str]:
    """Names that are local to *fn* (parameters and stores without a global declaration), nested scopes excluded."""
    a = fn.args
    out = {x.arg for x in a.posonlyargs + a.args + a.kwonlyargs}
    out |= {x.arg for x in (a.vararg, a.kwarg) if x is not None}
    globs: Set[str] = set()
    for n in walk_no_nested(fn):
        if isinstance(n, (ast.Global, ast.Nonlocal)):
            globs |= set(n.names)
        elif isinstance(n, ast.Name) and isinstance(n.ctx, (ast.Store, ast.Del)):
            out.add(n.id)
        elif isinstance(n, ast.ExceptHandler) and n.name:
            out.add(n.name)
        elif isinstance(n, (ast.Import, ast.ImportFrom)):
            out |= {(al.asname or al.name).split(".")[0] for al in n.names}
    return out - globs


def _cell_of(container: ast.AST) -> Optional[Tuple[str, ...]]:
    """('name', X) / ('attr', receiver, X) for the object a mutated container expression is reached from."""
    e = container
    while True:
        if isinstance(e, ast.Subscript):
            e = e.value
        elif isinstance(e, ast.Call) and isinstance(e.func, ast.Attribute) and e.func.attr in ("get", "setdefault"):
            e = e.func.value
        else:
            break
    if isinstance(e, ast.Name):
        return ("name", e.id)
    if isinstance(e, ast.Attribute) and isinstance(e.value, ast.Name):
        return ("attr", e.value.id, e.attr)
    return None


def _imported_names(repo: Repo, mod) -> List[Tuple[str, str, object]]:
    """(alias, name, origin module) for `from <module of the package> import name [as alias]`."""
    cached = getattr(mod, "_c04_imported", None)
    if cached is None:
        cached = []
        for alias, target in mod.imports.items():
            head, _, nm = target.rpartition(".")
            origin = repo.by_dotted.get(head)
            if origin is not None and origin is not mod and nm:
                cached.append((alias, nm, origin))
        mod._c04_imported = cached  # type: ignore[attr-defined]
    return cached


def _static_classes(mod) -> Dict[str, ast.ClassDef]:
    """Classes of the module that exist once per process (not created inside a function)."""
    return {c.name: c for c in ast.walk(mod.tree) if isinstance(c, ast.ClassDef) and not any(isinstance(a, FuncNode) for a in ancestors(c))}


def _class_of_receiver(recv: str, fn: ast.AST, classes: Dict[str, ast.ClassDef], local: Set[str]) -> Optional[str]:
    if recv in ("cls", "self"):
        for a in ancestors(fn):
            if isinstance(a, ast.ClassDef):
                return a.name if classes.get(a.name) is a else None
            if isinstance(a, FuncNode):
                return None
        return None
    return recv if recv in classes and recv not in local else None


def process_state_cells(repo: Repo, mod) -> Dict[Tuple[str, ...], Tuple[ast.AST, str]]:
    """Module-level names and class-level attributes of *mod* that hold process-lifetime mutable state:
    a module-level name bound to a container (or rebound under ``global``) / an attribute of a class that exists
    once per process, written by some function at run time (store, delete, mutator call, rebinding).
    Keys ('name', X) / ('attr', Class, X); value: (a write site, writer qualname)."""
    from .c04 import mutation_targets

    cached = getattr(mod, "_c04_state_cells", None)
    if cached is not None:
        return cached
    names = dict(_bindings(mod.tree.body))
    for alias, origin_name, origin in _imported_names(repo, mod):  # a container imported from another module of the package
        if origin_name in _bindings(origin.tree.body):
            names.setdefault(alias, origin.tree)
    classes = _static_classes(mod)
    cells: Dict[Tuple[str, ...], Tuple[ast.AST, str]] = {}
    for f in ast.walk(mod.tree):
        if not isinstance(f, FuncNode):
            continue
        local = _local_names(f)
        for n in walk_no_nested(f):
            if isinstance(n, ast.Global):
                for nm in n.names:
                    cells.setdefault(("name", nm), (n, qualname_of(f)))
            # rebinding a class attribute at run time: cls.X = ... / Class.X = ...
            tgts = list(n.targets) if isinstance(n, ast.Assign) else [n.target] if isinstance(n, (ast.AugAssign, ast.AnnAssign)) else []
            for t in tgts:
                if isinstance(t, ast.Attribute) and isinstance(t.value, ast.Name) and t.value.id != "self" and not t.attr.startswith("__"):
                    owner = _class_of_receiver(t.value.id, f, classes, local)
                    if owner is not None:
                        cells.setdefault(("attr", owner, t.attr), (n, qualname_of(f)))
        muts = list(mutation_targets(f))
        for c in calls_in(f):
            if isinstance(c.func, ast.Attribute) and c.func.attr == "pop":
                muts.append((stmt_of(c), c.func.value))
        for st, container in muts:
            cell = _cell_of(container)
            if cell is None:
                continue
            if cell[0] == "name" and cell[1] in names and cell[1] not in local:
                cells.setdefault(cell, (st, qualname_of(f)))
            elif cell[0] == "attr":
                owner = _class_of_receiver(cell[1], f, classes, local)
                # a container created in the class body is shared by the class and all its instances
                if owner is not None and cell[2] in _bindings(classes[owner].body):
                    cells.setdefault(("attr", owner, cell[2]), (st, qualname_of(f)))
    mod._c04_state_cells = cells  # type: ignore[attr-defined]
    return cells


SINK_MUTATORS = {"append", "extend", "add", "update", "insert", "appendleft", "clear", "discard", "remove", "__setitem__"}


def _write_only_use(n: ast.AST) -> bool:
    """The occurrence *n* (a Name or `recv.attr`) only designates the cell being written: a store / delete target, or
    the receiver of a mutator whose result is discarded (`X[k] = v`, `del X[k]`, `X.append(v)` as a statement).
    Such an occurrence brings no earlier state into the computation."""
    if isinstance(getattr(n, "ctx", None), (ast.Store, ast.Del)):
        return True
    cur, par = n, getattr(n, "_parent", None)
    while isinstance(par, ast.Subscript) and par.value is cur:
        if isinstance(par.ctx, (ast.Store, ast.Del)):
            return not isinstance(getattr(par, "_parent", None), ast.AugAssign)
        cur, par = par, getattr(par, "_parent", None)
    if cur is n and isinstance(par, ast.Attribute) and par.value is n and par.attr in SINK_MUTATORS:
        call = getattr(par, "_parent", None)
        return isinstance(call, ast.Call) and call.func is par and isinstance(getattr(call, "_parent", None), ast.Expr)
    return False


def no_process_state(repo: Repo, R: Report, sl: List[Tuple[str, str, ast.AST]]) -> None:
    """C04-D3a: nothing the identities are computed from lives longer than the call."""
    r = R.rule("C04-D3a-no-process-state", "no function reachable from the identity slice reads a module-level name or class attribute that holds state written at run time (memo, cache, counter): an identity is a function of the configuration, not of what was built or run earlier in the process; registries that resolve names to classes are exempt", 40)
    roots = [(repo.module(rel), f) for rel, _qn, f in sl]
    clo = repo.call_graph_closure(roots, stop=lambda m, n: m.rel.startswith(STATE_EXEMPT))
    for m, f, _path in sorted(clo.values(), key=lambda t: (t[0].rel, getattr(t[1], "lineno", 0))):
        if m.rel.startswith(STATE_EXEMPT):
            continue
        cells = process_state_cells(repo, m)
        qn = qualname_of(f)
        bad: List[Tuple[ast.AST, str, Tuple[ast.AST, str]]] = []
        imported = {alias: (nm, origin) for alias, nm, origin in _imported_names(repo, m)}
        if cells or imported:
            local = _local_names(f)
            classes = _static_classes(m)
            for n in walk_no_nested(f):
                if _write_only_use(n):
                    continue
                if isinstance(n, ast.Name) and ("name", n.id) in cells and n.id not in local:
                    bad.append((n, n.id, cells[("name", n.id)]))
                elif isinstance(n, ast.Name) and n.id in imported and n.id not in local and ("name", imported[n.id][0]) in process_state_cells(repo, imported[n.id][1]):
                    bad.append((n, n.id, process_state_cells(repo, imported[n.id][1])[("name", imported[n.id][0])]))
                elif isinstance(n, ast.Attribute) and isinstance(n.value, ast.Name):
                    owner = _class_of_receiver(n.value.id, f, classes, local)
                    if owner is not None and ("attr", owner, n.attr) in cells:
                        bad.append((n, f"{owner}.{n.attr}", cells[("attr", owner, n.attr)]))
        if not bad:
            R.ok(r, m.rel, qn, f"{qn}: no process-lifetime state read", "", getattr(f, "lineno", 0))
            continue
        seen: Set[str] = set()
        for n, label, (site, writer) in bad:
            if label in seen:
                continue
            seen.add(label)
            st = stmt_of(n)
            R.violation(r, m.rel, qn, norm(st)[:110], f"`{label}` is process-lifetime mutable state (written by `{norm(site)[:70]}` in {writer}) and is read while an identity is computed: what was built or run earlier in the interpreter decides the value that is hashed, a fresh process gives another identity", getattr(n, "lineno", 0))


# ---------------------------------------------------------------------------
# D4 node fields written into the structure that compute_pipeline_semantic_id hashes
# ---------------------------------------------------------------------------
def _const_keys(fn: ast.AST, key: Optional[ast.AST]) -> List[str]:
    """Values a subscript key can take: the constant, the constants a loop variable ranges over, else '*'."""
    if isinstance(key, ast.Constant):
        return [str(key.value)]
    if isinstance(key, ast.Name):
        out: List[str] = []
        for n in ast.walk(fn):
            tgt, it = (n.target, n.iter) if isinstance(n, (ast.For, ast.comprehension)) else (None, None)
            if isinstance(tgt, ast.Name) and tgt.id == key.id:
                if isinstance(it, (ast.Tuple, ast.List, ast.Set)) and it.elts and all(isinstance(e, ast.Constant) for e in it.elts):
                    out.extend(str(e.value) for e in it.elts)
                else:
                    return ["*"]
        vals = assigned_value(fn, key.id)
        if vals and all(isinstance(v, ast.Constant) for v in vals) and not out:
            return [str(v.value) for v in vals]
        if out and not vals:
            return out
    return ["*"]


def _dict_expr_keys(fn: ast.AST, e: ast.AST) -> Optional[List[Tuple[str, ast.AST]]]:
    """Keys an expression adds on top of the mapping(s) it copies: {**node, 'k': v} -> k; dict(node, k=v) -> k;
    dict(node) / node.copy() / copy.deepcopy(node) -> none.  None when *e* is not a recognisable copy-and-extend."""
    if isinstance(e, ast.IfExp):
        a, b = _dict_expr_keys(fn, e.body), _dict_expr_keys(fn, e.orelse)
        return None if a is None or b is None else a + b
    if isinstance(e, ast.Dict):
        out = []
        for k, v in zip(e.keys, e.values):
            if k is None:
                if isinstance(v, (ast.Dict, ast.IfExp)):
                    sub = _dict_expr_keys(fn, v)
                    out.extend(sub or [])
                continue
            out.extend((kk, e) for kk in _const_keys(fn, k))
        return out
    if isinstance(e, ast.Call) and call_attr(e) in ("dict", "copy", "deepcopy", "OrderedDict"):
        return [(kw.arg or "*", e) for kw in e.keywords]
    if isinstance(e, ast.BinOp) and isinstance(e.op, ast.BitOr):
        a, b = _dict_expr_keys(fn, e.left), _dict_expr_keys(fn, e.right)
        return (a or []) + (b or [])
    return None


def hashed_node_fields(fn: ast.AST) -> Optional[Dict[str, ast.AST]]:
    """Fields this function writes into the node mappings of the spec it passes to compute_pipeline_semantic_id,
    on top of what build_canonical_spec put there.  {field: writing statement}; None when no such call exists.

    Roles, not names: <S> is the argument of compute_pipeline_semantic_id; <L> is what <S> holds under 'nodes';
    a node mapping is an element appended to <L>, the element of the comprehension that builds <L>, a loop variable
    over <L> / <S>['nodes'], or <S>['nodes'][i]."""
    from .c04 import mutation_targets

    calls = [c for c in calls_in(fn) if call_attr(c) == "compute_pipeline_semantic_id" and c.args]
    if not calls:
        return None
    fields: Dict[str, ast.AST] = {}
    spec_names: Set[str] = set()
    list_names: Set[str] = set()
    node_names: Set[str] = set()
    elem_exprs: List[ast.AST] = []

    def add_fields(e: ast.AST) -> None:
        for k, site in _dict_expr_keys(fn, e) or []:
            fields.setdefault(k, stmt_of(site))

    def nodes_value(e: ast.AST) -> None:  # the expression stored under 'nodes'
        if isinstance(e, ast.Name):
            if e.id not in list_names:
                list_names.add(e.id)
                for v in assigned_value(fn, e.id):
                    nodes_value(v)
        elif isinstance(e, (ast.ListComp, ast.GeneratorExp)):
            elem_exprs.append(e.elt)
        elif isinstance(e, (ast.List, ast.Tuple)):
            elem_exprs.extend(e.elts)
        elif isinstance(e, ast.Call) and call_attr(e) in ("list", "tuple") and e.args:
            nodes_value(e.args[0])
        elif isinstance(e, ast.IfExp):
            nodes_value(e.body)
            nodes_value(e.orelse)

    def spec_value(e: ast.AST) -> None:
        if isinstance(e, ast.Name):
            if e.id not in spec_names:
                spec_names.add(e.id)
                for v in assigned_value(fn, e.id):
                    spec_value(v)
        elif isinstance(e, ast.Dict):
            for k, v in zip(e.keys, e.values):
                if k is None:
                    spec_value(v)
                elif isinstance(k, ast.Constant) and k.value == "nodes":
                    nodes_value(v)
        elif isinstance(e, ast.IfExp):
            spec_value(e.body)
            spec_value(e.orelse)
        elif isinstance(e, ast.Call) and call_attr(e) in ("dict", "copy", "deepcopy") and (e.args or isinstance(e.func, ast.Attribute)):
            spec_value(e.args[0] if e.args else e.func.value)  # type: ignore[union-attr]
            for kw in e.keywords:
                if kw.arg == "nodes":
                    nodes_value(kw.value)

    for c in calls:
        spec_value(c.args[0])

    def is_nodes_expr(e: ast.AST) -> bool:
        if isinstance(e, ast.Name):
            return e.id in list_names
        if isinstance(e, ast.Subscript) and isinstance(e.slice, ast.Constant) and e.slice.value == "nodes":
            return isinstance(e.value, ast.Name) and e.value.id in spec_names
        if isinstance(e, ast.Call) and call_attr(e) == "get" and isinstance(e.func, ast.Attribute) and e.args and isinstance(e.args[0], ast.Constant) and e.args[0].value == "nodes":
            return isinstance(e.func.value, ast.Name) and e.func.value.id in spec_names
        if isinstance(e, ast.Call) and call_attr(e) in ("enumerate", "list", "iter", "reversed") and e.args:
            return is_nodes_expr(e.args[0])
        return False

    def is_node_expr(e: ast.AST) -> bool:
        if isinstance(e, ast.Name):
            return e.id in node_names
        return isinstance(e, ast.Subscript) and not isinstance(e.slice, ast.Slice) and is_nodes_expr(e.value)

    changed = True
    while changed:
        before = (len(list_names), len(node_names), len(elem_exprs))
        for n in walk_no_nested(fn):
            if isinstance(n, ast.Assign) and len(n.targets) == 1 and isinstance(n.targets[0], ast.Name):
                if is_nodes_expr(n.value) and not isinstance(n.value, ast.Name):
                    list_names.add(n.targets[0].id)
                if is_node_expr(n.value):
                    node_names.add(n.targets[0].id)
            if isinstance(n, (ast.For, ast.comprehension)) and is_nodes_expr(n.iter):
                tgt = n.target
                if isinstance(tgt, ast.Tuple) and isinstance(n.iter, ast.Call) and call_attr(n.iter) == "enumerate" and len(tgt.elts) == 2:
                    tgt = tgt.elts[1]
                if isinstance(tgt, ast.Name):
                    node_names.add(tgt.id)
            if isinstance(n, ast.Call) and isinstance(n.func, ast.Attribute) and n.func.attr in ("append", "insert") and is_nodes_expr(n.func.value) and n.args:
                el = n.args[-1]
                if el not in elem_exprs:
                    elem_exprs.append(el)
        for el in list(elem_exprs):
            if isinstance(el, ast.Name) and el.id not in node_names:
                node_names.add(el.id)
        changed = before != (len(list_names), len(node_names), len(elem_exprs))
    for el in elem_exprs:
        if not isinstance(el, ast.Name):
            add_fields(el)
    for nm in node_names:
        for v in assigned_value(fn, nm):
            add_fields(v)
    muts = list(mutation_targets(fn))
    for st, container in muts:
        if not is_node_expr(container):
            continue
        keys: List[str] = []
        tgts = list(st.targets) if isinstance(st, (ast.Assign, ast.Delete)) else [st.target] if isinstance(st, (ast.AugAssign, ast.AnnAssign)) else []
        for t in tgts:
            for el in (t.elts if isinstance(t, (ast.Tuple, ast.List)) else [t]):
                if isinstance(el, ast.Subscript) and el.value is container:
                    keys.extend(_const_keys(fn, el.slice))
        for c in calls_in(st):
            if isinstance(c.func, ast.Attribute) and c.func.value is container:
                if c.func.attr == "update":
                    got = [k for a in c.args for k, _s in (_dict_expr_keys(fn, a) or [("*", a)])] + [kw.arg or "*" for kw in c.keywords]
                    keys.extend(got or ["*"])
                elif c.func.attr == "setdefault" and c.args:
                    keys.extend(_const_keys(fn, c.args[0]))
                else:
                    keys.append("*")
        for k in keys or ["*"]:
            fields.setdefault(k, st)
    for c in calls_in(fn):  # removal of a field
        if isinstance(c.func, ast.Attribute) and c.func.attr == "pop" and is_node_expr(c.func.value) and c.args:
            for k in _const_keys(fn, c.args[0]):
                fields.setdefault(k, stmt_of(c))
    return fields


def same_node_fields(repo: Repo, R: Report) -> None:
    r = R.rule("C04-D4b-same-node-fields", "inspection and run time hand compute_pipeline_semantic_id node mappings with the same fields: whatever one path writes into the canonical nodes before hashing (preprocessor_metadata) the other path writes too, and nothing else", 2)
    paths = ((BUILDER, "build_inspection_payload", "inspection"), (ORCH, "SemantivaOrchestrator.execute", "run time"))
    got: List[Dict[str, ast.AST]] = []
    for rel, qn, _label in paths:
        fields = hashed_node_fields(nfunc(repo, rel, qn))
        if not fields:
            return  # no enrichment located on this path: instance shortfall -> ANALYSIS-ERROR (C05-D2 reports a dropped enrichment)
        got.append(fields)
    for i, (rel, qn, label) in enumerate(paths):
        other_label = paths[1 - i][2]
        for k, site in sorted(got[i].items()):
            ok = k in got[1 - i] and k != "*"
            R.check(ok, r, rel, qn, f"node[{k!r}] written before compute_pipeline_semantic_id: `{norm(site)[:70]}`",
                    f"{label} writes node field {k!r} into the structure hashed by compute_pipeline_semantic_id, {other_label} does not ({other_label} writes {sorted(got[1 - i])}): the semantic id printed by inspect differs from the one on pipeline_start for configurations where that field is set" if k != "*" else
                    f"{label} writes a node field whose name is not a constant into the structure hashed by compute_pipeline_semantic_id: agreement with {other_label} cannot be established", getattr(site, "lineno", 0))


def run(repo: Repo, R: Report) -> None:
    # ------------------------------------------------------------------ D1 ambient inputs
    r_amb = R.rule("C04-D1-no-ambient-input", "no function of the identity slice reads a clock, random source, process/host/environment value, object address or salted hash; the run id (uuid4) never flows into an identity", 20)
    sl = identity_slice(repo)
    for rel, qn, f in sl:
        bad = None
        for c in calls_in(f):
            d = call_name(c) or ""
            tail = d.split(".")[-1]
            if not d and call_attr(c) in ("getcwd", "getpid", "urandom", "uuid4", "uuid1", "perf_counter", "monotonic", "time_ns", "gethostname", "getenv"):
                bad = c
                break
            if d.startswith(AMBIENT_PREFIXES) or d in AMBIENT_CALLS or (tail in AMBIENT_CALLS and d.split(".")[0] in ("uuid", "time", "datetime", "random", "os", "secrets")):
                bad = c
                break
        for n in walk_no_nested(f):
            if isinstance(n, ast.Attribute) and dotted_name(n) in ("os.environ", "sys.argv"):
                bad = bad or n
        R.check(bad is None, r_amb, rel, qn, f"{qn}: no ambient source", f"`{norm(bad)[:60]}` makes the identity depend on time / process / host / hash seed" if bad is not None else "", f.lineno)
    # execute: ids are computed from canonical + processor metadata only; run_id (uuid4) feeds pipeline_start/SER identity only
    ex = repo.func(ORCH, "SemantivaOrchestrator.execute")
    for c in calls_in(ex):
        if call_attr(c) in ("compute_pipeline_id", "compute_pipeline_semantic_id", "compute_pipeline_config_id", "compute_node_semantic_id"):
            names = {x.id for a in c.args for x in ast.walk(a) if isinstance(x, ast.Name)}
            tainted = {"run_id", "run_token", "payload", "data", "context", "trace", "logger", "transport"} & names
            R.check(not tainted, r_amb, ORCH, "SemantivaOrchestrator.execute", norm(c)[:70], f"a volatile / per-run value ({sorted(tainted)}) is hashed into an identity", c.lineno)

    # ------------------------------------------------------------------ D3a no process-lifetime state
    no_process_state(repo, R, sl)

    # ------------------------------------------------------------------ D2 key-order insensitivity
    r_ord = R.rule("C04-D2-key-order-insensitive", "every value that reaches a hash comes from json.dumps(sort_keys=True) or from a normaliser that rebuilds dicts over sorted keys; no list inside a hashed structure inherits mapping or set order", 10)
    n_sites = 0
    for rel, qn, f in sl + [(ORCH, "SemantivaOrchestrator.execute", ex)]:
        for c in calls_in(f):
            d = call_name(c) or ""
            if d in ("hashlib.sha256", "uuid.uuid5") or (d.endswith(".update") and "digest" in d):
                n_sites += 1
                arg = c.args[-1] if c.args else None
                dumps = _dumps_feeding(f, arg)
                for jd in dumps:
                    sk = kwarg(jd, "sort_keys")
                    sorted_ok = isinstance(sk, ast.Constant) and sk.value is True
                    why = "json.dumps without sort_keys on an unnormalised value"
                    if not sorted_ok:
                        # normalised input: the value that reaches json.dumps was produced by a function that rebuilds every
                        # mapping over sorted keys at every depth (through mappings and lists)
                        sorted_ok, why = _normalised_before_dump(repo, rel, f, jd)
                    R.check(sorted_ok, r_ord, rel, qn, norm(jd)[:90], f"bytes that are hashed depend on mapping key order ({why}): reordering YAML keys changes the identity", jd.lineno)
    if n_sites < 6:
        raise AnalysisError(f"only {n_sites} hashing sites found in the identity slice (10 confirmed by reading)")
    for rel, qn in ((IDENT, "RunSpaceIdentityService._rscf_v1"), (BUILDER, "_normalize_run_space")):
        f = repo.func(rel, qn)
        dcs = [n for n in ast.walk(f) if isinstance(n, ast.DictComp)]
        ok = bool(dcs) and all(isinstance(dc.generators[0].iter, ast.Call) and call_attr(dc.generators[0].iter) == "sorted" for dc in dcs)
        nf = next((n for n in ast.walk(f) if isinstance(n, FuncNode) and order_normaliser_gap(n) is None), None)
        R.check(nf is not None, r_ord, rel, qn, "normaliser descends through mappings and lists", "the RSCF normaliser does not reach every mapping (" + "; ".join(sorted({order_normaliser_gap(n) or "" for n in ast.walk(f) if isinstance(n, FuncNode)})) + "): key order of a mapping nested in a list changes the run-space spec id", f.lineno)
        R.check(ok, r_ord, rel, qn, "dicts rebuilt over sorted(keys)", "the RSCF normaliser keeps mapping order", f.lineno)
    # list order provenance in the sweep metadata
    create = repo.func(SWEEP, "ParametricSweepFactory.create")
    pm = next(n for n in ast.walk(create) if isinstance(n, FuncNode) and n.name == "_preprocessor_metadata")
    for n in ast.walk(pm):
        if isinstance(n, ast.Dict):
            for k, v in zip(n.keys, n.values):
                if isinstance(k, ast.Constant) and isinstance(v, ast.Call) and call_attr(v) in ("list", "tuple", "sorted") and v.args:
                    src_attr = None
                    for x in ast.walk(v.args[0]):
                        if isinstance(x, ast.Constant) and isinstance(x.value, str) and x.value.startswith("_"):
                            src_attr = x.value
                    if call_attr(v) == "sorted":
                        R.ok(r_ord, SWEEP, qualname_of(pm), f"{k.value!r}: sorted(...)", "", v.lineno)
                        continue
                    prov = _class_attr_order(create, src_attr) if src_attr else "unknown"
                    R.check(prov in ("fixed", "sorted"), r_ord, SWEEP, qualname_of(pm), f"{k.value!r}: list(cls.{src_attr}) [{prov} order]",
                            f"a list hashed into the node semantic id inherits {prov} order: reordering the keys of the sweep's mapping changes config_id", v.lineno)
    cpc = repo.func(SEM, "compute_pipeline_config_id")
    R.check(_param_sorted_before_use(repo, SEM, "compute_pipeline_config_id"), r_ord, SEM, "compute_pipeline_config_id", "pairs sorted before hashing", "config id depends on the order pairs were collected", cpc.lineno)
    crk = repo.func(BUILDER, "_collect_required_context_keys")
    rets = [n for n in walk_no_nested(crk) if isinstance(n, ast.Return) and n.value is not None and not (isinstance(n.value, ast.List) and not n.value.elts)]
    R.check(bool(rets) and all(isinstance(r.value, ast.Call) and call_attr(r.value) == "sorted" for r in rets), r_ord, BUILDER, "_collect_required_context_keys", "required context keys returned sorted", "the required-key list of the inspection payload follows set iteration order (hash-seed dependent)", crk.lineno)
    # set iteration anywhere in the slice
    for rel, qn, f in sl:
        for n in walk_no_nested(f):
            it = n.iter if isinstance(n, (ast.For, ast.comprehension)) else None
            if it is not None and isinstance(it, ast.Call) and call_attr(it) in ("set", "frozenset"):
                R.violation(r_ord, rel, qn, norm(it)[:70], "iteration over a set inside the identity slice: order depends on PYTHONHASHSEED", getattr(it, "lineno", f.lineno))

    # ------------------------------------------------------------------ D4 same functions, same fields on both paths
    r_same = R.rule("C04-D4-inspect-equals-runtime", "inspection and run time compute the three pipeline-level ids with the same functions of semantiva.metadata.semantic_id / graph_builder, from the canonical nodes enriched with the same metadata and from (node_uuid, node semantic id) pairs built alike; each id prefix is produced in exactly one function", 9)
    bip = repo.func(BUILDER, "build_inspection_payload")
    for rel, qn, f in ((BUILDER, "build_inspection_payload", bip), (ORCH, "SemantivaOrchestrator.execute", ex)):
        mod = repo.module(rel)
        for fname, home in (("compute_pipeline_semantic_id", SEM), ("compute_pipeline_config_id", SEM), ("compute_node_semantic_id", SEM)):
            cs = [c for c in calls_in(f) if call_attr(c) == fname]
            ok = bool(cs)
            for c in cs:
                t = repo.resolve_call(mod, c)
                ok = ok and len(t) == 1 and t[0][0].rel == home
            R.check(ok, r_same, rel, qn, f"{fname} -> {home}", f"{qn} does not compute this id with {home}:{fname} (a private re-implementation or a missing call)", f.lineno)
        ok, why = _config_id_pairs(repo, rel, qn)
        R.check(ok, r_same, rel, qn, "semantic_pairs.append((node_uuid, node_semantic_id))", f"the pairs hashed into config_id are not (node uuid, node semantic id): {why}", f.lineno)
    same_node_fields(repo, R)
    for prefix, (home_rel, home_fn) in PREFIX_OWNERS.items():
        owners = []
        for mod, qn, f in repo.all_functions():
            if mod.rel.startswith("semantiva/examples/"):
                continue
            for n in walk_no_nested(f):
                if isinstance(n, ast.Constant) and isinstance(n.value, str) and n.value == prefix:
                    owners.append((mod.rel, qn))
        R.check(owners == [(home_rel, home_fn)], r_same, home_rel, home_fn, f"prefix {prefix!r} produced only here", f"id prefix {prefix!r} is produced in {owners}: a second, private hashing of the same identity exists", 0)

    # ------------------------------------------------------------------ D5 commutative normalisation (C12 rules)
    from . import c12

    R.rule_prefix = "C04-D5/"
    try:
        c12.run(repo, R)
    finally:
        R.rule_prefix = ""
    # the sweep payload shown by inspect is derived from the same metadata
    from . import c05

    R.rule_prefix = "C04-D4/"
    try:
        c05.sweep_metadata(repo, R)
    finally:
        R.rule_prefix = ""


ELEMENTWISE = {"list", "tuple", "set", "frozenset", "iter"}


def _elementwise_top(x: ast.AST, stop: ast.AST) -> ast.AST:
    """Climb from *x* through wrappers that keep the multiset of elements (list(x), tuple(x), a comprehension
    iterating x): the outermost such expression."""
    cur = x
    while True:
        par = getattr(cur, "_parent", None)
        if par is None or par is stop:
            return cur
        if isinstance(par, ast.Call) and isinstance(par.func, ast.Name) and par.func.id in ELEMENTWISE and par.args and par.args[0] is cur and len(par.args) == 1:
            cur = par
            continue
        if isinstance(par, ast.Starred) and isinstance(getattr(par, "_parent", None), (ast.List, ast.Tuple)) and len(par._parent.elts) == 1:  # [*x]
            cur = par._parent
            continue
        if isinstance(par, ast.comprehension) and par.iter is cur and not par.ifs:
            owner = getattr(par, "_parent", None)
            if isinstance(owner, (ast.ListComp, ast.GeneratorExp, ast.SetComp)) and len(owner.generators) == 1:
                cur = owner
                continue
        return cur


def _param_sorted_before_use(repo: Repo, rel: str, qualname: str) -> bool:
    """Every read of the function's first parameter is the operand of ``sorted(...)`` - or of a copy that an
    unconditional ``<copy>.sort(...)`` orders before anything else reads it: the order in which the caller
    collected the elements cannot reach what is hashed.  Decided on the normal form, by role (no local names)."""
    fn = nfunc(repo, rel, qualname, copyprop="all", keep=("_sha256_json",))
    if not fn.args.args:
        return False
    p = fn.args.args[0].arg
    loads = [x for x in ast.walk(fn) if isinstance(x, ast.Name) and x.id == p and isinstance(x.ctx, ast.Load)]
    if not loads:
        return False
    for x in loads:
        top = _elementwise_top(x, fn)
        par = getattr(top, "_parent", None)
        if isinstance(par, ast.Call) and isinstance(par.func, ast.Name) and par.func.id == "sorted" and par.args and par.args[0] is top:
            continue
        # <copy> = list(param); <copy>.sort(...)  as consecutive top-level statements of the body
        if top is not x and isinstance(par, (ast.Assign, ast.AnnAssign)) and par in fn.body:
            tgt = par.targets[0] if isinstance(par, ast.Assign) and len(par.targets) == 1 else getattr(par, "target", None)
            i = fn.body.index(par)
            nxt = fn.body[i + 1] if i + 1 < len(fn.body) else None
            if (isinstance(tgt, ast.Name) and isinstance(nxt, ast.Expr) and isinstance(nxt.value, ast.Call) and isinstance(nxt.value.func, ast.Attribute)
                    and nxt.value.func.attr == "sort" and isinstance(nxt.value.func.value, ast.Name) and nxt.value.func.value.id == tgt.id):
                continue
        return False
    return True


def _config_id_pairs(repo: Repo, rel: str, qualname: str) -> Tuple[bool, str]:
    """The list handed to compute_pipeline_config_id receives exactly (canonical node uuid, node semantic id) pairs.

    Found by role: <P> is whatever is passed to compute_pipeline_config_id; its elements are the tuples appended to
    <P> (or the element of the comprehension that builds it); the first component is sliced back to a read of the
    canonical node field 'node_uuid', the second one to compute_node_semantic_id(...) / a constant marker."""
    fn = nfunc(repo, rel, qualname)
    calls = [c for c in calls_in(fn) if call_attr(c) == "compute_pipeline_config_id"]
    if len(calls) != 1 or not calls[0].args:
        return False, "no single compute_pipeline_config_id(<pairs>) call"
    arg = calls[0].args[0]
    elems: List[ast.AST] = []
    srcs = [arg]
    if isinstance(arg, ast.Name):
        srcs = list(assigned_value(fn, arg.id))
        for c in calls_in(fn):
            if call_attr(c) == "append" and isinstance(c.func, ast.Attribute) and isinstance(c.func.value, ast.Name) and c.func.value.id == arg.id and c.args:
                elems.append(c.args[0])
            elif call_attr(c) in ("extend", "insert", "__iadd__") and isinstance(c.func, ast.Attribute) and isinstance(c.func.value, ast.Name) and c.func.value.id == arg.id:
                return False, f"`{norm(c)[:60]}` adds elements of unknown shape"
    for v in srcs:
        if isinstance(v, (ast.ListComp, ast.GeneratorExp)):
            elems.append(v.elt)
        elif isinstance(v, ast.List):
            elems.extend(v.elts)
        elif isinstance(v, ast.Call) and call_attr(v) == "list" and not v.args:
            pass
        else:
            return False, f"pairs built by `{norm(v)[:60]}`"
    if not elems:
        return False, "nothing is appended to the pairs"
    for e in elems:
        if not (isinstance(e, ast.Tuple) and len(e.elts) == 2):
            return False, f"element `{norm(e)[:60]}` is not a 2-tuple"
        a, b = e.elts
        if "'node_uuid'" not in slice_text(fn, a, 3):
            return False, f"first component `{norm(a)[:50]}` is not read from the canonical node's 'node_uuid'"
        vals = assigned_value(fn, b.id) if isinstance(b, ast.Name) else [b]
        flat: List[ast.AST] = []
        for v in vals:
            flat.extend([v.body, v.orelse] if isinstance(v, ast.IfExp) else [v])
        has_id = any(isinstance(v, ast.Call) and call_attr(v) == "compute_node_semantic_id" for v in flat)
        rest_ok = all((isinstance(v, ast.Call) and call_attr(v) == "compute_node_semantic_id") or (isinstance(v, ast.Constant) and isinstance(v.value, str)) for v in flat)
        if not (has_id and rest_ok):
            return False, f"second component `{norm(b)[:50]}` is not compute_node_semantic_id(...) or a constant marker"
    return True, ""


def order_normaliser_gap(fn: ast.AST) -> Optional[str]:
    """None when *fn* is a key-order normaliser: called on v it returns, for a mapping, a dict rebuilt over
    ``sorted(...)`` of its keys with the values normalised recursively, and for a list, the list of the recursively
    normalised items - so no mapping at any depth (also below lists) keeps insertion order.  Otherwise the reason."""
    if not isinstance(fn, FuncNode) or not fn.args.args:
        return "not a function of one value"
    v = fn.args.args[0].arg
    name = fn.name

    def recursive(e: ast.AST) -> bool:
        return any(isinstance(c, ast.Call) and isinstance(c.func, ast.Name) and c.func.id == name for c in ast.walk(e))

    def over_param_sorted(it: ast.AST) -> bool:
        return isinstance(it, ast.Call) and isinstance(it.func, ast.Name) and it.func.id == "sorted" and bool(it.args) and v in {x.id for x in ast.walk(it.args[0]) if isinstance(x, ast.Name)}

    dict_ok = list_ok = False
    for n in walk_no_nested(fn):
        if isinstance(n, ast.DictComp):
            if not (len(n.generators) == 1 and over_param_sorted(n.generators[0].iter)):
                return f"{name}: a mapping is rebuilt in insertion order"
            if recursive(n.value):
                dict_ok = True
        elif isinstance(n, ast.Dict) and any(k is None for k in n.keys):
            return f"{name}: a mapping is copied in insertion order"
        elif isinstance(n, (ast.ListComp, ast.GeneratorExp)) and len(n.generators) == 1:
            it = n.generators[0].iter
            if isinstance(it, ast.Name) and it.id == v and recursive(n.elt) and not n.generators[0].ifs:
                list_ok = True
    if not dict_ok:
        return f"{name}: mappings are not rebuilt over sorted keys with normalised values"
    if not list_ok:
        return f"{name} does not descend into lists - a mapping inside a list keeps its key order"
    return None


def _normalised_before_dump(repo: Repo, rel: str, f: ast.AST, jd: ast.Call) -> Tuple[bool, str]:
    """The first argument of the json.dumps call *jd* is, on every path, the result of a key-order normaliser."""
    from ..cfg import CFG, reaching_defs

    a0 = jd.args[0] if jd.args else None
    if a0 is None:
        return False, "json.dumps without a value"
    vals: List[ast.AST] = [a0]
    if isinstance(a0, ast.Name):
        g = CFG(f, may_raise=lambda p: set())
        uses = g.nodes_for(stmt_of(jd))
        defs = reaching_defs(g, a0.id, uses[0]) if uses else []
        vals = [d.ast.value for d in defs if isinstance(d.ast, (ast.Assign, ast.AnnAssign)) and getattr(d.ast, "value", None) is not None]
        if not vals or len(vals) != len(defs):
            return False, f"json.dumps without sort_keys on `{a0.id}`, which is not the result of a key-order normaliser"
    mod = repo.module(rel)
    for val in vals:
        if not (isinstance(val, ast.Call) and isinstance(val.func, ast.Name)):
            return False, f"json.dumps without sort_keys on an unnormalised value `{norm(val)[:50]}`"
        target = next((n for n in ast.walk(f) if isinstance(n, FuncNode) and n is not f and n.name == val.func.id), None) or mod.defs.get(val.func.id)
        if not isinstance(target, FuncNode):
            return False, f"json.dumps without sort_keys on the result of `{val.func.id}`, which is not a function of this module"
        gap = order_normaliser_gap(target)
        if gap is not None:
            return False, f"json.dumps without sort_keys, and {gap}"
    return True, ""


def _dumps_feeding(f: ast.AST, arg: Optional[ast.AST], depth: int = 0) -> List[ast.Call]:
    """json.dumps calls whose result flows into *arg* (through locals, .encode(), f-strings, +)."""
    if arg is None or depth > 3:
        return []
    out = []
    for c in ast.walk(arg):
        if isinstance(c, ast.Call) and call_name(c) == "json.dumps":
            out.append(c)
    for nm in {x.id for x in ast.walk(arg) if isinstance(x, ast.Name)}:
        for v in assigned_value(f, nm):
            out.extend(_dumps_feeding(f, v, depth + 1))
    return out


def _class_attr_order(create: ast.AST, attr: str) -> str:
    """Order kind of the value assigned to class attribute *attr* in the generated sweep classes."""
    locals_assigned = set()
    for n in ast.walk(create):
        if isinstance(n, ast.Assign) and any(isinstance(t, ast.Name) and t.id == attr for t in n.targets):
            v = n.value
            if isinstance(v, ast.Call) and call_attr(v) in ("list", "tuple") and v.args and isinstance(v.args[0], ast.Name):
                locals_assigned.add(v.args[0].id)
            elif isinstance(v, ast.Name):
                locals_assigned.add(v.id)
            elif isinstance(v, ast.Call) and call_attr(v) == "sorted":
                return "sorted"
    kinds = set()
    for nm in locals_assigned:
        for v in assigned_value(create, nm):
            if isinstance(v, ast.Call) and call_attr(v) == "sorted":
                kinds.add("sorted")
            elif isinstance(v, ast.ListComp):
                it = v.generators[0].iter
                if isinstance(it, ast.Call) and call_attr(it) in ("values", "items", "keys"):
                    kinds.add("mapping")
                elif isinstance(it, ast.Call) and call_attr(it) == "sorted":
                    kinds.add("sorted")
                else:
                    kinds.add("fixed")
            elif isinstance(v, ast.List):
                # appended to inside a loop over the element's signature parameters -> declaration order of the element
                kinds.add("fixed")
            else:
                kinds.add("unknown")
    if not kinds:
        return "unknown"
    for bad in ("mapping", "unknown"):
        if bad in kinds:
            return bad
    return "sorted" if kinds == {"sorted"} else "fixed"
